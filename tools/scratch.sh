#!/bin/sh
# Scratch copy of /repo for testing rules against a modified tree WITHOUT touching /repo.
# usage: tools/scratch.sh <name> new            create/reset worktree /tmp/rw/<name> at /repo's HEAD (+ /repo's uncommitted changes are NOT copied)
#        tools/scratch.sh <name> apply <patch>  git apply a patch inside the worktree
#        tools/scratch.sh <name> reset          drop all edits in the worktree
#        tools/scratch.sh <name> check ID...    run ./check ID against the worktree (own fact cache, evidence redirected; /verif/evidence untouched)
#        tools/scratch.sh <name> try <patch> ID...   reset + apply + check + reset
#        tools/scratch.sh <name> rm             remove worktree, its build output and its cache
n=$1; cmd=$2; shift 2
W=/tmp/rw/$n; C=/tmp/rw/$n-cache
case "$cmd" in
 new) mkdir -p /tmp/rw; [ -d $C ] || { cp -r /verif/.cache $C; rm -f $C/lock; }; if [ -d $W ]; then git -C $W reset -q --hard; git -C $W clean -fdq -e target; git -C $W checkout -q --detach $(git -C /repo rev-parse HEAD); else git -C /repo worktree add -q --detach $W HEAD; fi; echo "$W at $(git -C $W rev-parse --short HEAD)";;
 apply) git -C $W apply "$(realpath "$1")" && echo applied;;
 reset) git -C $W reset -q --hard; git -C $W clean -fdq -e target;;
 check) cd /verif; for id in "$@"; do VERIF_REPO=$W VERIF_CACHE=$C VERIF_EVID=$C/evidence ./check $id 2>&1 | grep -E "^(VIOLATION|OK|KNOWN|  rule)" | cut -c1-500; done;;
 try) p=$(realpath "$1"); shift; git -C $W reset -q --hard; git -C $W clean -fdq -e target; git -C $W apply "$p" || { echo "patch does not apply"; exit 2; }
      cd /verif; for id in "$@"; do VERIF_REPO=$W VERIF_CACHE=$C VERIF_EVID=$C/evidence ./check $id 2>&1 | grep -E "^(VIOLATION|OK|KNOWN|  rule)" | cut -c1-500; done
      git -C $W reset -q --hard; git -C $W clean -fdq -e target;;
 rm) git -C /repo worktree remove --force $W; rm -rf $C $W;;
 *) echo "unknown command"; exit 2;;
esac
