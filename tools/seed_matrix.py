#!/usr/bin/env python3
"""seed_matrix.py [ID...]: for every /verif/seeded/<dir> whose property check exists, apply its patch in the scratch
worktree /tmp/rw/main (never /repo), run the property's check there, and record the reporting rules in meta.json
(`detected_by`) and in seeded/MATRIX.md."""
import json, os, re, subprocess, sys
V = "/verif"
ids = sys.argv[1:] or sorted(os.listdir(os.path.join(V, "seeded")))
SC = os.environ.get("VERIF_SCRATCH", "main")
subprocess.run([V + "/tools/scratch.sh", SC, "new"], check=True, capture_output=True)
rows = []
for d in ids:
    p = os.path.join(V, "seeded", d)
    mp = os.path.join(p, "meta.json")
    if not os.path.isdir(p) or not os.path.exists(mp):
        continue
    meta = json.load(open(mp))
    pid = meta["property"]
    if not os.path.exists(os.path.join(V, "vrules", "props", pid.lower() + ".py")):
        rows.append((d, pid, "no check yet", []))
        continue
    r = subprocess.run([V + "/tools/scratch.sh", SC, "try", os.path.join(p, "patch.diff"), pid], capture_output=True, text=True)
    out = r.stdout
    hits = re.findall(r"rule=(\S+) instance=(.*?) at ", out)
    det = sorted({"%s/%s" % h for h in hits})
    status = "caught" if det else ("patch does not apply" if "does not apply" in out + r.stderr else "MISSED")
    meta["detected_by"] = det
    meta["detection_status"] = status
    json.dump(meta, open(mp, "w"), indent=1)
    rows.append((d, pid, status, det))
    print(d, pid, status, len(det), flush=True)
with open(os.path.join(V, "seeded", "MATRIX.md" if not sys.argv[1:] else "MATRIX-part-%s.md" % SC), "w") as f:
    f.write("| seeded change | property | status | reporting rules |\n|---|---|---|---|\n")
    for d, pid, st, det in rows:
        f.write("| %s | %s | %s | %s |\n" % (d, pid, st, "; ".join(det)[:400]))
