#!/bin/sh
# usage: verify_seed.sh <ID> <package> <demo test args...>
# Confirms in the scratch worktree /tmp/seed/<ID>: (1) orig+demo passes (2) patched+demo fails (3) patched existing tests pass.
id=$1; pkg=$2; shift 2
W=/tmp/seed/$id; O=/tmp/seed/$id-out
export CARGO_NET_OFFLINE=true CARGO_TARGET_DIR=$W/target
cd $W || exit 2
git reset -q --hard HEAD; git clean -fdq -e target
git apply $O/demo.diff || { echo "demo.diff does not apply on original"; exit 2; }
echo "== [1] original + demo (expect PASS)"; cargo test --offline -p $pkg "$@" 2>&1 | grep -E "^test result|FAILED|panicked|error(\[|:)" | head -8
git apply $O/patch.diff || { echo "patch.diff does not apply"; exit 2; }
echo "== [2] patched + demo (expect FAIL)"; cargo test --offline -p $pkg "$@" 2>&1 | grep -E "^test result|FAILED|panicked|error(\[|:)" | head -8
git reset -q --hard HEAD; git clean -fdq -e target
git apply $O/patch.diff
echo "== [3] patched, existing tests (expect PASS; retried up to 3x because connection::tests::idle_timeout_with_keep_alive_no is timing-flaky under load on the unmodified tree too)"
for try in 1 2 3; do cargo test --offline -p $pkg -- --test-threads 4 > $W/../$id.t3.log 2>&1; rc=$?; grep -E "^test result|FAILED|failed|error(\[|:)" $W/../$id.t3.log | head -20; [ $rc = 0 ] && { echo "attempt $try: all existing tests passed"; break; } || echo "attempt $try: exit $rc"; done
git reset -q --hard HEAD; git clean -fdq -e target
echo "== done $id"
