#!/usr/bin/env python3
"""neutral_matrix.py <scratch-name> <group>...: apply every /verif/neutral/<group>/NN.diff in a scratch worktree (never /repo), run the
checks of that family, record silent / alarms in neutral/MATRIX-<scratch-name>.json"""
import glob, json, os, re, subprocess, sys
V = "/verif"
FAM = {"swarm": "C01 C02 C03 C04 C05 C06 C07 C08 C09 C10 C11 C12 C13", "sec": "C14 C15 C16 C17 C18 C19 C20 C21 C22 C23",
       "mux": "C24 C25 C26 C55 C56 C57", "gs": "C27 C28 C29 C30 C31 C32 C33 C34 C35 C36", "kad": "C37 C38 C39 C40 C41 C42 C43 C44",
       "proto": "C45 C46 C47 C48 C49 C50 C51", "misc": "C52 C53 C54 C58"}
name = sys.argv[1]
subprocess.run([V + "/tools/scratch.sh", name, "new"], capture_output=True)
res = {}
for g in sys.argv[2:]:
    ids = FAM[g.rstrip("2")].split()
    for f in sorted(glob.glob("%s/neutral/%s/*.diff" % (V, g))):
        r = subprocess.run([V + "/tools/scratch.sh", name, "try", f] + ids, capture_output=True, text=True)
        out = r.stdout
        al = sorted(set(re.findall(r"VIOLATION property=(C\d+)", out)))
        rules = sorted(set("%s/%s" % h for h in re.findall(r"rule=(\S+) instance=(.*?) at ", out)))[:6]
        ok = len(re.findall(r"^OK ", out, re.M))
        st = "does not apply" if "does not apply" in out + r.stderr else ("silent" if not al and ok == len(ids) else ("alarm" if al else "incomplete"))
        res["%s/%s" % (g, os.path.basename(f))] = {"status": st, "alarming_checks": al, "rules": rules}
        print(g, os.path.basename(f), st, al, flush=True)
        json.dump(res, open("%s/neutral/MATRIX-%s.json" % (V, name), "w"), indent=1)
