#!/bin/sh
# new_seed2.sh <ID>: second independent seeded change for a property: worktree /tmp/seed/<ID>b, prompt tells the agent which earlier change to avoid
id=$1; tag=${1}b
mkdir -p /tmp/seed
[ -d /tmp/seed/$tag ] || git -C /repo worktree add -q --detach /tmp/seed/$tag HEAD
python3 - $id $tag <<'EOF'
import json,sys,os,glob
id,tag=sys.argv[1],sys.argv[2]
p=[json.loads(l) for l in open('/verif/properties.jsonl') if json.loads(l)['id']==id][0]
txt="%s — %s\n\nStatement: %s\n\nQuantifier: %s\n\nWhere the mechanism lives: %s\n"%(p['id'],p['title'],p['statement'],p['quantifier']['text'],"; ".join("%s (%s)"%(m['name'],m['where']) for m in p['anchors'].get('mechanism',[])))
prev=""
for d in sorted(glob.glob('/verif/seeded/%s*'%id)):
    try: prev+="\n--- earlier change %s ---\n"%os.path.basename(d)+open(os.path.join(d,'patch.diff')).read()[:3000]
    except OSError: pass
open('/tmp/seed/%s.prop.txt'%tag,'w').write(txt)
t=open('/verif/tools/seed_prompt.tmpl').read().replace('@ID@',tag).replace('@PROP@',txt)
t=t.replace("Task: produce","IMPORTANT: another engineer already submitted the change(s) shown at the end of this file for the same property. Yours must be DIFFERENT: break a different clause of the property, or the same clause at a different site/function, by a different kind of mistake. Do not touch the same lines.\n\nTask: produce",1)
t+="\nEarlier change(s) to avoid duplicating:\n"+prev+"\n"
open('/tmp/seed/%s.prompt.txt'%tag,'w').write(t)
EOF
echo /tmp/seed/$tag.prompt.txt
