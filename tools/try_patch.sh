#!/bin/sh
# usage: tools/try_patch.sh <patch.diff> <ID>...   apply patch to /repo, run checks, always revert
p=$1; shift
cd /repo || exit 2
git apply "$p" || { echo "patch does not apply"; exit 2; }
cd /verif
for id in "$@"; do ./check $id 2>&1 | grep -E "^(VIOLATION|OK|KNOWN|  rule)" | cut -c1-400; done
git -C /repo checkout -- . 
git -C /repo status --short | head -3
