#!/usr/bin/env python3
"""Regenerate the generated regions of DESIGN.md (between <!-- BEGIN:x --> / <!-- END:x --> markers):
   ASBUILT  per-property as-built summary from each module's docstring / EXPLANATION / ASSUMPTIONS
   FINDINGS defects fixed / recorded (known_findings.jsonl)
   SEEDS    which independently written breaking changes are caught by which rules (seeded/*/meta.json)
   NEUTRAL  the behaviour-preserving refactoring sets the checks are kept silent on (neutral/*)"""
import glob, importlib, json, os, re, sys
HERE = os.path.dirname(os.path.dirname(os.path.abspath(__file__)))
sys.path.insert(0, HERE)


def region(text, name, body):
    b, e = "<!-- BEGIN:%s -->" % name, "<!-- END:%s -->" % name
    if b not in text:
        return text.rstrip("\n") + "\n\n" + b + "\n" + body + "\n" + e + "\n"
    i, j = text.index(b), text.index(e)
    return text[:i] + b + "\n" + body + "\n" + text[j:]


def asbuilt():
    props = {json.loads(l)["id"]: json.loads(l) for l in open(os.path.join(HERE, "properties.jsonl"))}
    out = []
    for pid in sorted(props):
        path = os.path.join(HERE, "vrules", "props", pid.lower() + ".py")
        if not os.path.exists(path):
            continue
        mod = importlib.import_module("vrules.props." + pid.lower())
        ev = {}
        try:
            ev = json.load(open(os.path.join(HERE, "evidence", pid + ".json")))["coverage"]
        except Exception:
            pass
        nm = len(getattr(mod, "MUTANTS", []))
        mf = os.path.join(HERE, "vrules", "mutants", pid.lower() + ".json")
        if os.path.exists(mf):
            nm += len(json.load(open(mf)))
        out.append("**%s — %s.** %s" % (pid, props[pid]["title"], (mod.__doc__ or "").strip().splitlines()[0]))
        out.append("Decided: " + re.sub(r"\s+", " ", getattr(mod, "EXPLANATION", "")).strip())
        out.append("Not decided / assumed: " + "; ".join(getattr(mod, "ASSUMPTIONS", []) or ["-"]))
        out.append("Rule families: %s · obligations on today's tree: %s · bodies analysed: %s · recorded mutants: %d"
                   % (", ".join("%s(%d)" % kv for kv in sorted((ev.get("rules") or {}).items())) or "-", ev.get("obligations", "?"),
                      len(ev.get("functions_analysed", [])), nm))
        out.append("")
    return "\n".join(out)


def findings():
    rows = ["| status | property | commit / key | what |", "|---|---|---|---|"]
    for line in open(os.path.join(HERE, "known_findings.jsonl")):
        line = line.strip()
        if line.startswith("fixed:"):
            m = re.match(r"fixed: property=(\S+) (\S+) (.*)", line)
            rows.append("| fixed | %s | /repo %s | %s |" % (m.group(1), m.group(2), m.group(3)[:420].replace("|", "/")))
        elif line.startswith("{"):
            j = json.loads(line)
            rows.append("| %s | %s | `%s` | %s |" % (j.get("status"), j.get("property"), j.get("key"), j.get("what", "")[:420].replace("|", "/")))
    return "\n".join(rows)


def seeds():
    rows = ["| seeded change | property | needs to manifest (from the author's README) | status | reporting rules |", "|---|---|---|---|---|"]
    for mp in sorted(glob.glob(os.path.join(HERE, "seeded", "*", "meta.json"))):
        m = json.load(open(mp))
        d = os.path.basename(os.path.dirname(mp))
        rd = ""
        try:
            txt = open(os.path.join(os.path.dirname(mp), "README.md")).read()
            mm = re.search(r"(?is)(needs?[^\n]*manifest[^\n]*\n+)(.{40,400}?)(\n\s*\n|\n#)", txt)
            rd = re.sub(r"\s+", " ", mm.group(2)).strip()[:260] if mm else ""
        except Exception:
            pass
        rows.append("| seeded/%s | %s | %s | %s | %s |" % (d, m.get("property"), rd.replace("|", "/"), m.get("detection_status", "not run"),
                                                        "; ".join(m.get("detected_by", []))[:300].replace("|", "/")))
    return "\n".join(rows)


def neutral():
    res = {}
    for f in sorted(glob.glob(os.path.join(HERE, "neutral", "MATRIX-*.json"))):
        try:
            res.update(json.load(open(f)))
        except Exception:
            pass
    rows = ["| set | patches | silent on every check of the family | still alarming at the end of the session (check: rules) |", "|---|---|---|---|"]
    for d in sorted(glob.glob(os.path.join(HERE, "neutral", "*"))):
        if not os.path.isdir(d):
            continue
        g = os.path.basename(d)
        n = len(glob.glob(os.path.join(d, "*.diff")))
        mine = {k: v for k, v in res.items() if k.startswith(g + "/")}
        silent = len([1 for v in mine.values() if v["status"] == "silent"])
        bad = ["%s (%s: %s)" % (k.split("/")[1], ",".join(v["alarming_checks"]), "; ".join(v["rules"])[:160]) for k, v in sorted(mine.items()) if v["status"] == "alarm"]
        other = ["%s (%s)" % (k.split("/")[1], v["status"]) for k, v in sorted(mine.items()) if v["status"] not in ("silent", "alarm")]
        rows.append("| neutral/%s | %d | %s | %s |" % (g, n, ("%d of %d run" % (silent, len(mine))) if mine else "final matrix not run for this set",
                                                    ("<br>".join(bad + other) or "-").replace("|", "/")))
    return "\n".join(rows)


def main():
    p = os.path.join(HERE, "DESIGN.md")
    t = open(p).read()
    t = region(t, "ASBUILT", asbuilt())
    t = region(t, "FINDINGS", findings())
    t = region(t, "SEEDS", seeds())
    t = region(t, "NEUTRAL", neutral())
    open(p, "w").write(t)
    print("DESIGN.md regions regenerated")


if __name__ == "__main__":
    main()
