#!/bin/sh
# new_neutral2.sh <group> <N> <ID>...: second, different set of behaviour-preserving refactorings for a group (worktree /tmp/neutral/<group>2)
g=$1; n=$2; shift 2; tag=${g}2
mkdir -p /tmp/neutral
[ -d /tmp/neutral/$tag ] || git -C /repo worktree add -q --detach /tmp/neutral/$tag HEAD
python3 - $g $tag $n "$@" <<'EOF'
import json,sys,os
g,tag,n,ids=sys.argv[1],sys.argv[2],sys.argv[3],sys.argv[4:]
ps=[json.loads(l) for l in open('/verif/properties.jsonl')]
lines=[]
for p in ps:
    if p['id'] in ids:
        for m in p['anchors'].get('mechanism',[]):
            lines.append(" - %s (%s)  [%s]"%(m['name'],m['where'],p['title']))
t=open('/verif/tools/neutral_prompt.tmpl').read().replace('@TAG@',tag).replace('@N@',n).replace('@ANCHORS@',"\n".join(lines))
prev=""
try: prev=open('/verif/neutral/%s/README.md'%g).read()[:6000]
except OSError: pass
t+="\nIMPORTANT: an earlier engineer already produced the refactorings summarised below for the same scope. Yours must be DIFFERENT: other functions among those listed (prefer mechanisms the earlier set did not touch), and other kinds or at least other concrete transformations. Also include, spread over your patches: at least two *extract a block into a new private helper fn/method* refactorings, at least two *renames of locals/parameters/private fields or private functions*, at least one *iterator chain <-> explicit loop*, at least one *`?` <-> explicit match*, at least one *mirrored/negated comparison*, at least one *hoisted boolean condition into a `let`*.\n\n--- earlier set (do not repeat) ---\n"+prev+"\n"
open('/tmp/neutral/%s.prompt.txt'%tag,'w').write(t)
EOF
echo /tmp/neutral/$tag.prompt.txt
