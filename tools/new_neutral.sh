#!/bin/sh
# new_neutral.sh <tag> <N> <ID>...: worktree /tmp/neutral/<tag> + prompt for a behaviour-preserving-refactoring sub-agent over the anchors of the given properties
tag=$1; n=$2; shift 2
mkdir -p /tmp/neutral
[ -d /tmp/neutral/$tag ] || git -C /repo worktree add -q --detach /tmp/neutral/$tag HEAD
python3 - $tag $n "$@" <<'EOF'
import json,sys
tag,n,ids=sys.argv[1],sys.argv[2],sys.argv[3:]
ps=[json.loads(l) for l in open('/verif/properties.jsonl')]
lines=[]
for p in ps:
    if p['id'] in ids:
        for m in p['anchors'].get('mechanism',[]):
            lines.append(" - %s (%s)  [%s]"%(m['name'],m['where'],p['title']))
t=open('/verif/tools/neutral_prompt.tmpl').read().replace('@TAG@',tag).replace('@N@',n).replace('@ANCHORS@',"\n".join(lines))
open('/tmp/neutral/%s.prompt.txt'%tag,'w').write(t)
EOF
echo /tmp/neutral/$tag.prompt.txt
