#!/bin/sh
# new_seed.sh <ID> [<tag>]: scratch worktree /tmp/seed/<tag|ID> at /repo HEAD + prompt file for an independent sub-agent
id=$1; tag=${2:-$1}
mkdir -p /tmp/seed
[ -d /tmp/seed/$tag ] || git -C /repo worktree add -q --detach /tmp/seed/$tag HEAD
python3 - $id $tag <<'EOF'
import json,sys
id,tag=sys.argv[1],sys.argv[2]
p=[json.loads(l) for l in open('/verif/properties.jsonl') if json.loads(l)['id']==id][0]
txt="%s — %s\n\nStatement: %s\n\nQuantifier: %s\n\nWhere the mechanism lives: %s\n"%(p['id'],p['title'],p['statement'],p['quantifier']['text'],"; ".join("%s (%s)"%(m['name'],m['where']) for m in p['anchors'].get('mechanism',[])))
open('/tmp/seed/%s.prop.txt'%tag,'w').write(txt)
t=open('/verif/tools/seed_prompt.tmpl').read().replace('@ID@',tag).replace('@PROP@',txt)
open('/tmp/seed/%s.prompt.txt'%tag,'w').write(t)
EOF
echo /tmp/seed/$tag.prompt.txt
