#!/bin/sh
# final consolidation: run every check on /repo, regenerate manifest + DESIGN regions, validate, commit
cd /verif
tools/run_all.sh 2>&1 | grep -v conda > /tmp/final_run.log
grep -v "^OK" /tmp/final_run.log | cut -c1-200
python3 tools/gen_manifest.py
python3 tools/gen_design.py
python3-vt tools/validate.py | tail -1
git add -A evidence MANIFEST.json DESIGN.md seeded neutral vrules tools findings known_findings.jsonl
git commit -qm "final consolidation: evidence, manifest, DESIGN" && echo committed
