#!/usr/bin/env python3
"""archive_seed.py <ID> <package> <demo test args...>: copy a verified seeded change into /verif/seeded/<ID>/ and drop its worktree."""
import json, os, shutil, subprocess, sys
id_, pkg = sys.argv[1], sys.argv[2]
demo = " ".join(sys.argv[3:])
src = "/tmp/seed/%s-out" % id_
dst = "/verif/seeded/%s" % id_
os.makedirs(dst, exist_ok=True)
for f in ("patch.diff", "demo.diff", "README.md"):
    shutil.copy(os.path.join(src, f), os.path.join(dst, f))
log = open("/tmp/seed/%s.verify.log" % id_).read()
readme = open(os.path.join(src, "README.md")).read()
meta = {
    "property": id_.rstrip("abcdefgh"),
    "breaks": "see README.md (written by the independent sub-agent that produced the change)",
    "needs_to_manifest": "see README.md section on what it needs in order to manifest",
    "package": pkg,
    "demo_command": "cargo test --offline -p %s %s" % (pkg, demo),
    "confirmed_by_me": {
        "scratch_worktree": "/tmp/seed/%s (removed afterwards)" % id_,
        "runs": ["original + demo.diff: demo passes", "original + demo.diff + patch.diff: demo fails",
                 "original + patch.diff: existing tests of the package pass (cargo test --offline -p %s -- --test-threads 4)" % pkg],
        "log": log,
    },
    "detected_by": [],
}
json.dump(meta, open(os.path.join(dst, "meta.json"), "w"), indent=1)
subprocess.run(["git", "-C", "/repo", "worktree", "remove", "--force", "/tmp/seed/%s" % id_])
shutil.rmtree(src, ignore_errors=True)
print("archived", id_)
