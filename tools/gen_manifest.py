#!/usr/bin/env python3
"""Regenerate MANIFEST.json from the property modules present under vrules/props."""
import importlib
import json
import os
import sys

HERE = os.path.dirname(os.path.dirname(os.path.abspath(__file__)))
sys.path.insert(0, HERE)

NA_FILE = os.path.join(HERE, "tools", "not_applicable.json")


def main():
    props = [json.loads(l) for l in open(os.path.join(HERE, "properties.jsonl"))]
    na_reasons = json.load(open(NA_FILE)) if os.path.exists(NA_FILE) else {}
    checks = []
    na = []
    served = []
    # claimed = what the current manifest already claims + ids given on the command line (a module file that merely
    # exists may be work in progress)
    claimed = set(a.upper() for a in sys.argv[1:])
    try:
        claimed |= {c["property_id"] for c in json.load(open(os.path.join(HERE, "MANIFEST.json")))["checks"]}
    except Exception:
        pass
    for p in props:
        pid = p["id"]
        path = os.path.join(HERE, "vrules", "props", pid.lower() + ".py")
        if not os.path.exists(path) or pid in na_reasons or pid not in claimed:
            na.append({"property_id": pid,
                       "reason": na_reasons.get(pid, "no static rule implemented yet for this property; not claimed")})
            continue
        mod = importlib.import_module("vrules.props." + pid.lower())
        served.append(pid)
        doc = (mod.__doc__ or "").strip().splitlines()[0]
        checks.append({
            "property_id": pid,
            "quick_cmd": "./check %s --tier quick" % pid,
            "thorough_cmd": "./check %s --tier thorough" % pid,
            "evidence_file": "/verif/evidence/%s.json" % pid,
            "replay_cmd_template": "./check %s --replay {path}" % pid,
            "engine": "mirfacts+vrules",
            "level_claimed": {
                "category": "other",
                "text": ("Static analysis of the type-checked program (rustc MIR with resolved callees): the structural "
                         "clauses listed here are necessary conditions of the property and are decided on every path / "
                         "call site / match arm of the current tree, not sampled. The behaviour itself is not executed. "
                         + getattr(mod, "EXPLANATION", "")),
                "design_ref": "DESIGN.md section 4, " + pid,
            },
            "level_note": "Decides the named structural clauses only. Assumed / not decided: "
                          + "; ".join(getattr(mod, "ASSUMPTIONS", []) or ["see DESIGN.md"]),
            "technique": getattr(mod, "TECHNIQUE", "static analysis: custom MIR dataflow/dominance/ownership rules (" + doc + ")"),
        })
    man = {
        "version": 1,
        "setup_cmd": "./setup.sh",
        "hooks": {
            "guard": "none",
            "enable": "no source hooks: the rustc driver reads private items directly; checks run `cargo +nightly check` "
                      "on /repo with RUSTC_WORKSPACE_WRAPPER=/verif/driver/target/debug/mirfacts",
            "baseline_off_cmd": "cd /repo && cargo nextest run --workspace --no-fail-fast --tool-config-file pb:/w/lib/nextest.toml "
                                "--profile pb --test-threads 8 --offline",
            "source_commits": [],
            "add_only": True,
        },
        "engines": [
            {"name": "mirfacts", "path": "driver/", "serves_properties": served,
             "kind_free_text": "rustc_private driver dumping mir_promoted (pre-borrowck-consumption MIR, resolved callees, "
                               "evaluated constants, ADT/impl/visibility facts) as JSON per crate"},
            {"name": "vrules", "path": "vrules/", "serves_properties": served,
             "kind_free_text": "python rule engine: CFG reachability with edge/node deletion (must-pass / dominance), "
                               "expression reconstruction, who-may-call / who-may-write / who-may-construct, constant relations, "
                               "path enumeration for decision tables"},
        ],
        "checks": checks,
        "not_applicable": na,
        "notes": "All checks are static: they inspect /repo's working tree through rustc and never run libp2p code. "
                 "known_findings.jsonl lists recorded findings and fixed defects.",
    }
    with open(os.path.join(HERE, "MANIFEST.json"), "w") as f:
        json.dump(man, f, indent=1)
    print("checks=%d not_applicable=%d" % (len(checks), len(na)))


if __name__ == "__main__":
    main()
