#!/bin/sh
# run every implemented check (quick tier) and print one line each
cd /verif
for f in vrules/props/c*.py; do id=$(basename $f .py | tr c C); ./check $id "$@" 2>&1 | grep -E "^(OK|VIOLATION|KNOWN)" | cut -c1-160 | head -3; done
