#!/bin/sh
# Run the pinned baseline test command on /repo's working tree and compare with BASELINE.stable_pass.
cd /repo && CARGO_NET_OFFLINE=true cargo nextest run --workspace --no-fail-fast --tool-config-file pb:/w/lib/nextest.toml --profile pb --test-threads 8 --offline > /tmp/baseline.log 2>&1
echo "exit $?" >> /tmp/baseline.log
python3 - <<'EOF'
import json,re,glob
b=json.load(open('/root/.vp/BASELINE.json'))
stable=set(b['stable_pass'])
log=open('/tmp/baseline.log',errors='replace').read()
passed=set(); failed=set()
for m in re.finditer(r'^\s*(PASS|FAIL|TIMEOUT|SIGABRT|SIGSEGV|LEAK)\s+\[[^\]]*\]\s+\(\s*\d+/\d+\)\s+(\S+)\s+(\S+)',log,re.M):
    st,binname,test=m.groups()
    name="%s::%s"%(binname,test)
    (passed if st=='PASS' else failed).add(name)
print("passed",len(passed),"failed",len(failed))
print("stable tests that FAILED:",sorted(stable&failed)[:40])
missing=stable-passed-failed
print("stable tests not seen:",len(missing),sorted(missing)[:10])
print("flaky list in baseline:",b.get('flaky'))
EOF
