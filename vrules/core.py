"""Check context: obligations, fail-closed floors, evidence, known findings."""
import json
import os
import re
import time

from . import mir

VERIF = os.path.dirname(os.path.dirname(os.path.abspath(__file__)))
EVID = os.environ.get("VERIF_EVID") or os.path.join(VERIF, "evidence")
KNOWN = os.path.join(VERIF, "known_findings.jsonl")


class Ctx:
    def __init__(self, pid, prog, tier="quick", config="default"):
        self.pid = pid
        self.prog = prog
        self.tier = tier
        self.config = config
        self.obs = []          # obligations
        self.bodies = set()    # bodies analysed
        self.notes = []
        self.assumptions = []
        self.explanation = ""
        self.trusted = ["rustc nightly front-end (MIR construction, type check, callee resolution)",
                        "mirfacts driver + vrules engine (this repository)"]

    # ---------------------------------------------------------------- recording
    def ob(self, rule, instance, holds, where="", msg="", nontrivial=True):
        """Record one obligation. rule: short id; instance: stable name w/o line numbers."""
        self.obs.append({"rule": rule, "instance": instance, "holds": bool(holds), "where": where,
                         "msg": msg, "nontrivial": nontrivial, "config": self.config})
        return bool(holds)

    def use(self, body):
        self.bodies.add(body.npath)
        return body

    def body(self, crate, pat, kind=None):
        b = self.prog.body(crate, pat, kind)
        self.bodies.add(b.npath)
        return b

    def floor(self, rule, what, sites, n, exact=False):
        """Fail closed when fewer (or, with exact, a different number of) sites were matched than
        were confirmed by reading."""
        k = len(sites)
        ok = (k == n) if exact else (k >= n)
        self.ob(rule, "floor:" + what, ok,
                msg="%d site(s) matched for %s, expected %s%d" % (k, what, "exactly " if exact else ">= ", n),
                nontrivial=False)
        return ok

    def note(self, s):
        self.notes.append(s)

    # ---------------------------------------------------------------- common rule helpers
    def guarded(self, rule, instance, site, pred, desc, start=0, correlate=None):
        """Every path from entry to `site` passes an edge whose switch (cond, label) satisfies
        pred(cond_expr, rendered, label)."""
        body = site.body
        self.bodies.add(body.npath)
        edges = body.guard_edges(pred)
        edges = body.derive_edges(edges, pred, start)
        ok = bool(edges) and body.must_pass_edges(site.bb, edges, start, correlate)
        self.ob(rule, instance, ok, site.loc(),
                ("guard present on all paths: " if ok else "a path reaches this site without the guard: ") + desc)
        return ok

    def passes(self, rule, instance, body, from_bbs, to_bbs, nodes, desc, where=""):
        """Every path from from_bbs to to_bbs passes one of `nodes`."""
        self.bodies.add(body.npath)
        ok = body.must_pass_nodes(from_bbs, to_bbs, nodes)
        self.ob(rule, instance, ok, where or "%s:%d" % (body.file, body.line),
                ("all paths pass: " if ok else "a path avoids: ") + desc)
        return ok


def load_known():
    known = {}
    fixed = []
    if os.path.exists(KNOWN):
        for line in open(KNOWN):
            line = line.strip()
            if not line or line.startswith("#"):
                continue
            if line.startswith("fixed:"):
                fixed.append(line)
                continue
            try:
                j = json.loads(line)
            except ValueError:
                continue
            if j.get("status") == "known":
                known[j["key"]] = j
    return known, fixed


def finish(ctx_list, pid, tier, t0, seed=0, extra=None):
    """Write evidence, print verdict lines, return exit code."""
    os.makedirs(os.path.join(EVID, "replay"), exist_ok=True)
    known, _ = load_known()
    obs = []
    bodies = set()
    notes = []
    assumptions = []
    expl = ""
    trusted = []
    for c in ctx_list:
        obs.extend(c.obs)
        bodies |= c.bodies
        notes.extend(c.notes)
        for a in c.assumptions:
            if a not in assumptions:
                assumptions.append(a)
        expl = expl or c.explanation
        for t in c.trusted:
            if t not in trusted:
                trusted.append(t)
    viol = [o for o in obs if not o["holds"]]
    rc = 0
    seen_keys = set()
    k = 0
    n_known = 0
    for o in viol:
        key = "%s/%s/%s" % (pid, o["rule"], o["instance"])
        if o["config"] != "default":
            key_cfg = key + "@" + o["config"]
        else:
            key_cfg = key
        if key_cfg in seen_keys:
            continue
        seen_keys.add(key_cfg)
        if key in known:
            print("KNOWN-FINDING: property=%s %s [%s] %s" % (pid, known[key].get("what", key), key, o["where"]))
            n_known += 1
            continue
        k += 1
        rp = os.path.join(EVID, "replay", "%s-%d.json" % (pid, k))
        with open(rp, "w") as f:
            json.dump({"property": pid, "key": key, "obligation": o}, f, indent=1)
        print("VIOLATION property=%s replay=%s" % (pid, rp))
        print("  rule=%s instance=%s at %s: %s" % (o["rule"], o["instance"], o["where"], o["msg"]))
        rc = 1
    rules = {}
    for o in obs:
        if o["nontrivial"]:
            rules.setdefault(o["rule"], 0)
            rules[o["rule"]] += 1
    samples = []
    seen_rules = set()
    for o in obs:
        if o["nontrivial"] and o["rule"] not in seen_rules:
            seen_rules.add(o["rule"])
            samples.append({"rule": o["rule"], "instance": o["instance"], "where": o["where"],
                            "holds": o["holds"], "msg": o["msg"][:300]})
    for o in obs:
        if len(samples) >= 40:
            break
        if o["nontrivial"] and not any(s["instance"] == o["instance"] and s["rule"] == o["rule"] for s in samples):
            samples.append({"rule": o["rule"], "instance": o["instance"], "where": o["where"],
                            "holds": o["holds"], "msg": o["msg"][:300]})
    ev = {
        "property_id": pid,
        "tier": tier,
        "seed": seed,
        "level": "other",
        "coverage": {
            "explanation": expl or "static rules over rustc MIR facts of /repo's working tree",
            "obligations": len(obs),
            "discharged": len([o for o in obs if o["holds"]]),
            "evaluations": len(obs),
            "distinct_nontrivial": len(rules),
            "rule": "one evaluation = one rule instance evaluated at one site of the current MIR; "
                    "distinct_nontrivial = number of distinct rules that matched >= 1 site with a non-vacuous obligation "
                    "(floor/anchor bookkeeping obligations are excluded)",
            "samples": samples,
            "rules": rules,
            "functions_analysed": sorted(bodies),
            "configs": sorted({o["config"] for o in obs}),
            "trusted_base": trusted,
            "known_findings_reported": n_known,
            "notes": notes,
            "exhaustive": False,
        },
        "assumptions": assumptions,
        "wall_s": round(time.time() - t0, 2),
        "violations": len(seen_keys) - n_known,
    }
    if extra:
        ev["coverage"].update(extra)
    with open(os.path.join(EVID, "%s.json" % pid), "w") as f:
        json.dump(ev, f, indent=1)
    if rc == 0:
        print("OK property=%s tier=%s obligations=%d rules=%d functions=%d known=%d wall=%.1fs" %
              (pid, tier, len(obs), len(rules), len(bodies), n_known, time.time() - t0))
    return rc


# ------------------------------------------------------------------- predicate builders
def cond_matches(pattern, labels):
    """pred for guard edges: rendered condition matches regex and edge label in labels."""
    rx = re.compile(pattern)
    labels = set(labels)

    def p(cond, rendered, label):
        return label in labels and rx.search(rendered) is not None
    return p


def any_pred(*preds):
    def p(cond, rendered, label):
        return any(q(cond, rendered, label) for q in preds)
    return p
