"""Helpers shared by the misc-family property modules (C52, C53, C54, C58).

The point of this file is *name independence*: rules must survive consistent renames of private functions, private
fields, parameters and locals, and helper-vs-inline restructurings.  Private items are therefore resolved by ROLE
(type of a field in the ADT facts, position/type of a parameter, "the function that constructs X", "the function
whose body pushes onto the queue field") and the resolved names are substituted into the expectations.
"""
import re

from . import lib, mir
from .mir import render, strip_generics


def adt_fields(prog, crate, adt_pat):
    a = prog.adt(crate, adt_pat)
    return [(f["n"], f["ty"]) for v in a["variants"] for f in v["fields"]]


def field_by_type(prog, crate, adt_pat, ty_pat):
    """Name of the unique field of the ADT whose type matches ty_pat (fail closed)."""
    hits = [n for n, ty in adt_fields(prog, crate, adt_pat) if re.search(ty_pat, ty)]
    if len(hits) != 1:
        raise mir.RuleError("field of %s with type /%s/: %d hits %s" % (adt_pat, ty_pat, len(hits), hits))
    return hits[0]


def fields_by_type(prog, crate, adt_pat, ty_pat):
    return [n for n, ty in adt_fields(prog, crate, adt_pat) if re.search(ty_pat, ty)]


def pname(body, i):
    """Rendered name of parameter i (1 = self)."""
    return body.names.get(i) or "arg%d" % i


def params(body, first=2):
    return [pname(body, i) for i in range(first, body.argc + 1)]


def param_by_type(body, ty_pat, first=2):
    """Rendered name of the unique parameter (index >= first) whose type matches."""
    hits = [i for i in range(first, body.argc + 1) if re.search(ty_pat, str(body.locals[i]))]
    if len(hits) != 1:
        raise mir.RuleError("parameter of %s with type /%s/: %d hits" % (body.npath, ty_pat, len(hits)))
    return pname(body, hits[0])


def param_index_by_type(body, ty_pat, first=2):
    hits = [i for i in range(first, body.argc + 1) if re.search(ty_pat, str(body.locals[i]))]
    if len(hits) != 1:
        raise mir.RuleError("parameter of %s with type /%s/: %d hits" % (body.npath, ty_pat, len(hits)))
    return hits[0]


def ret_type(body):
    return str(body.locals[0])


def unnot(cond, label):
    while cond[0] == "un" and cond[1] == "Not" and label in ("true", "false"):
        cond = cond[2]
        label = "false" if label == "true" else "true"
    return cond, label


def unnot_edges(body, pred):
    """Edges (bb, tgt) of switches all of whose labels satisfy pred(cond, rendered, label) after stripping `Not`."""
    out = set()
    for bi in body.live:
        info = body.switch_info(bi)
        if not info:
            continue
        for tgt, ls in info[1].items():
            if not ls:
                continue
            good = True
            for l in ls:
                c, lab = unnot(info[0], l)
                if not pred(c, render(c), lab):
                    good = False
            if good:
                out.add((bi, tgt))
    return out


def result_defs(body):
    """[(kind, Site, expr)] for every assignment of the return place; kind: Ok / Err / residual / other."""
    out = []
    for d in body.defs.get(0, []):
        site = mir.Site(body, d[1], d[2])
        if d[0] == "stmt":
            e = body.rvalue_expr(d[3])
            if e[0] == "agg" and e[1] == "adt" and strip_generics(e[2]).endswith("result::Result") and e[3] in ("Ok", "Err"):
                out.append((e[3], site, e))
            else:
                out.append(("other", site, e))
        else:
            n = strip_generics(body.call_name(d[3]))
            out.append(("residual" if n.endswith("FromResidual>::from_residual") else "other", site, body.call_expr(d[3], d[1])))
    return out


def ret_exprs(body):
    """[(const value or None, Site, expr)] for every assignment of the return place."""
    out = []
    for d in body.defs.get(0, []):
        s = mir.Site(body, d[1], d[2])
        e = body.site_expr(s)
        out.append((e[1] if e[0] == "const" else None, s, e))
    return out


def calls_at(e, bb):
    return any(x[0] == "call" and x[3] == bb for x in mir.walk(e))


# success / failure edges of a fallible call, whatever the propagation idiom:
#   `call(..)?`                      discr(Try::branch(call)) : Continue / Break
#   `match call(..) { Ok / Err }`    discr(call) : Ok / Err          (also `if let Err(e) = call(..) { return Err(e) }`)
#   `if call(..).is_err() { return }`   is_err(call) : false / true  (is_ok : true / false)
def result_edges(body, site):
    ok, err = set(), set()
    for bi in body.live:
        info = body.switch_info(bi)
        if not info:
            continue
        cond, labs = info
        for tgt, ls in labs.items():
            if not ls:
                continue
            kinds = set()
            for l in ls:
                c, lab = unnot(cond, l)
                k = None
                if c[0] == "discr":
                    inner = c[1]
                    if inner[0] == "call" and re.search(r"ops::Try>::branch$", strip_generics(inner[1])) and inner[2] and inner[2][0][0] == "call" and inner[2][0][3] == site.bb:
                        k = {"Continue": "ok", "Break": "err"}.get(lab)
                    elif inner[0] == "call" and inner[3] == site.bb:
                        k = {"Ok": "ok", "Err": "err"}.get(lab)
                elif c[0] == "call" and c[2] and c[2][0][0] == "call" and c[2][0][3] == site.bb:
                    n = strip_generics(c[1])
                    if n.endswith("Result::is_ok"):
                        k = {"true": "ok", "false": "err"}.get(lab)
                    elif n.endswith("Result::is_err"):
                        k = {"true": "err", "false": "ok"}.get(lab)
                kinds.add(k)
            if kinds == {"ok"}:
                ok.add((bi, tgt))
            elif kinds == {"err"}:
                err.add((bi, tgt))
    return ok, err


def recv_self_field(e):
    """Field name f when the first argument of call expression e is `self.f` (possibly behind refs), else None."""
    if e[0] != "call" or not e[2]:
        return None
    r = e[2][0]
    if r[0] == "field" and render(r[1]) == "self":
        return r[2]
    return None


def self_field_calls(body, field, callee_pat):
    """Calls matching callee_pat whose receiver expression mentions self.<field>."""
    out = []
    rx = re.compile(r"\bself\.%s\b" % re.escape(field))
    for s in body.call_sites(callee_pat):
        e = body.site_expr(s)
        if e[2] and rx.search(render(e[2][0])):
            out.append(s)
    return out


def crate_body_of_call(prog, crate, body, site):
    """The workspace body a call site resolves to (same crate), or None.  Several bodies may share a stripped path
    (inherent impls in one module): the candidates are narrowed by argument count."""
    n = strip_generics(body.call_name(site.term))
    cands = [b for b in prog.bodies(crate) if b.npath == n and b.argc == len(site.term["args"])]
    return cands


def wake_after(ctx, rule, name, body, start_bbs, waker_field):
    """From the start blocks every path consults self.<waker_field>.take() once and wakes a stored waker."""
    rets = body.return_blocks()
    takes = [s for s in body.call_sites(r"Option::take$") if render(body.site_expr(s)[2][0]) == "self." + waker_field]
    wakes = body.call_sites(r"task::Waker::wake(_by_ref)?$")
    got = lib.count_range(body, start_bbs, rets, lib.bbs(takes)) if takes else (0, 0)
    ctx.ob(rule, name + ": stored waker consulted", got == (1, 1), "%s:%d" % (body.file, body.line), "self.%s.take() after queueing: %s" % (waker_field, got))
    for tk in takes:
        some = lib.switch_edges_on_site(body, tk, {"Some"}, r"^discr\(std::option::Option::take\(")
        got = lib.count_range(body, [t for _, t in some], rets, lib.bbs(wakes)) if some else None
        ctx.ob(rule, name + ": stored waker woken", got == (1, 1), tk.loc(), "wake() on the Some(waker) edge: %s" % (got,))


# ------------------------------------------------------------------------------------------------ round 2: scopes, lifting
def root_name(npath):
    """Stripped path of the function a closure / coroutine body belongs to (a closure is part of its parent)."""
    return re.sub(r"(::\{(closure|coroutine|async_block)[^}]*\})+$", "", npath)


def root_body(prog, body):
    b = body
    seen = 0
    while b.parent and seen < 8:
        ps = [x for x in prog.bodies(b.crate) if x.path == b.parent]
        if not ps:
            break
        b = ps[0]
        seen += 1
    return b


def is_api(body):
    """A function that outside code can call directly: `pub`, or a trait-impl method (`<T as Trait>::m`)."""
    return body.vis == "pub" or re.search(r"<[^<>]* as [^<>]*>::\w+$", root_name(body.npath)) is not None


def callers_of(prog, crate, body):
    return [s for b in prog.bodies(crate) for s in b.call_sites() if strip_generics(b.call_name(s.term)) == body.npath and len(s.term["args"]) == body.argc]


def entry_roots(prog, crate, site_or_body, depth=4):
    """The API-level functions from which the site (or body) is reached: closures count as their parent, private helpers
    are climbed through all of their call sites.  Returns a set of stripped paths (a private function without callers is
    reported by its own path)."""
    body = site_or_body.body if isinstance(site_or_body, mir.Site) else site_or_body
    out = set()
    work = [(root_body(prog, body), 0)]
    seen = set()
    while work:
        b, d = work.pop()
        if b.npath in seen:
            continue
        seen.add(b.npath)
        if is_api(b) or d >= depth:
            out.add(b.npath)
            continue
        cs = callers_of(prog, crate, b)
        if not cs:
            out.add(b.npath)
        for s in cs:
            work.append((root_body(prog, s.body), d + 1))
    return out


def use_sites(prog, crate, body):
    """Where a closure is created (in its parent) / where a private helper is called."""
    if body.parent:
        out = []
        for p in prog.bodies(crate):
            if p.path != body.parent:
                continue
            for bi in sorted(p.live):
                blk = p.blocks[bi]
                for si, st in enumerate(blk["stmts"]):
                    if st["k"] == "assign" and st["r"]["k"] == "agg" and st["r"].get("ak") in ("closure", "coroutine", "coroutine_closure") and st["r"].get("def") == body.path:
                        out.append(mir.Site(p, bi, si))
        return out
    return callers_of(prog, crate, body)


def guarded_up(prog, crate, site, pred, depth=4):
    """Every path to `site` passes an edge satisfying pred(cond, rendered, label) -- in the site's own body, or (lifting) at
    every place the enclosing closure is created / the enclosing private helper is called.  pred sees conditions of
    whichever body the guard is found in."""
    body = site.body
    edges = body.guard_edges(pred)
    if edges and hasattr(body, "derive_edges"):
        edges = body.derive_edges(edges, pred)
    if edges and body.must_pass_edges(site.bb, edges):
        return True
    if depth <= 0 or (not body.parent and is_api(body)):
        return False
    us = use_sites(prog, crate, body)
    return bool(us) and all(guarded_up(prog, crate, u, pred, depth - 1) for u in us)


def subst(e, env):
    """Replace parameter nodes ('arg', i, name) by env[i] (expressions of the caller)."""
    if not env:
        return e
    t = e[0]
    if t == "arg":
        return env.get(e[1], e)
    if t == "call":
        return ("call", e[1], tuple(subst(a, env) for a in e[2]), e[3])
    if t == "bin":
        return ("bin", e[1], subst(e[2], env), subst(e[3], env))
    if t == "un":
        return ("un", e[1], subst(e[2], env))
    if t == "cast":
        return ("cast", subst(e[1], env), e[2])
    if t == "discr":
        return ("discr", subst(e[1], env))
    if t == "field":
        return ("field", subst(e[1], env), e[2], e[3])
    if t == "downcast":
        return ("downcast", subst(e[1], env), e[2])
    if t == "cindex":
        return ("cindex", subst(e[1], env), e[2], e[3])
    if t == "index":
        return ("index", subst(e[1], env), subst(e[2], env))
    if t == "agg":
        return ("agg", e[1], e[2], e[3], tuple((f, subst(x, env)) for f, x in e[4]))
    if t == "closure":
        return ("closure", e[1], tuple(subst(x, env) for x in e[2]))
    return e


class Scope:
    """A region of one body seen from an API function: `starts` are the entry blocks of the region, `env` maps the body's
    parameters to expressions of the API function (identity when the region is in the API function itself), so that
    rendered expectations written in the API function's terms also match code that was extracted into a private helper."""

    def __init__(self, body, starts, env=None, via=None):
        self.body, self.starts, self.env, self.via = body, list(starts), env or {}, via

    @property
    def region(self):
        return self.body.reachable(self.starts)

    def rx(self, e):
        return render(subst(e, self.env))

    def sx(self, e):
        return subst(e, self.env)

    def calls(self, pat=None):
        reg = self.region
        return [s for s in self.body.call_sites(pat) if s.bb in reg]

    def rets(self):
        return self.body.return_blocks()

    def where(self):
        return "%s:%d" % (self.body.file, self.body.line)


def delegate(prog, crate, scope, interesting, self_first=True):
    """If the region contains none of the `interesting(site)` calls itself but hands over to exactly one crate-local helper
    (called on every path of the region exactly once, with `self` first), return (Scope of the helper body, call site);
    else (None, None)."""
    b = scope.body
    if any(interesting(s) for s in scope.calls()):
        return None, None
    cands = []
    for s in scope.calls():
        hs = [x for x in prog.bodies(crate) if x.npath == strip_generics(b.call_name(s.term)) and x.argc == len(s.term["args"]) and not x.parent and not is_api(x)]
        e = b.site_expr(s)
        if len(hs) == 1 and (not self_first or (e[2] and render(e[2][0]) in ("self", "^self", "^*self"))):
            cands.append((s, hs[0]))
    if len(cands) != 1:
        return None, None
    s, h = cands[0]
    if lib.count_range(b, scope.starts, scope.rets(), [s.bb]) != (1, 1):
        return None, None
    e = b.site_expr(s)
    env = {i + 1: scope.sx(a) for i, a in enumerate(e[2])}
    return Scope(h, [0], env, via=s), s


def settle(prog, crate, scope, interesting, depth=2):
    """Follow delegations (at most `depth`) until the region itself contains interesting calls."""
    chain = []
    for _ in range(depth):
        nxt, s = delegate(prog, crate, scope, interesting)
        if nxt is None:
            break
        chain.append(nxt.body.npath.split("::")[-1])
        scope = nxt
    return scope, chain


def eq_test(c):
    """(op, a, b) for `a == b` / `a != b` in any of its MIR forms (BinOp Eq/Ne, PartialEq::eq/ne call); None otherwise."""
    if c[0] == "bin" and c[1] in ("Eq", "Ne"):
        return c[1].lower(), c[2], c[3]
    if c[0] == "call" and len(c[2]) == 2:
        n = strip_generics(c[1])
        m = re.search(r"PartialEq>?::(eq|ne)$", n)
        if m:
            return m.group(1), c[2][0], c[2][1]
    return None


def scope_switch_edges(scope, pat, labels):
    """Edges of switches inside the scope's region whose condition -- rendered in the API function's terms -- matches."""
    rx = re.compile(pat)
    labels = set(labels)
    out = set()
    reg = scope.region
    b = scope.body
    for bi in reg:
        info = b.switch_info(bi)
        if not info:
            continue
        if not rx.search(scope.rx(info[0])):
            continue
        for tgt, ls in info[1].items():
            if ls and ls <= labels:
                out.add((bi, tgt))
    return out
