"""Helpers shared by the misc-family property modules (C52, C53, C54, C58).

The point of this file is *name independence*: rules must survive consistent renames of private functions, private
fields, parameters and locals, and helper-vs-inline restructurings.  Private items are therefore resolved by ROLE
(type of a field in the ADT facts, position/type of a parameter, "the function that constructs X", "the function
whose body pushes onto the queue field") and the resolved names are substituted into the expectations.
"""
import re

from . import lib, mir
from .mir import render, strip_generics


def adt_fields(prog, crate, adt_pat):
    a = prog.adt(crate, adt_pat)
    return [(f["n"], f["ty"]) for v in a["variants"] for f in v["fields"]]


def field_by_type(prog, crate, adt_pat, ty_pat):
    """Name of the unique field of the ADT whose type matches ty_pat (fail closed)."""
    hits = [n for n, ty in adt_fields(prog, crate, adt_pat) if re.search(ty_pat, ty)]
    if len(hits) != 1:
        raise mir.RuleError("field of %s with type /%s/: %d hits %s" % (adt_pat, ty_pat, len(hits), hits))
    return hits[0]


def fields_by_type(prog, crate, adt_pat, ty_pat):
    return [n for n, ty in adt_fields(prog, crate, adt_pat) if re.search(ty_pat, ty)]


def pname(body, i):
    """Rendered name of parameter i (1 = self)."""
    return body.names.get(i) or "arg%d" % i


def params(body, first=2):
    return [pname(body, i) for i in range(first, body.argc + 1)]


def param_by_type(body, ty_pat, first=2):
    """Rendered name of the unique parameter (index >= first) whose type matches."""
    hits = [i for i in range(first, body.argc + 1) if re.search(ty_pat, str(body.locals[i]))]
    if len(hits) != 1:
        raise mir.RuleError("parameter of %s with type /%s/: %d hits" % (body.npath, ty_pat, len(hits)))
    return pname(body, hits[0])


def param_index_by_type(body, ty_pat, first=2):
    hits = [i for i in range(first, body.argc + 1) if re.search(ty_pat, str(body.locals[i]))]
    if len(hits) != 1:
        raise mir.RuleError("parameter of %s with type /%s/: %d hits" % (body.npath, ty_pat, len(hits)))
    return hits[0]


def ret_type(body):
    return str(body.locals[0])


def unnot(cond, label):
    while cond[0] == "un" and cond[1] == "Not" and label in ("true", "false"):
        cond = cond[2]
        label = "false" if label == "true" else "true"
    return cond, label


def unnot_edges(body, pred):
    """Edges (bb, tgt) of switches all of whose labels satisfy pred(cond, rendered, label) after stripping `Not`."""
    out = set()
    for bi in body.live:
        info = body.switch_info(bi)
        if not info:
            continue
        for tgt, ls in info[1].items():
            if not ls:
                continue
            good = True
            for l in ls:
                c, lab = unnot(info[0], l)
                if not pred(c, render(c), lab):
                    good = False
            if good:
                out.add((bi, tgt))
    return out


def result_defs(body):
    """[(kind, Site, expr)] for every assignment of the return place; kind: Ok / Err / residual / other."""
    out = []
    for d in body.defs.get(0, []):
        site = mir.Site(body, d[1], d[2])
        if d[0] == "stmt":
            e = body.rvalue_expr(d[3])
            if e[0] == "agg" and e[1] == "adt" and strip_generics(e[2]).endswith("result::Result") and e[3] in ("Ok", "Err"):
                out.append((e[3], site, e))
            else:
                out.append(("other", site, e))
        else:
            n = strip_generics(body.call_name(d[3]))
            out.append(("residual" if n.endswith("FromResidual>::from_residual") else "other", site, body.call_expr(d[3], d[1])))
    return out


def ret_exprs(body):
    """[(const value or None, Site, expr)] for every assignment of the return place."""
    out = []
    for d in body.defs.get(0, []):
        s = mir.Site(body, d[1], d[2])
        e = body.site_expr(s)
        out.append((e[1] if e[0] == "const" else None, s, e))
    return out


def calls_at(e, bb):
    return any(x[0] == "call" and x[3] == bb for x in mir.walk(e))


# success / failure edges of a fallible call, whatever the propagation idiom:
#   `call(..)?`                      discr(Try::branch(call)) : Continue / Break
#   `match call(..) { Ok / Err }`    discr(call) : Ok / Err          (also `if let Err(e) = call(..) { return Err(e) }`)
#   `if call(..).is_err() { return }`   is_err(call) : false / true  (is_ok : true / false)
def result_edges(body, site):
    ok, err = set(), set()
    for bi in body.live:
        info = body.switch_info(bi)
        if not info:
            continue
        cond, labs = info
        for tgt, ls in labs.items():
            if not ls:
                continue
            kinds = set()
            for l in ls:
                c, lab = unnot(cond, l)
                k = None
                if c[0] == "discr":
                    inner = c[1]
                    if inner[0] == "call" and re.search(r"ops::Try>::branch$", strip_generics(inner[1])) and inner[2] and inner[2][0][0] == "call" and inner[2][0][3] == site.bb:
                        k = {"Continue": "ok", "Break": "err"}.get(lab)
                    elif inner[0] == "call" and inner[3] == site.bb:
                        k = {"Ok": "ok", "Err": "err"}.get(lab)
                elif c[0] == "call" and c[2] and c[2][0][0] == "call" and c[2][0][3] == site.bb:
                    n = strip_generics(c[1])
                    if n.endswith("Result::is_ok"):
                        k = {"true": "ok", "false": "err"}.get(lab)
                    elif n.endswith("Result::is_err"):
                        k = {"true": "err", "false": "ok"}.get(lab)
                kinds.add(k)
            if kinds == {"ok"}:
                ok.add((bi, tgt))
            elif kinds == {"err"}:
                err.add((bi, tgt))
    return ok, err


def recv_self_field(e):
    """Field name f when the first argument of call expression e is `self.f` (possibly behind refs), else None."""
    if e[0] != "call" or not e[2]:
        return None
    r = e[2][0]
    if r[0] == "field" and render(r[1]) == "self":
        return r[2]
    return None


def self_field_calls(body, field, callee_pat):
    """Calls matching callee_pat whose receiver expression mentions self.<field>."""
    out = []
    rx = re.compile(r"\bself\.%s\b" % re.escape(field))
    for s in body.call_sites(callee_pat):
        e = body.site_expr(s)
        if e[2] and rx.search(render(e[2][0])):
            out.append(s)
    return out


def crate_body_of_call(prog, crate, body, site):
    """The workspace body a call site resolves to (same crate), or None.  Several bodies may share a stripped path
    (inherent impls in one module): the candidates are narrowed by argument count."""
    n = strip_generics(body.call_name(site.term))
    cands = [b for b in prog.bodies(crate) if b.npath == n and b.argc == len(site.term["args"])]
    return cands


def wake_after(ctx, rule, name, body, start_bbs, waker_field):
    """From the start blocks every path consults self.<waker_field>.take() once and wakes a stored waker."""
    rets = body.return_blocks()
    takes = [s for s in body.call_sites(r"Option::take$") if render(body.site_expr(s)[2][0]) == "self." + waker_field]
    wakes = body.call_sites(r"task::Waker::wake(_by_ref)?$")
    got = lib.count_range(body, start_bbs, rets, lib.bbs(takes)) if takes else (0, 0)
    ctx.ob(rule, name + ": stored waker consulted", got == (1, 1), "%s:%d" % (body.file, body.line), "self.%s.take() after queueing: %s" % (waker_field, got))
    for tk in takes:
        some = lib.switch_edges_on_site(body, tk, {"Some"}, r"^discr\(std::option::Option::take\(")
        got = lib.count_range(body, [t for _, t in some], rets, lib.bbs(wakes)) if some else None
        ctx.ob(rule, name + ": stored waker woken", got == (1, 1), tk.loc(), "wake() on the Some(waker) edge: %s" % (got,))
