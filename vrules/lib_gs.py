"""Helpers shared by the gossipsub behaviour/backoff property modules (C27, C28, C29, C32, C35).

Only graph / expression utilities; no rule lives here."""
import re

from . import mir
from .mir import render, strip_generics

G = "libp2p_gossipsub"
BEH = r"^libp2p_gossipsub::behaviour::Behaviour::"
NOISE = r"tracing::|__CALLSITE|level_enabled|^enabled$|Interest::"

_ORD_CALL = re.compile(r"(?:^|::)(?:PartialOrd(?:<[^>]*>)?>?|cmp::impls(?:::<[^>]*>)?)::(lt|le|gt|ge)$")
_FLIP = {"Lt": "Gt", "Le": "Ge", "Gt": "Lt", "Ge": "Le"}


def ord_atom(cond):
    """(op, lhs, rhs) with op in Lt/Le/Gt/Ge for an integer/float comparison `bin` or a resolved
    PartialOrd::{lt,le,gt,ge} call; None otherwise."""
    if cond[0] == "bin" and cond[1] in _FLIP:
        return cond[1], cond[2], cond[3]
    if cond[0] == "call":
        m = _ORD_CALL.search(strip_generics(cond[1]))
        if m and len(cond[2]) == 2:
            return m.group(1).capitalize(), cond[2][0], cond[2][1]
    return None


def ord_rel(cond, label):
    """What an edge of a comparison switch proves: (small, large, strict) meaning small < large (strict) or
    small <= large; None when the switch is no ordering comparison."""
    a = ord_atom(cond)
    if a is None or label not in ("true", "false"):
        return None
    op, x, y = a
    if label == "false":
        op = {"Lt": "Ge", "Le": "Gt", "Gt": "Le", "Ge": "Lt"}[op]
    if op == "Lt":
        return x, y, True
    if op == "Le":
        return x, y, False
    if op == "Gt":
        return y, x, True
    return y, x, False


def calls(e, pat):
    rx = re.compile(pat)
    return [s for s in mir.walk(e) if s[0] == "call" and rx.search(strip_generics(s[1]))]


def has_call(e, pat):
    return bool(calls(e, pat))


def next_call_bb(e, pat=r"Iterator>::next$|Iterator::next$"):
    """Block of the innermost-first `Iterator::next` call an expression is derived from (the loop head of
    the `for` loop whose element the expression is); None if the expression is no loop element."""
    for s in mir.walk(e):
        if s[0] == "call" and re.search(pat, strip_generics(s[1])):
            return s[3]
    return None


def expand(body, e, depth=0):
    """Expression with named / mutably borrowed single-definition locals replaced by their initialiser
    (render() keeps such locals symbolic).  Bounded, cycle-safe."""
    if depth > 10:
        return e
    t = e[0]
    d = depth + 1
    if t == "local":
        ds = body.defs.get(e[1], [])
        if len(ds) == 1 and not body.defs.get((e[1], "partial")):
            ie = body.init_expr(e[1])
            if e[1] in body.mut_borrowed and (ie[0] in ("const", "agg", "str") or (ie[0] == "call" and not ie[2])):
                # a mutable accumulator (`let mut v = Vec::new()`): its identity matters, not its initial value
                return e
            if ie != e:
                return expand(body, ie, d)
        return e
    if t == "call":
        return ("call", e[1], tuple(expand(body, a, d) for a in e[2]), e[3])
    if t == "bin":
        return ("bin", e[1], expand(body, e[2], d), expand(body, e[3], d))
    if t == "un":
        return ("un", e[1], expand(body, e[2], d))
    if t == "cast":
        return ("cast", expand(body, e[1], d), e[2])
    if t == "field":
        return ("field", expand(body, e[1], d), e[2], e[3])
    if t == "downcast":
        return ("downcast", expand(body, e[1], d), e[2])
    if t == "discr":
        return ("discr", expand(body, e[1], d))
    if t == "agg":
        return ("agg", e[1], e[2], e[3], tuple((f, expand(body, x, d)) for f, x in e[4]))
    if t == "closure":
        return ("closure", e[1], tuple(expand(body, x, d) for x in e[2]))
    return e


def xrender(body, e):
    return render(expand(body, e))


def upvar_exprs(prog, parent, closure_body):
    """dict upvar-name (without leading '*') -> expression in `parent` captured by `closure_body`."""
    names = []
    for u in closure_body.raw.get("upnames", []):
        n = u["n"] if isinstance(u, dict) else u
        if isinstance(u, dict):
            for pr in u.get("p", {}).get("pr", ()):
                if pr["k"] == "field" and pr["n"].startswith("upvar:"):
                    n = pr["n"].split(":", 1)[1]
        names.append(n.lstrip("*"))
    for bi in sorted(parent.live):
        blk = parent.blocks[bi]
        for st in blk["stmts"]:
            if st["k"] == "assign" and st["r"]["k"] == "agg" and st["r"]["ak"] in ("closure", "coroutine") \
                    and st["r"].get("def") == closure_body.path:
                ops = [parent.operand_expr(o) for o in st["r"]["ops"]]
                return dict(zip(names, ops))
    return {}


def closure_arg(prog, body, call_expr, idx=None):
    """Body of the closure passed to a call (first closure operand, or the operand at idx)."""
    args = call_expr[2]
    cand = [args[idx]] if idx is not None else list(args)
    for a in cand:
        for s in mir.walk(a):
            if s[0] == "closure":
                return prog.closure_body(body, s[1])
    return None


def ret_exprs(body):
    """Expressions assigned to the return place (one per definition site)."""
    out = []
    for d in body.defs.get(0, []):
        out.append((mir.Site(body, d[1], d[2]), body.rvalue_expr(d[3]) if d[0] == "stmt" else body.call_expr(d[3], d[1])))
    return out


def not_of(e):
    """inner expression of `Not(e)`, else None"""
    return e[2] if e[0] == "un" and e[1] == "Not" else None


def _bool_leaves(body, e, depth=0, seen=None):
    """(site, expr) leaves of a bool value that is a multi-def local (phi of && lowering)."""
    seen = seen if seen is not None else set()
    if e[0] == "local" and depth < 8 and e[1] not in seen:
        seen.add(e[1])
        out = []
        for d in body.defs.get(e[1], []):
            ee = body.rvalue_expr(d[3]) if d[0] == "stmt" else body.call_expr(d[3], d[1])
            out += [(mir.Site(body, d[1], d[2]), x) if x is ee else (s, x)
                    for s, x in _bool_leaves_at(body, mir.Site(body, d[1], d[2]), ee, depth + 1, seen)]
        return out
    return [(mir.Site(body, 0, None), e)]


def _bool_leaves_at(body, site, e, depth, seen):
    if e[0] == "local" and e[1] not in seen and depth < 8:
        return _bool_leaves(body, e, depth, seen)
    return [(site, e)]


def truth_requirements(body):
    """All facts that hold whenever the bool closure/function `body` returns true:
    list of (expr, polarity) where polarity True means `expr` evaluated to true.  Combines the dominating
    switch edges of every non-false result site with the final result expression itself (a leading Not is
    folded into the polarity).  Returns None when some result site is a bare constant `true` without guards."""
    out = []
    sites = []
    for d in body.defs.get(0, []):
        sites.append((mir.Site(body, d[1], d[2]), body.rvalue_expr(d[3]) if d[0] == "stmt" else body.call_expr(d[3], d[1])))
    leaves = []
    for s, e in sites:
        leaves += _bool_leaves_at(body, s, e, 0, set())
    per_leaf = []
    ig = re.compile(NOISE)
    for s, e in leaves:
        if e[0] == "const" and e[1] == 0:
            continue
        req = []
        for text, labels, _, cond in body.guards_on_all_paths(s.bb):
            if ig.search(text) or len(labels) != 1:
                continue
            lab = next(iter(labels))
            if lab in ("true", "false"):
                c, pol = cond, lab == "true"
                while not_of(c) is not None:
                    c, pol = not_of(c), not pol
                req.append((c, pol))
            else:
                req.append((("variant", cond, lab), True))
        if not (e[0] == "const" and e[1] == 1):
            c, pol = e, True
            while not_of(c) is not None:
                c, pol = not_of(c), not pol
            req.append((c, pol))
        per_leaf.append(req)
    if not per_leaf:
        return []
    # facts common to every true-capable leaf (by rendered text + polarity)
    def key(x):
        c, p = x
        return (render(c) if c[0] != "variant" else "variant:" + render(c[1]) + "=" + str(c[2]), p)
    common = set(map(key, per_leaf[0]))
    for req in per_leaf[1:]:
        common &= set(map(key, req))
    for x in per_leaf[0]:
        if key(x) in common:
            out.append(x)
    return out


def same_iteration_region(body, starts, head_bb):
    """Blocks reachable from `starts` without passing the loop head again (one loop iteration / the code after)."""
    return body.reachable(starts, stop_nodes=[head_bb])


def edge_targets(edges):
    return sorted({t for _, t in edges})


def call_args_render(body, site):
    e = body.site_expr(site)
    return [render(a) for a in e[2]] if e[0] == "call" else []


# ---------------------------------------------------------------------------- mesh bookkeeping sites (C28, C29)
MESH_ADD = re.compile(r"(BTreeSet::insert|BTreeSet as std::iter::Extend>::extend|BTreeSet::append|HashMap::insert)$")
MESH_DEL = re.compile(r"(BTreeSet::(remove|retain|clear|take|pop_first|pop_last|split_off|extract_if)|"
                      r"HashMap::(remove|remove_entry|clear|retain|drain|extract_if))$")


def field_derived(body, e, field, owner_pat=r"behaviour::Behaviour"):
    """expanded expression reads field `field` of the behaviour (directly or through a `self.field` upvar)"""
    x = expand(body, e)
    for s in mir.walk(x):
        if s[0] == "field" and s[2] == field and (s[3] is None or re.search(owner_pat, s[3] or "")):
            return True
        if s[0] == "upvar" and re.sub(r"^\*+", "", s[1]) == "self." + field:
            return True
    return False


def mesh_sites(body, rx):
    """call sites whose callee matches rx and whose receiver (arg 0) is derived from `self.mesh`"""
    out = []
    for s in body.call_sites():
        name = strip_generics(body.call_name(s.term))
        if not rx.search(name):
            continue
        e = body.site_expr(s)
        if e[2] and field_derived(body, e[2][0], "mesh"):
            out.append(s)
    return out


def vec_elems(body, e):
    """Elements of a `vec![a, b]` literal (lowered to box_new_uninit + array write + into_vec); None otherwise."""
    for c in calls(e, r"box_assume_init_into_vec_unsafe$"):
        a = c[2][0]
        if a[0] == "local":
            for d in body.defs.get((a[1], "partial"), []):
                if d[0] == "stmt":
                    r = body.rvalue_expr(d[3])
                    if r[0] == "agg" and r[1] == "array":
                        return [x for _, x in r[4]]
    return None


def src_calls(e, pat=r"behaviour::get_random_peers(_dynamic)?$|HashMap::remove_entry$"):
    """blocks of the peer-selection calls an expression's elements come from"""
    return {c[3] for c in calls(e, pat)}


def loop_of(body, head_bb):
    """blocks of the natural loop with header head_bb (blocks that can reach the header again without leaving)"""
    some = [t for t in body.succ[head_bb]]
    fwd = body.reachable(some, stop_nodes=[head_bb])
    # blocks from which head is reachable
    back = set()
    for b in fwd:
        if head_bb in body.reachable([b]):
            back.add(b)
    return back | {head_bb}


def some_edge_targets(body, head_bb):
    """targets of the `Some` edge of the switch on the result of the Iterator::next call in head_bb"""
    out = []
    for bi in sorted(body.live):
        info = body.switch_info(bi)
        if not info:
            continue
        cond = info[0]
        if cond[0] == "discr" and cond[1][0] == "call" and cond[1][3] == head_bb:
            for tgt, ls in info[1].items():
                if "Some" in ls:
                    out.append(tgt)
    return out


# ---------------------------------------------------------------------------- parameters / fields by role, not by name
def arg_of_type(body, pat, nth=0):
    """index of the nth parameter whose declared type matches regex `pat` (fail closed)"""
    hits = [i for i in range(1, body.argc + 1) if re.search(pat, body.locals[i])]
    if len(hits) <= nth:
        raise mir.RuleError("no parameter of type /%s/ (#%d) in %s" % (pat, nth, body.npath))
    return hits[nth]


def argname(body, idx):
    """how render() prints parameter idx"""
    return body.names.get(idx) or ("arg%d" % idx)


def is_arg(e, idx):
    return e[0] == "arg" and e[1] == idx


def refusal_inserts(body, head_bb):
    """HashSet::insert(<local accumulator>, clone(<element of the loop headed at head_bb>)) — handle_graft's queue of topics to
    answer with PRUNE, identified by shape (a local set that receives the loop's topic), not by its name"""
    out = []
    for s in body.call_sites(r"HashSet::insert$"):
        e = body.site_expr(s)
        if e[2][0][0] == "local" and next_call_bb(e[2][1]) == head_bb and has_call(e[2][1], r"Clone>::clone$|Clone::clone$"):
            out.append(s)
    return out


def guard(body, pred, start=0):
    """edges on which pred's condition is known to hold, closed under bool hoisting (`let ok = a && b; if ok`):
    pred(cond_expr, rendered, label) is also applied to the defining expression of a hoisted local"""
    def p2(c, r, l):
        # look through `!x`: a switch / hoisted definition of Not(x) with value v says x == !v
        while c[0] == "un" and c[1] == "Not" and l in ("true", "false"):
            c, l = c[2], ("false" if l == "true" else "true")
            r = render(c)
        if pred(c, r, l):
            return True
        # one level into a crate-local bool helper: `if self.should_x(a, b)` proves whatever the helper's `true` requires
        for hc_, hl in helper_facts(body, c, l):
            try:
                if pred(hc_, render(hc_), hl):
                    return True
            except Exception:
                pass
        return False
    base = body.guard_edges(p2)
    out = body.derive_edges(base, p2, start)
    if start != 0:
        # a hoisted local defined before `start` is not "guarded" just because `start` cannot reach its definition
        live = body.reachable([start])
        out = {(b, t) for (b, t) in out if (b, t) in base or b in live}
        ok_defs = set()
        for (b, t) in set(out) - set(base):
            info = body.switch_info(b)
            c = info[0]
            while c[0] == "un" and c[1] == "Not":
                c = c[2]
            if c[0] == "local" and all(d[1] in live for d in body.defs.get(c[1], [])):
                ok_defs.add((b, t))
        out = set(base) | ok_defs
    return out


def frontier(body, edges, start=0):
    """the edges of a (hoisting-closed) guard set that can be reached from `start` without using another edge of the set:
    the entry edges of the guarded region (the right starting points for counting what happens under the guard)"""
    r = body.reachable([start], blocked_edges=set(edges))
    return {(b, t) for (b, t) in edges if b in r}


# ---------------------------------------------------------------------------- one level into crate-local helpers
def local_fn(body, call_expr):
    """Body of the crate-local (non-closure) function a call expression resolves to, else None"""
    if call_expr[0] != "call":
        return None
    idx = getattr(body.prog, "_gs_by_path", None)
    if idx is None or idx[0] != body.crate:
        idx = (body.crate, {b.npath: b for b in body.prog.bodies(body.crate) if b.kind != "closure"})
        body.prog._gs_by_path = idx
    h = idx[1].get(strip_generics(call_expr[1]))
    return h if h is not None and h is not body else None


def subst(e, amap):
    """expression of a callee with its parameters replaced by the caller's actual arguments (amap: param index -> expr)"""
    t = e[0]
    if t == "arg":
        return amap.get(e[1], e)
    if t == "call":
        return ("call", e[1], tuple(subst(a, amap) for a in e[2]), e[3])
    if t == "bin":
        return ("bin", e[1], subst(e[2], amap), subst(e[3], amap))
    if t == "un":
        return ("un", e[1], subst(e[2], amap))
    if t == "cast":
        return ("cast", subst(e[1], amap), e[2])
    if t == "field":
        return ("field", subst(e[1], amap), e[2], e[3])
    if t == "downcast":
        return ("downcast", subst(e[1], amap), e[2])
    if t == "discr":
        return ("discr", subst(e[1], amap))
    if t == "agg":
        return ("agg", e[1], e[2], e[3], tuple((f, subst(x, amap)) for f, x in e[4]))
    return e


def helper_facts(body, cond, label):
    """If `cond` is a call to a crate-local bool helper and label is 'true': the facts that hold whenever the helper returns
    true, as (expr-in-caller-terms, label) pairs (the helper's parameters replaced by the actual arguments).  One level only."""
    if label != "true":
        return []
    h = local_fn(body, cond)
    if h is None or h.locals[0] != "bool":
        return []
    amap = {i + 1: a for i, a in enumerate(cond[2])}
    out = []
    try:
        reqs = truth_requirements(h)
    except Exception:
        return []
    for c, pol in reqs:
        if c[0] == "variant":
            continue
        out.append((subst(expand(h, c), amap), "true" if pol else "false"))
    return out


def guarded(ctx, rule, instance, site, pred, desc, start=0):
    """ctx.guarded with lib_gs.guard's closure (bool hoisting, `!x`, one level into bool helpers)"""
    body = site.body
    ctx.bodies.add(body.npath)
    edges = guard(body, pred, start)
    ok = bool(edges) and body.must_pass_edges(site.bb, edges, start)
    ctx.ob(rule, instance, ok, site.loc(), ("guard present on all paths: " if ok else "a path reaches this site without the guard: ") + desc)
    return ok


def wrapped_calls(body, pat, mode="value"):
    """Call sites in `body` that amount to a call of `pat`: the direct calls, plus calls of a crate-local helper that
    (mode 'value') returns exactly the result of one such call or (mode 'effect') performs it exactly once on every path.
    Returns [(site, [actual argument expressions in the caller's terms])]."""
    out = []
    for s in body.call_sites():
        e = body.site_expr(s)
        if re.search(pat, strip_generics(body.call_name(s.term))):
            out.append((s, list(e[2])))
            continue
        h = local_fn(body, e)
        if h is None:
            continue
        inner = h.call_sites(pat)
        if len(inner) != 1:
            continue
        ie = h.site_expr(inner[0])
        if mode == "value":
            rs = [x for _, x in ret_exprs(h)]
            if not (len(rs) == 1 and rs[0][0] == "call" and rs[0][3] == inner[0].bb and re.search(pat, strip_generics(rs[0][1]))):
                continue
        else:
            from . import lib as _lib
            if _lib.count_range(h, [0], h.return_blocks(), [inner[0].bb]) != (1, 1):
                continue
        amap = {i + 1: a for i, a in enumerate(e[2])}
        out.append((s, [subst(expand(h, a), amap) for a in ie[2]]))
    return out
