"""Helpers of the swarm-family property modules (C01 C02 C04 C05 C07 C08 C09 C11 C12): refactoring-neutral matching.

Rules must not depend on how a local, a parameter, a closure parameter or a captured variable is *called*, on the number a
closure happens to get, or on the name of a private field / private helper when its role can be identified structurally.
`neutral(body)` therefore re-labels a body before anything is rendered:

  * parameter i            -> `p<i>`   (`self` keeps its name: it cannot be renamed)
  * captured variable #k   -> `^u<k>`  (`^*u<k>` for a by-reference capture)
  * every other named local that survives expression reconstruction (multi-def or mutably borrowed locals) ->
    `%<short type>` (last path segment of its declared type, references and generics stripped), e.g. `%bool`, `%SmallVec`

so the rendered text only contains resolved callees, field names, variants, constants and these canonical labels.
"""
import re

from . import lib, mir
from .mir import render, strip_generics, Site

SW = "libp2p_swarm"


# ---------------------------------------------------------------------------- canonical labels
def short_type(ty):
    t = str(ty).strip()
    while True:
        t2 = re.sub(r"^(&('\w+ )?(mut )?|\*(const|mut) |std::pin::Pin<|std::boxed::Box<)", "", t)
        if t2 == t:
            break
        t = t2
    if t.startswith("("):
        return "tuple"
    if t.startswith("["):
        return "array"
    if t.startswith("{closure") or t.startswith("{coroutine") or t.startswith("{async"):
        return "closure"
    t = strip_generics(t)
    t = re.sub(r"[<>]", "", t)
    t = t.split(" as ")[-1] if " as " in t and "::" not in t.split(" as ")[-1] else t
    seg = t.split("::")[-1]
    seg = re.sub(r"[^A-Za-z0-9_]", "", seg)
    return seg or "x"


def neutral(body):
    """Re-label parameters, captures and surviving named locals of `body` canonically (idempotent).  Returns body."""
    if getattr(body, "_sw_neutral", False):
        return body
    for l in list(body.names):
        n = body.names[l]
        if 1 <= l <= body.argc:
            if n != "self":
                body.names[l] = "p%d" % l
        else:
            body.names[l] = "%" + short_type(body.locals[l] if l < len(body.locals) else "x")
    # parameters without a debug name (patterns) render as arg<i>: keep them positional too
    for i in range(1, body.argc + 1):
        if i not in body.names:
            body.names[i] = "p%d" % i

    def fix(p):
        for pr in (p or {}).get("pr", ()):
            if pr.get("k") == "field" and str(pr.get("n", "")).startswith("upvar:") and pr.get("i") is not None:
                star = "*" if pr["n"].split(":", 1)[1].startswith("*") else ""
                pr["n"] = "upvar:%su%d" % (star, pr["i"])

    def fix_op(o):
        if isinstance(o, dict) and o.get("k") in ("copy", "move"):
            fix(o.get("p"))
    for blk in body.blocks:
        for st in blk["stmts"]:
            if st["k"] == "assign":
                fix(st["p"])
                r = st["r"]
                fix(r.get("p"))
                for key in ("o", "a", "b"):
                    fix_op(r.get(key))
                for o in r.get("ops", ()):
                    fix_op(o)
            elif st["k"] == "setdiscr":
                fix(st.get("p"))
        t = blk["term"]
        if t:
            for a in t.get("args", ()):
                fix_op(a)
            fix_op(t.get("o"))
            fix_op(t.get("f"))
            fix_op(t.get("c"))
            fix_op(t.get("v"))
            fix(t.get("d"))
            fix(t.get("p"))
    body._expr_cache.clear()
    body._sw_neutral = True
    return body


def nbody(ctx, pat, kind=None, crate=SW):
    return neutral(ctx.body(crate, pat, kind))


def upvar_index(body, name):
    """capture index of the captured variable called `name` in the source (only for diagnostics; rules use positions)"""
    for i, u in enumerate(body.raw.get("upnames") or []):
        if u.get("n") == name:
            return i
    return None


def n_upvars(body):
    return len(body.raw.get("upnames") or [])


def param_of_type(body, ty_pat, first=1):
    """index of the unique parameter whose declared type matches (fail closed)"""
    hits = [i for i in range(first, body.argc + 1) if re.search(ty_pat, str(body.locals[i]))]
    if len(hits) != 1:
        raise mir.RuleError("parameter of %s with type /%s/: %d hits" % (body.npath, ty_pat, len(hits)))
    return hits[0]


# ---------------------------------------------------------------------------- closures by role
def closure_at(prog, body, site_or_expr):
    """Body (neutralised) of the closure passed at a call site / contained in an expression."""
    e = body.site_expr(site_or_expr) if isinstance(site_or_expr, Site) else site_or_expr
    cl = lib.closure_of(prog, body, e)
    if cl is None:
        raise mir.RuleError("no closure argument in %s" % render(e)[:120])
    return neutral(cl)


def closure_captures(body, e):
    """(closure def path, tuple of captured operand expressions) of the first closure aggregate inside `e`"""
    for s in mir.walk(e):
        if s[0] == "closure":
            return s[1], s[2]
    return None, ()


def children(prog, body, kind=None):
    return [neutral(b) for b in prog.children(body) if kind is None or b.kind == kind]


# ---------------------------------------------------------------------------- structural expression tests
def is_call(e, pat):
    return e[0] == "call" and re.search(pat, strip_generics(e[1])) is not None


def peel(e):
    """look through `Not`, casts and downcasts/fields that select the payload of an enum value"""
    while e[0] in ("downcast",) or (e[0] == "field" and e[1][0] == "downcast"):
        e = e[1]
    return e


def has_field(e, field):
    """some sub-expression is a projection `.field`"""
    return any(s[0] == "field" and s[2] == field for s in mir.walk(e))


def has_call(e, pat):
    return bool(mir.calls_in(e, pat))


def call_at(e, bb):
    """the call sub-expression of `e` that was issued at block bb"""
    for s in mir.walk(e):
        if s[0] == "call" and s[3] == bb:
            return s
    return None


def derives_from_call(e, site):
    return call_at(e, site.bb) is not None


def ret_sites(body):
    return [Site(body, d[1], d[2]) for d in body.defs.get(0, [])]


def ret_exprs(body):
    return [body.site_expr(s) for s in ret_sites(body)]


def defs_exprs(body, l):
    out = []
    for d in body.defs.get(l, []):
        out.append((Site(body, d[1], d[2]), body.rvalue_expr(d[3]) if d[0] == "stmt" else body.call_expr(d[3], d[1])))
    return out


def locals_in(e):
    return {s[1] for s in mir.walk(e) if s[0] == "local"}


def args_in(e):
    return {s[1] for s in mir.walk(e) if s[0] == "arg"}


def switch_blocks(body, pred):
    """[(bb, cond, labels)] of live switches whose condition satisfies pred(cond, rendered)"""
    out = []
    for bi in sorted(body.live):
        info = body.switch_info(bi)
        if info and pred(info[0], render(info[0])):
            out.append((bi, info[0], info[1]))
    return out


def edges_of(body, pred, labels):
    """edges (bb, tgt) of switches with pred(cond, rendered) whose label set is within `labels`"""
    labels = set(labels)
    out = set()
    for bi, cond, labs in switch_blocks(body, pred):
        for tgt, ls in labs.items():
            if ls and ls <= labels:
                out.add((bi, tgt))
    return out


def unnot(cond, label):
    """normalise `Not(c)` tested true/false into (c, label')"""
    while cond[0] == "un" and cond[1] == "Not" and label in ("true", "false"):
        cond = cond[2]
        label = "false" if label == "true" else "true"
    return cond, label


def truth_edges(body, pred, value):
    """edges on which a boolean expression satisfying pred(expr, rendered) is known to be `value` (looks through Not)"""
    out = set()
    for bi in body.live:
        info = body.switch_info(bi)
        if not info:
            continue
        cond, labs = info
        for tgt, ls in labs.items():
            if len(ls) != 1:
                continue
            lab = next(iter(ls))
            if lab not in ("true", "false"):
                continue
            c, l2 = unnot(cond, lab)
            if l2 == ("true" if value else "false") and pred(c, render(c)):
                out.add((bi, tgt))
    return out


# ---------------------------------------------------------------------------- ADT fields by role
def adt_fields(prog, adt_pat, crate=SW):
    a = prog.adt(crate, adt_pat)
    return [(f["n"], f["ty"]) for v in a["variants"] for f in v["fields"]]


def field_by_type(prog, adt_pat, ty_pat, crate=SW):
    hits = [n for n, ty in adt_fields(prog, adt_pat, crate) if re.search(ty_pat, ty)]
    if len(hits) != 1:
        raise mir.RuleError("field of %s with type /%s/: %d hits %s" % (adt_pat, ty_pat, len(hits), hits))
    return hits[0]


# ---------------------------------------------------------------------------- loops
def loop_region(body, head_bb, entry_targets):
    """blocks of one iteration: reachable from the `Some` targets without passing the head again"""
    return body.reachable(entry_targets, stop_nodes=[head_bb]) - {head_bb}


def some_targets(body, site):
    return [t for _, t in lib.switch_edges_on_site(body, site, {"Some"})]


def none_targets(body, site):
    return [t for _, t in lib.switch_edges_on_site(body, site, {"None"})]


def crate_fn(prog, callee, crate=SW):
    """body of a crate-local (non-closure) function by its resolved path, or None"""
    name = strip_generics(callee)
    hits = [b for b in prog.bodies(crate) if b.npath == name and b.kind not in ("closure", "coroutine")]
    return hits[0] if len(hits) == 1 else None


# ---------------------------------------------------------------------------- private fields of the swarm, by role (type)
_ROLES = {
    "swarm.pool": (r"^libp2p_swarm::Swarm$", r"^connection::pool::Pool<"),
    "swarm.listened": (r"^libp2p_swarm::Swarm$", r"^std::collections::HashMap<libp2p_core::transport::ListenerId,"),
    "swarm.external": (r"^libp2p_swarm::Swarm$", r"^std::collections::HashSet<libp2p_core::Multiaddr>"),
    "swarm.parked": (r"^libp2p_swarm::Swarm$", r"PendingNotifyHandler"),
    "swarm.events": (r"^libp2p_swarm::Swarm$", r"^std::collections::VecDeque<SwarmEvent<"),
    "pool.pending": (r"pool::Pool$", r"^std::collections::HashMap<connection::ConnectionId, connection::pool::PendingConnection>"),
    "pool.established": (r"pool::Pool$", r"^std::collections::HashMap<libp2p_core::PeerId, std::collections::HashMap<connection::ConnectionId, connection::pool::EstablishedConnection<"),
    "pool.counters": (r"pool::Pool$", r"^connection::pool::ConnectionCounters$"),
    "pool.local_id": (r"pool::Pool$", r"^libp2p_core::PeerId$"),
    "pool.dial_factor": (r"pool::Pool$", r"^std::num::NonZero<u8>$"),
    "pending.peer": (r"pool::PendingConnection$", r"^std::option::Option<libp2p_core::PeerId>$"),
    "pending.endpoint": (r"pool::PendingConnection$", r"^connection::PendingPoint$"),
    "established.endpoint": (r"pool::EstablishedConnection$", r"^libp2p_core::ConnectedPoint$"),
    "established.sender": (r"pool::EstablishedConnection$", r"mpsc::Sender<"),
}


def role(prog, name):
    """current name of a private field identified by its role (= its declared type), fail closed"""
    cache = prog.__dict__.setdefault("_sw_roles", {})
    if name not in cache:
        adt, ty = _ROLES[name]
        cache[name] = field_by_type(prog, adt, ty)
    return cache[name]


# ---------------------------------------------------------------------------- multiaddr predicates / value flow (C09)
def proto_pred(prog, body, cond, depth=0):
    """For a boolean expression testing "the address has a component among V" — `addr.iter().any(|p| matches!(p, V))`,
    directly or through a local closure / crate-local helper whose body is exactly that — the variant set V, else None."""
    if cond[0] != "call" or depth > 2:
        return None
    name = strip_generics(cond[1])
    if re.search(r"^std::iter::Iterator::any$", name) and cond[2] and is_call(cond[2][0], r"libp2p_core::Multiaddr::iter$"):
        cl = lib.closure_of(prog, body, cond)
        return lib.matches_variants(cl) if cl is not None else None
    tgt = [b for b in prog.bodies(body.crate) if b.npath == name]
    if len(tgt) == 1:
        rs = ret_exprs(tgt[0])
        if len(rs) == 1:
            return proto_pred(prog, tgt[0], rs[0], depth + 1)
    return None


def add_leaves(e):
    """additive leaves of a Duration/integer expression (through `Add::add` and checked `+`)"""
    if e[0] == "call" and re.search(r"ops::Add>::add$|ops::Add::add$", strip_generics(e[1])) and len(e[2]) == 2:
        return add_leaves(e[2][0]) + add_leaves(e[2][1])
    if e[0] == "bin" and e[1] in ("Add", "AddWithOverflow"):
        return add_leaves(e[2]) + add_leaves(e[3])
    if e[0] == "field" and e[2] == "0" and e[1][0] == "bin" and e[1][1] == "AddWithOverflow":
        return add_leaves(e[1])
    return [e]


def deep_walk(body, e, depth=3, seen=None):
    """sub-expressions of e, continuing through the definitions of the (multi-def / borrowed) locals it mentions"""
    seen = seen if seen is not None else set()
    for s in mir.walk(e):
        yield s
        if s[0] == "local" and depth > 0 and s[1] not in seen:
            seen.add(s[1])
            for _, x in defs_exprs(body, s[1]):
                yield from deep_walk(body, x, depth - 1, seen)


def guarded_region(body, blocks, edges, start):
    """the blocks among `blocks` that are reachable from `start` only through one of `edges`"""
    return {b for b in blocks if b != start and body.must_pass_edges(b, edges, start)}


# ---------------------------------------------------------------------------- who may mutate a map field (K4)
READ_ONLY = r"::(get|contains_key|iter|keys|values|len|is_empty|get_key_value|capacity|hasher)$"
INNER_MUT = r"::(get_mut|iter_mut|values_mut)$"


def _borrow_root(body, o, depth=0):
    """For an operand that is (a copy/reborrow of) a reference: (place dict of the borrowed place, mutable?) or None."""
    if not isinstance(o, dict) or o.get("k") not in ("copy", "move") or depth > 6:
        return None
    p = o["p"]
    if any(pr["k"] != "deref" for pr in p.get("pr", ())):
        return None
    ds = body.defs.get(p["l"], [])
    if len(ds) != 1 or ds[0][0] != "stmt":
        return None
    r = ds[0][3]
    if r["k"] in ("ref", "rawptr"):
        bp = r["p"]
        if any(pr["k"] == "field" for pr in bp.get("pr", ())):
            return bp, r.get("m", "mut") == "mut"
        # reborrow of another reference local
        inner = _borrow_root(body, {"k": "copy", "p": {"l": bp["l"]}}, depth + 1) if all(pr["k"] == "deref" for pr in bp.get("pr", ())) else None
        if inner:
            return inner[0], inner[1] and r.get("m", "mut") == "mut"
        return None
    if r["k"] == "use":
        return _borrow_root(body, r["o"], depth + 1)
    if r["k"] == "cast":
        return _borrow_root(body, r["o"], depth + 1)
    return None


def _last_field(place, field, owner_rx):
    """the place is exactly `<..>.field` of the owner ADT (possibly behind derefs), i.e. the map itself and not a part of it"""
    prs = [pr for pr in place.get("pr", ()) if pr["k"] != "deref"]
    if not prs or prs[-1]["k"] != "field" or prs[-1]["n"] != field:
        return False
    return owner_rx.search(strip_generics(prs[-1].get("o") or "")) is not None


def field_uses(prog, crate, field, owner_pat):
    """Every use of the map stored in `owner.field` across the crate:
    [(body, Site, kind, callee)] with kind in {'read','inner-mut','mutate','capture','capture-mut','write'}"""
    owner_rx = re.compile(owner_pat)
    out = []
    for b in prog.bodies(crate):
        for bi in sorted(b.live):
            blk = b.blocks[bi]
            for si, st in enumerate(blk["stmts"]):
                if st["k"] != "assign":
                    continue
                if _last_field(st["p"], field, owner_rx):
                    out.append((b, Site(b, bi, si), "write", "="))
                r = st["r"]
                if r["k"] == "agg" and r.get("ak") in ("closure", "coroutine", "coroutine_closure"):
                    for o in r["ops"]:
                        br = _borrow_root(b, o)
                        if br and _last_field(br[0], field, owner_rx):
                            out.append((b, Site(b, bi, si), "capture-mut" if br[1] else "capture", r.get("def", "closure")))
                        elif isinstance(o, dict) and o.get("k") in ("copy", "move") and _last_field(o["p"], field, owner_rx):
                            out.append((b, Site(b, bi, si), "capture-mut", r.get("def", "closure")))
            t = blk["term"]
            if not t or t["k"] != "call":
                continue
            name = strip_generics(b.call_name(t))
            for a in t["args"]:
                br = _borrow_root(b, a)
                moved = isinstance(a, dict) and a.get("k") in ("copy", "move") and _last_field(a["p"], field, owner_rx)
                if not (br and _last_field(br[0], field, owner_rx)) and not moved:
                    continue
                mutable = moved or br[1]
                if not mutable or re.search(READ_ONLY, name):
                    kind = "read"
                elif re.search(INNER_MUT, name):
                    kind = "inner-mut"
                else:
                    kind = "mutate"
                out.append((b, Site(b, bi), kind, name))
                break
    return out


def check_mutators(ctx, rule, what, prog, field, owner_pat, allowed, crate=SW, floor=1):
    """Only the listed (function path suffix -> set of method names) pairs may structurally change the map `owner.field`;
    everything else may read it or reach *into* existing entries (get_mut / iter_mut / values_mut)."""
    uses = field_uses(prog, crate, field, owner_pat)
    muts = [(b, s, k, c) for b, s, k, c in uses if k in ("mutate", "capture-mut", "write")]
    seen = set()
    for b, s, k, c in muts:
        fn = b.npath
        meth = c.split("::")[-1]
        ok = k == "mutate" and any(fn.endswith(sfx) and meth in ms for sfx, ms in allowed.items())
        seen.add((fn.split("::")[-1], meth))
        ctx.ob(rule, "%s: %s in %s" % (what, meth if k == "mutate" else k, b.short), ok, s.loc(),
               ("allowed structural change of %s (%s)" if ok else "%s is structurally changed (%s) outside the functions that keep the books") % (what, c))
    ctx.ob(rule, "floor:%s mutation sites" % what, len(muts) >= floor, nontrivial=False, msg="%d structural mutation site(s): %s" % (len(muts), sorted(seen)))
    return uses
