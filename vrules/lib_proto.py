"""Name-independent matching helpers for the protocol property modules (C45-C51).

Rules must survive behaviour-preserving refactorings (renamed locals / parameters / private fields, hoisted lets,
mirrored comparisons, `!`, `?` <-> match, named constants, added logging).  Everything here therefore works on the
*structure* of the reconstructed expressions:

* `Norm(body).r(e)` renders an expression with parameters by position (`$2`; `self` stays `self`), remaining locals
  anonymous (`%`, or `%<id>` with ids=True for same-body identity tests), captured variables by capture index (`^0`),
  named constants by value, closures without their def-path, comparisons in a canonical form (only Lt / Le / Eq / Ne,
  `Not` pushed inside, `PartialOrd::lt(a, b)`-style calls treated as operators, Eq/Ne operands sorted), and
  `Try::branch(x)@Continue.0` / `x@Ok.0` / `x@Some.0` unified to `x@+` (consecutive variant projections sorted).
* private fields are looked up by *type* (`field_by_type`) or by the public function that writes them (`field_written_by`).
* edge helpers answer "on which CFG edges is fact F known" for canonical comparisons, bool expressions and
  success/failure of Option/Result/Try values, closed under bool hoisting (`body.derive_edges`).
* macro-expanded logging is recognised from the macro backtrace of a terminator, never from callee names.
"""
import re

from . import lib, mir
from .mir import strip_generics

# --------------------------------------------------------------------------------------------------- logging
LOG_ROOTS = ("tracing::", "log::", "tracing_attributes::", "std::debug_assert", "core::debug_assert", "debug_assert")


def macro_chain(t):
    xs = t.get("xs") or ""
    chain = [c for c in xs.split(">") if c]
    x = t.get("x") or ""
    if x.startswith("m:"):
        chain.append(x[2:])
    return chain


def is_log(t):
    """Terminator / statement produced by a logging macro (tracing::*, log::*)."""
    return any(c.startswith(("tracing::", "log::")) for c in macro_chain(t))


def is_debug_assert(t):
    return any(c.split("::")[-1] in ("debug_assert", "debug_assert_eq", "debug_assert_ne") for c in macro_chain(t))


def effect_calls(body, bbs=None):
    """Call sites (optionally restricted to blocks `bbs`) that are not logging / formatting / debug assertions."""
    out = []
    for s in body.call_sites():
        if bbs is not None and s.bb not in bbs:
            continue
        t = s.term
        if is_log(t) or is_debug_assert(t):
            continue
        x = t.get("x") or ""
        if x.startswith("d:Format"):
            continue
        out.append(s)
    return out


# --------------------------------------------------------------------------------------------------- comparisons
_CMP_CALL = re.compile(r"(?:^|::|>::)(eq|ne|lt|le|gt|ge)$")
_CMP_TRAIT = re.compile(r"cmp::(PartialEq|PartialOrd|impls)|PartialEq|PartialOrd")
_BIN = {"Eq": "Eq", "Ne": "Ne", "Lt": "Lt", "Le": "Le", "Gt": "Gt", "Ge": "Ge"}
_NEG = {"Lt": "Ge", "Le": "Gt", "Gt": "Le", "Ge": "Lt", "Eq": "Ne", "Ne": "Eq"}


def _raw_cmp(e):
    """(op, a, b) for a comparison expression (binary op or PartialEq/PartialOrd method call), else None."""
    if e[0] == "bin" and e[1] in _BIN:
        return e[1], e[2], e[3]
    if e[0] == "call" and len(e[2]) == 2:
        n = strip_generics(e[1])
        m = _CMP_CALL.search(n)
        if m and _CMP_TRAIT.search(n):
            return m.group(1).capitalize(), e[2][0], e[2][1]
    return None


def cmpnf(e):
    """Canonical comparison (rel, A, B) with rel in Lt/Le/Eq/Ne meaning `A rel B`; looks through `Not`.
    (Total orders only: integers, Instant, Duration - the only operands these modules compare.)"""
    neg = False
    while e[0] == "un" and e[1] == "Not":
        e, neg = e[2], not neg
    c = _raw_cmp(e)
    if c is None:
        return None
    op, a, b = c
    if neg:
        op = _NEG[op]
    if op == "Gt":
        op, a, b = "Lt", b, a
    elif op == "Ge":
        op, a, b = "Le", b, a
    return op, a, b


def strip_not(e):
    neg = False
    while e[0] == "un" and e[1] == "Not":
        e, neg = e[2], not neg
    return e, neg


def const_val(e):
    """Evaluated integer value of a literal or named constant expression, else None."""
    if e[0] == "const" and isinstance(e[1], int):
        return e[1]
    if e[0] == "namedconst" and isinstance(e[2], int):
        return e[2]
    if e[0] == "cast":
        return const_val(e[1])
    return None


# --------------------------------------------------------------------------------------------------- rendering
_OKV = {"Continue", "Ok", "Some"}
_TRY = re.compile(r"ops::Try>::branch$|ops::Try::branch$")
_UNWRAP = re.compile(r"^std::(option::Option|result::Result)::(expect|unwrap)$")
_CLONE = re.compile(r"(clone::Clone>::clone|clone::Clone::clone)$")


class Norm:
    def __init__(self, body, ids=False, keep_clone=True):
        self.body = body
        self.ids = ids
        self.keep_clone = keep_clone
        self.up = []
        for u in body.raw.get("upnames") or []:
            if isinstance(u, dict):
                idx = [pr.get("i") for pr in u.get("p", {}).get("pr", ()) if pr["k"] == "field" and str(pr.get("n", "")).startswith("upvar")]
                name = u.get("n")
                for pr in u.get("p", {}).get("pr", ()):
                    if pr["k"] == "field" and str(pr.get("n", "")).startswith("upvar"):
                        name = str(pr["n"]).split(":", 1)[-1]
                while idx and idx[0] is not None and len(self.up) <= idx[0]:
                    self.up.append(None)
                if idx and idx[0] is not None:
                    self.up[idx[0]] = name
                else:
                    self.up.append(name)
            else:
                self.up.append(u)

    def r(self, e, depth=0):
        if depth > 60:
            return "..."
        t = e[0]
        d = depth + 1
        if t == "arg":
            return "self" if e[2] == "self" else "$%d" % e[1]
        if t == "local":
            return ("%%%d" % e[1]) if self.ids else "%"
        if t == "upvar":
            return "^%d" % self.up.index(e[1]) if e[1] in self.up else "^" + e[1]
        if t == "const":
            return str(e[1]) if e[1] is not None else str(e[2])
        if t == "namedconst":
            return str(e[2]) if e[2] is not None else "const:" + e[1]
        if t == "str":
            return repr(e[1])
        if t == "fn":
            return "fn:" + strip_generics(e[1])
        if t == "static":
            return "static:" + e[1]
        c = cmpnf(e) if t in ("bin", "un", "call") else None
        if c is not None:
            op, a, b = c
            ra, rb = self.r(a, d), self.r(b, d)
            if op in ("Eq", "Ne") and rb < ra:
                ra, rb = rb, ra
            return "%s(%s, %s)" % (op, ra, rb)
        if t == "call":
            n = strip_generics(e[1])
            if (_TRY.search(n) and len(e[2]) == 1) or (_UNWRAP.search(n) and e[2]):
                return self._proj(e, d)
            if _CLONE.search(n) and len(e[2]) == 1:
                return ("clone(%s)" % self.r(e[2][0], d)) if self.keep_clone else self.r(e[2][0], d)
            return "%s(%s)" % (n, ", ".join(self.r(a, d) for a in e[2]))
        if t == "bin":
            return "%s(%s, %s)" % (e[1], self.r(e[2], d), self.r(e[3], d))
        if t == "un":
            return "%s(%s)" % (e[1], self.r(e[2], d))
        if t == "cast":
            return "(%s as %s)" % (self.r(e[1], d), e[2])
        if t == "field" or t == "downcast":
            return self._proj(e, d)
        if t == "index":
            return "%s[%s]" % (self.r(e[1], d), self.r(e[2], d))
        if t == "cindex":
            return "%s[%s%d]" % (self.r(e[1], d), "-" if e[3] else "", e[2])
        if t == "discr":
            return "discr(%s)" % self.r(e[1], d)
        if t == "agg":
            name = strip_generics(e[2] or e[1])
            if e[3] and e[1] == "adt":
                name += "::" + e[3]
            return "%s{%s}" % (name, ", ".join("%s: %s" % (f, self.r(x, d)) for f, x in e[4]))
        if t == "closure":
            return "closure[%s]" % ", ".join(self.r(x, d) for x in e[2])
        return mir.render(e)

    def _proj(self, e, d):
        """Projection chain through fields / variant payloads / `?` / unwrap / expect, success projections unified to `+`
        and runs of variant-payload projections sorted."""
        chain = []
        x = e
        while True:
            if x[0] in ("field", "downcast"):
                chain.append(x)
                x = x[1]
            elif x[0] == "call" and len(x[2]) >= 1 and _TRY.search(strip_generics(x[1])) and len(x[2]) == 1:
                x = x[2][0]
            elif x[0] == "call" and x[2] and _UNWRAP.search(strip_generics(x[1])):
                chain.append(("ok",))
                x = x[2][0]
            else:
                break
        chain.reverse()
        out = self.r(x, d)
        i = 0
        toks = []
        while i < len(chain):
            p = chain[i]
            if p[0] == "ok":
                toks.append("+")
                i += 1
                continue
            if p[0] == "downcast" and i + 1 < len(chain) and chain[i + 1][0] == "field" and chain[i + 1][2] == "0":
                toks.append("+" if p[2] in _OKV else p[2])
                i += 2
                continue
            if toks:
                out += "@" + "@".join(sorted(toks))
                toks = []
            out += ("@" + p[2]) if p[0] == "downcast" else ("." + p[2])
            i += 1
        if toks:
            out += "@" + "@".join(sorted(toks))
        return out

    def site(self, s):
        return self.r(self.body.site_expr(s))


def nr(body, e, ids=False):
    return Norm(body, ids).r(e)


def ret_exprs(b):
    return [(mir.Site(b, d[1], d[2]), b.site_expr(mir.Site(b, d[1], d[2]))) for d in b.defs.get(0, [])]


def closures_in(prog, body, e):
    """[(closure expr node, closure Body)] for every closure aggregate inside expression e (pre-order)."""
    out = []
    for x in mir.walk(e):
        if x[0] == "closure":
            out.append((x, prog.closure_body(body, x[1])))
    return out


def upvar_sources(prog, parent, e):
    """For the first closure inside e: (closure body, [normalised parent expression of each captured variable])."""
    cs = closures_in(prog, parent, e)
    if not cs:
        return None, []
    x, cb = cs[0]
    return cb, [x[2][i] for i in range(len(x[2]))]


# --------------------------------------------------------------------------------------------------- fields by role
def _adt_fields(prog, crate, adt_pat):
    a = prog.adt(crate, adt_pat)
    return [f for v in a["variants"] for f in v["fields"]]


def field_by_type(prog, crate, adt_pat, type_pat):
    """Name of the unique field of the ADT whose type matches type_pat (fail closed otherwise)."""
    rx = re.compile(type_pat)
    hits = [f["n"] for f in _adt_fields(prog, crate, adt_pat) if rx.search(f["ty"])]
    if len(hits) != 1:
        raise mir.RuleError("field of %s with type /%s/: %d hits %s" % (adt_pat, type_pat, len(hits), hits))
    return hits[0]


def field_written_by(prog, crate, fn_pat):
    """Name of the unique field assigned in the body of a (public, hence name-stable) function such as a builder setter."""
    b = prog.body(crate, fn_pat)
    names = set()
    for bi in b.live:
        for st in b.blocks[bi]["stmts"]:
            if st["k"] == "assign":
                fs = [pr["n"] for pr in st["p"].get("pr", ()) if pr["k"] == "field"]
                if fs:
                    names.add(fs[-1])
    if len(names) != 1:
        raise mir.RuleError("fields written by %s: %s" % (fn_pat, sorted(names)))
    return names.pop()


def field_from_arg(body, agg_expr, arg_index):
    """Name of the field of an aggregate literal that is initialised (possibly through calls) from parameter #arg_index."""
    hits = []
    for f, x in agg_expr[4]:
        if any(y[0] == "arg" and y[1] == arg_index for y in mir.walk(x)):
            hits.append(f)
    if len(hits) != 1:
        raise mir.RuleError("aggregate field fed by arg %d: %s" % (arg_index, hits))
    return hits[0]


# --------------------------------------------------------------------------------------------------- edges
def _switches(body):
    for bi in sorted(body.live):
        info = body.switch_info(bi)
        if info:
            yield bi, info[0], info[1]


def rel_edges(body, test, start=0):
    """Edges on which a canonical comparison fact (rel, A, B) with test(rel, A, B) == True is known.
    A switch on comparison C contributes its true edge with fact C and its false edge with fact not-C (both canonical).
    Closed under bool hoisting."""
    def facts_of(cond, lab):
        c = cmpnf(cond)
        if c is None or lab not in ("true", "false"):
            return []
        op, a, b = c
        if lab == "true":
            return [(op, a, b)]
        n = _NEG[op]
        if n == "Gt":
            return [("Lt", b, a)]
        if n == "Ge":
            return [("Le", b, a)]
        return [(n, a, b)]

    def holds(cond, lab):
        fs = facts_of(cond, lab)
        for op, a, b in fs:
            if test(op, a, b):
                return True
            if op in ("Eq", "Ne") and test(op, b, a):
                return True
        return False
    edges = set()
    for bi, cond, labs in _switches(body):
        for tg, ls in labs.items():
            if len(ls) == 1 and holds(cond, next(iter(ls))):
                edges.add((bi, tg))
    return body.derive_edges(edges, lambda c, r, l: holds(c, l), start)


def truth_edges(body, test, value, start=0):
    """Edges on which the bool expression E with test(E) (E stripped of `!`) is known to be `value`."""
    def holds(cond, lab):
        if lab not in ("true", "false"):
            return False
        e, neg = strip_not(cond)
        if not test(e):
            return False
        return ((lab == "true") != neg) == value
    edges = set()
    for bi, cond, labs in _switches(body):
        for tg, ls in labs.items():
            if len(ls) == 1 and holds(cond, next(iter(ls))):
                edges.add((bi, tg))
    return body.derive_edges(edges, lambda c, r, l: holds(c, l), start)


def _untry(e):
    while e[0] == "call" and _TRY.search(strip_generics(e[1])) and len(e[2]) == 1:
        e = e[2][0]
    return e


OK_LABELS = {"Continue", "Ok", "Some"}
NO_LABELS = {"Break", "Err", "None"}


def outcome_edges(body, test, ok=True):
    """Edges of `match E {Ok/Some/Continue.. | Err/None/Break..}` switches (E seen through `?`'s Try::branch) with test(E):
    the success edges (ok=True) or the failure edges."""
    want = OK_LABELS if ok else NO_LABELS
    edges = set()
    for bi, cond, labs in _switches(body):
        if cond[0] != "discr":
            continue
        e = _untry(cond[1])
        if not test(e):
            continue
        for tg, ls in labs.items():
            if ls and ls <= want:
                edges.add((bi, tg))
    return edges


def variant_edges(body, test, labels):
    """Edges of switches on discr(E) with test(E) whose labels are all in `labels`."""
    labels = set(labels)
    edges = set()
    for bi, cond, labs in _switches(body):
        if cond[0] != "discr" or not test(_untry(cond[1])):
            continue
        for tg, ls in labs.items():
            if ls and ls <= labels:
                edges.add((bi, tg))
    return edges


def call_is(e, pat):
    return e[0] == "call" and re.search(pat, strip_generics(e[1])) is not None


def is_call_at(site):
    """test(E): E is the call at `site` (identity by block)."""
    return lambda e: e[0] == "call" and e[3] == site.bb


def targets(edges):
    return sorted({t for _, t in edges})


def must_pass(body, bb, edges, start=0):
    return bool(edges) and body.must_pass_edges(bb, set(edges), start)


def known_labels(body, bb, test):
    """Set of labels known at bb for the (dominating) switch on discr(E)/E with test(E); None if unconstrained."""
    for text, labels, _, cond in body.guards_on_all_paths(bb):
        e = cond[1] if cond[0] == "discr" else cond
        if test(_untry(e)):
            return set(labels)
    return None


# --------------------------------------------------------------------------------------------------- element-wise producers
class Elementwise:
    """Uniform view of "produce a collection from a source, element by element", written either as
    `src.into_iter().filter_map(closure).collect()` (kept = closure returns Some(x) / cond.then_some(x)) or as
    `for x in src { .. out.push(y) .. }`.

    body   : Body in which one element is processed (closure body, or the function itself for a loop)
    entry  : block where processing of one element starts
    ends   : blocks that end the processing of one element (closure returns / the loop's `next` call)
    keeps  : [(Site, kept_expr, cond_expr_or_None)] sites where the element is kept
    elem   : expression of the element inside `body`
    kind   : 'adaptor' | 'loop'
    """

    def __init__(self, kind, body, entry, ends, keeps, elem, source, site):
        self.kind, self.body, self.entry, self.ends, self.keeps, self.elem, self.source, self.site = kind, body, entry, ends, keeps, elem, source, site


def elementwise(prog, f, result_expr=None):
    """Find the element-wise producer of function f's returned collection. Returns Elementwise or None."""
    # adaptor form
    for s in f.call_sites(r"Iterator::filter_map$"):
        e = f.site_expr(s)
        cs = closures_in(prog, f, e[2][1])
        if not cs:
            continue
        cb = cs[0][1]
        keeps = []
        for rs, re_ in ret_exprs(cb):
            if re_[0] == "agg" and re_[3] == "Some":
                keeps.append((rs, dict(re_[4])["0"], None))
            elif call_is(re_, r"bool::then_some$"):
                keeps.append((rs, re_[2][1], re_[2][0]))
            elif call_is(re_, r"bool::then$"):
                keeps.append((rs, None, re_[2][0]))
        src = e[2][0]
        while call_is(src, r"IntoIterator>::into_iter$|IntoIterator::into_iter$|::iter$") and src[2]:
            src = src[2][0]
        return Elementwise("adaptor", cb, 0, cb.return_blocks(), keeps, ("arg", 2, None), src, s)
    # loop form: for x in src { ... vec.push(y) ... } with the vec being returned
    rets = [e for _, e in ret_exprs(f)]
    outs = {e[1] for e in rets if e[0] == "local"}
    for nx in f.call_sites(r"Iterator>::next$|Iterator::next$"):
        a0 = f.site_expr(nx)[2][0]
        if a0[0] != "local":
            continue
        init = f.init_expr(a0[1])
        if not call_is(init, r"into_iter$|::iter$"):
            continue
        some = targets(variant_edges(f, is_call_at(nx), {"Some"}))
        if len(some) != 1:
            continue
        region = f.reachable(some, stop_nodes=[nx.bb])
        keeps = []
        for p in f.call_sites(r"Vec::push$|SmallVec::push$|VecDeque::push_back$"):
            pe = f.site_expr(p)
            if p.bb in region and pe[2][0][0] == "local" and pe[2][0][1] in outs:
                keeps.append((p, pe[2][1], None))
        if not keeps:
            continue
        src = init[2][0] if init[2] else init
        elem = ("field", ("downcast", f.site_expr(nx), "Some"), "0", None)
        return Elementwise("loop", f, some[0], [nx.bb], keeps, elem, src, nx)
    return None


def capture_exprs(prog, child):
    """Parent-side expressions of the variables captured by closure/coroutine body `child` (by capture index),
    together with the parent body: (parent, [expr...]); (None, []) if the construction site is not found."""
    if not child.parent:
        return None, []
    parent = None
    for b in prog.bodies(child.crate):
        if b.path == child.parent:
            parent = b
            break
    if parent is None:
        return None, []
    for bi in parent.live:
        for st in parent.blocks[bi]["stmts"]:
            if st["k"] == "assign" and st["r"]["k"] == "agg" and st["r"].get("ak") in ("closure", "coroutine", "coroutine_closure") and st["r"].get("def") == child.path:
                return parent, [parent.operand_expr(o) for o in st["r"]["ops"]]
    return parent, []


def resolve(prog, body, e, depth=0):
    """Follow a captured variable up to the enclosing body that defines it: (body', expr')."""
    if e[0] != "upvar" or depth > 4:
        return body, e
    r = Norm(body).r(e)
    if not r[1:].isdigit():
        return body, e
    parent, caps = capture_exprs(prog, body)
    i = int(r[1:])
    if parent is None or i >= len(caps):
        return body, e
    return resolve(prog, parent, caps[i], depth + 1)


def rr(prog, body, e, ids=False):
    """Normalised rendering of e after resolving a top-level captured variable to its defining body."""
    b2, e2 = resolve(prog, body, e)
    return Norm(b2, ids).r(e2)


def const_dead_edges(body):
    """Edges of switches on a compile-time constant (e.g. `cfg!(debug_assertions)`) that can never be taken."""
    dead = set()
    for bi in body.live:
        info = body.switch_info(bi)
        if not info:
            continue
        v = const_val(info[0])
        if v is None:
            continue
        want = {"true" if v else "false", v, str(v)}
        live_t = [tg for tg, ls in info[1].items() if ls & want]
        if not live_t:
            live_t = [tg for tg, ls in info[1].items() if "otherwise" in ls]
        for tg in info[1]:
            if tg not in live_t:
                dead.add((bi, tg))
    return dead


def passes_nodes(body, starts, target_bb, nodes):
    """Every feasible path from `starts` to target_bb passes a block in `nodes` (constant switches evaluated, hoisted bools tracked)."""
    r = body.reachable_bool(starts, blocked_nodes=set(nodes), blocked_edges=const_dead_edges(body))
    return target_bb not in r


# --------------------------------------------------------------------------------------------------- one-level helper following
def crate_callees(prog, body, bbs=None):
    """[(site, callee Body)] for calls in `body` (optionally only in blocks bbs) to fns/methods of the same crate."""
    out = []
    pre = body.crate + "::"
    for s in body.call_sites():
        if bbs is not None and s.bb not in bbs:
            continue
        name = strip_generics(body.call_name(s.term))
        if not name.startswith(pre):
            continue
        fb = [b for b in prog.find(body.crate, "^" + re.escape(name) + "$") if b.kind in ("fn", "method")]
        if len(fb) == 1:
            out.append((s, fb[0]))
    return out


def subst(txt, args):
    """Rewrite a normalised text of a callee (`$k` = its k-th parameter) into the caller's terms."""
    if txt is None:
        return None

    def rep(m):
        i = int(m.group(1)) - 1
        return args[i] if 0 <= i < len(args) else m.group(0)
    return re.sub(r"\$(\d+)", rep, txt)


def views(prog, body, bbs=None):
    """The body itself plus, one level down, every crate-local helper it calls:
    [(B, call site in `body` or None, [caller-side normalised argument texts])]."""
    N = Norm(body)
    out = [(body, None, None)]
    for s, cb in crate_callees(prog, body, bbs):
        args = [N.r(a) for a in body.site_expr(s)[2]]
        if cb.argc >= 1 and cb.names.get(1) == "self":
            pass
        out.append((cb, s, args))
    return out


def to_caller(txt, body_is_method, args):
    """Normalised text of a helper expressed with the caller's arguments (`self` -> receiver, `$k` -> k-th argument)."""
    if args is None or txt is None:
        return txt
    t = subst(txt, args)
    if body_is_method and args and args[0] != "self":
        t = re.sub(r"\bself\b", args[0], t)
    return t


def private_callers_ok(prog, fn_body, allowed):
    """A private helper inherits a permission when every caller of it is an allowed body (or a closure of one)."""
    callers = prog.callers(fn_body.crate, "^" + re.escape(fn_body.npath) + "$")
    if not callers:
        return False
    return all(any(s.body.npath == a or s.body.npath.startswith(a + "::{") for a in allowed) for s in callers)


def fn_in_arm(prog, body, subject_test, variant, pick=None):
    """The crate-local fn/method called in the arm `variant` of the match on the subject selected by subject_test
    (unique, or the unique one accepted by pick(callee body))."""
    ent = targets(variant_edges(body, subject_test, {variant}))
    if len(ent) != 1:
        raise mir.RuleError("%s: arm %s not found" % (body.short, variant))
    cs = crate_callees(prog, body, body.reachable(ent))
    cands = {cb.npath: cb for _, cb in cs if pick is None or pick(cb)}
    # the arm region may run on into code shared by all arms: keep callees that are not reachable from the other arms
    if len(cands) != 1:
        raise mir.RuleError("%s: arm %s calls %s" % (body.short, variant, sorted(cands)))
    return next(iter(cands.values()))
