"""Helpers shared by the Kademlia property modules (C37-C44)."""
import re

from . import lib, mir
from .mir import render, strip_generics, Site

K = "libp2p_kad"


def R(b, s):
    return render(b.site_expr(s))


def where(b):
    return "%s:%d" % (b.file, b.line)


def tg(edges):
    return sorted({t for _, t in edges})


def cnt(b, starts, ends, sites, blocked_edges=()):
    """(min,max) number of blocks holding one of `sites` on all paths starts -> ends."""
    return lib.count_range(b, list(starts), list(ends), lib.bbs(sites), blocked_edges)


def in_region(b, starts, sites):
    r = b.reachable(list(starts))
    return [s for s in sites if s.bb in r]


def recv_calls(b, callee_pat, recv_pat):
    """Call sites of callee whose first argument renders to something matching recv_pat."""
    rx = re.compile(recv_pat)
    out = []
    for s in b.call_sites(callee_pat):
        e = b.site_expr(s)
        if e[2] and rx.search(render(e[2][0])):
            out.append(s)
    return out


def switch_blocks(b, pat):
    rx = re.compile(pat)
    out = []
    for bi in sorted(b.live):
        info = b.switch_info(bi)
        if info and rx.search(render(info[0])):
            out.append(bi)
    return out


def ref_locals(b, field):
    """Locals whose single definition is a (mutable) reference to a place that contains field `field`."""
    out = set()
    for l, ds in b.defs.items():
        if not isinstance(l, int) or len(ds) != 1 or ds[0][0] != "stmt":
            continue
        r = ds[0][3]
        if r["k"] in ("ref", "rawptr") and any(pr["k"] == "field" and pr["n"] == field for pr in r["p"].get("pr", ())):
            if r.get("m", "mut") == "mut":
                out.add(l)
    return out


def field_effects(b, field):
    """All mutations of `self.<field>` in body b: list of (Site, kind, text).
    kind: 'set' (whole field assigned), 'inner' (a sub-place assigned), 'inc' / 'dec' (+1 / -1 through a `ref mut`
    binding), 'refset' (other store through a binding), 'call:<callee>' (&mut field passed to a call)."""
    out = []
    for s in b.field_write_sites(field):
        if s.si is None:
            out.append((s, "call-dest", R(b, s)))
            continue
        prs = s.stmt["p"].get("pr", ())
        last = [pr for pr in prs if pr["k"] != "deref"][-1]
        kind = "set" if (last["k"] == "field" and last["n"] == field) else "inner"
        out.append((s, kind, R(b, s)))
    refs = ref_locals(b, field)
    for bi in sorted(b.live):
        for si, st in enumerate(b.blocks[bi]["stmts"]):
            if st["k"] != "assign":
                continue
            p = st["p"]
            if p["l"] in refs and p.get("pr") and all(pr["k"] == "deref" for pr in p["pr"]):
                s = Site(b, bi, si)
                r = st["r"]
                txt = R(b, s)
                kind = "refset"
                # (*p) = <checked add/sub of p and 1>.0  -- MIR: tmp = Add/SubWithOverflow(copy *p, 1); assert; *p = move tmp.0
                m = re.match(r"^(Add|Sub)(WithOverflow)?\((.*), 1\)(\.0)?$", txt)
                if m:
                    kind = "inc" if m.group(1) == "Add" else "dec"
                out.append((s, kind, txt))
    for s in lib.field_mut_calls(b, field):
        out.append((s, "call:" + strip_generics(b.call_name(s.term)), R(b, s)))
    return out


def enum_known_edges(b, subj_pat, enum_pat, variants):
    """Edges on which the enum-valued expression matching subj_pat is known to be a given variant.
    Returns dict variant -> set of edges.  Recognised forms: `discr(subj)` switches, `PartialEq::eq/ne(subj, Enum::V{})`."""
    srx = re.compile(subj_pat)
    out = {v: set() for v in variants}
    for bi in b.live:
        info = b.switch_info(bi)
        if not info:
            continue
        cond, labs = info
        if cond[0] == "discr" and srx.search(render(cond[1])):
            for t, ls in labs.items():
                if len(ls) == 1 and list(ls)[0] in out:
                    out[list(ls)[0]].add((bi, t))
            continue
        if cond[0] == "call" and re.search(r"PartialEq>?::(eq|ne)$", strip_generics(cond[1])) and len(cond[2]) == 2:
            neg = strip_generics(cond[1]).endswith("ne")
            a, c = cond[2]
            for x, y in ((a, c), (c, a)):
                if srx.search(render(x)) and y[0] == "agg" and re.search(enum_pat, strip_generics(y[2])) and y[3] in out:
                    for t, ls in labs.items():
                        for l in ls:
                            truth = (l == "true") != neg
                            if truth:
                                out[y[3]].add((bi, t))
                            elif len(variants) == 2:
                                other = [v for v in variants if v != y[3]][0]
                                out[other].add((bi, t))
    return out


def ret_sites(b):
    """Sites assigning the return place."""
    return [Site(b, d[1], d[2]) for d in b.defs.get(0, [])]


def closure_ret(prog, b, expr, idx=None):
    """Rendered return expressions of the idx-th closure referenced in expr."""
    cls = [s for s in mir.walk(expr) if s[0] == "closure"]
    if idx is not None:
        cls = cls[idx:idx + 1]
    out = []
    for c in cls:
        cb = prog.closure_body(b, c[1])
        out.append((cb, [render(cb.site_expr(s)) for s in ret_sites(cb)]))
    return out
