"""Helpers shared by the Kademlia property modules (C37-C44)."""
import re

from . import lib, mir
from .mir import render, strip_generics, Site

K = "libp2p_kad"


def eff_expr(b, s):
    """expression of a site; for a call site that stands for the single effect of a private helper (see with_helpers) the
    helper's inner effect expression with the actual arguments substituted"""
    rel = getattr(b, "_reloc", None)
    if rel and s.key() in rel:
        return rel[s.key()]
    return b.site_expr(s)


def R(b, s):
    return render(eff_expr(b, s))


def where(b):
    return "%s:%d" % (b.file, b.line)


def tg(edges):
    return sorted({t for _, t in edges})


def cnt(b, starts, ends, sites, blocked_edges=()):
    """(min,max) number of blocks holding one of `sites` on all paths starts -> ends."""
    return lib.count_range(b, list(starts), list(ends), lib.bbs(sites), blocked_edges)


def in_region(b, starts, sites):
    r = b.reachable(list(starts))
    return [s for s in sites if s.bb in r]


def recv_calls(b, callee_pat, recv_pat):
    """Call sites of callee whose first argument renders to something matching recv_pat."""
    rx = re.compile(recv_pat)
    out = []
    for s in b.call_sites(callee_pat):
        e = b.site_expr(s)
        if e[2] and rx.search(render(e[2][0])):
            out.append(s)
    return out


def switch_blocks(b, pat):
    rx = re.compile(pat)
    out = []
    for bi in sorted(b.live):
        info = b.switch_info(bi)
        if info and rx.search(render(info[0])):
            out.append(bi)
    return out


def ref_locals(b, field):
    """Locals whose single definition is a (mutable) reference to a place that contains field `field`."""
    out = set()
    for l, ds in b.defs.items():
        if not isinstance(l, int) or len(ds) != 1 or ds[0][0] != "stmt":
            continue
        r = ds[0][3]
        if r["k"] in ("ref", "rawptr") and any(pr["k"] == "field" and pr["n"] == field for pr in r["p"].get("pr", ())):
            if r.get("m", "mut") == "mut":
                out.add(l)
    return out


def field_effects(b, field):
    """All mutations of `self.<field>` in body b: list of (Site, kind, text).
    kind: 'set' (whole field assigned), 'inner' (a sub-place assigned), 'inc' / 'dec' (+1 / -1 through a `ref mut`
    binding), 'refset' (other store through a binding), 'call:<callee>' (&mut field passed to a call)."""
    out = []
    for s in b.field_write_sites(field):
        if s.si is None:
            out.append((s, "call-dest", R(b, s)))
            continue
        prs = s.stmt["p"].get("pr", ())
        last = [pr for pr in prs if pr["k"] != "deref"][-1]
        kind = "set" if (last["k"] == "field" and last["n"] == field) else "inner"
        out.append((s, kind, R(b, s)))
    refs = ref_locals(b, field)
    for bi in sorted(b.live):
        for si, st in enumerate(b.blocks[bi]["stmts"]):
            if st["k"] != "assign":
                continue
            p = st["p"]
            if p["l"] in refs and p.get("pr") and all(pr["k"] == "deref" for pr in p["pr"]):
                s = Site(b, bi, si)
                r = st["r"]
                txt = R(b, s)
                kind = "refset"
                # (*p) = <checked add/sub of p and 1>.0  -- MIR: tmp = Add/SubWithOverflow(copy *p, 1); assert; *p = move tmp.0
                m = re.match(r"^(Add|Sub)(WithOverflow)?\((.*), 1\)(\.0)?$", txt)
                if m:
                    kind = "inc" if m.group(1) == "Add" else "dec"
                out.append((s, kind, txt))
    for s in lib.field_mut_calls(b, field):
        k = _through_param(b, s, field)
        out.append((s, k or ("call:" + strip_generics(b.call_name(s.term))), R(b, s)))
    return out


def _through_param(b, s, field):
    """`&mut self.<field>` handed to a crate-local helper that does exactly one `*param += 1` / `-= 1` on every path and nothing else
    with it: the call counts as that inc / dec (one level)."""
    prog = b.prog
    if not hasattr(prog, "by_npath"):
        return None
    h = prog.by_npath(b.crate).get(strip_generics(b.call_name(s.term)))
    if h is None or h is b:
        return None
    t = s.term
    idx = None
    for i, a in enumerate(t["args"]):
        if a.get("k") in ("move", "copy") and "pr" not in a["p"]:
            ds = b.defs.get(a["p"]["l"], [])
            if len(ds) == 1 and ds[0][0] == "stmt" and ds[0][3]["k"] == "ref" and any(pr["k"] == "field" and pr["n"] == field for pr in ds[0][3]["p"].get("pr", ())):
                idx = i + 1
    if idx is None:
        return None
    writes, other = [], 0
    for bi in sorted(h.live):
        for si, st in enumerate(h.blocks[bi]["stmts"]):
            if st["k"] == "assign" and st["p"]["l"] == idx and st["p"].get("pr"):
                writes.append((Site(h, bi, si), render(h.rvalue_expr(st["r"]))))
        tt = h.blocks[bi]["term"]
        if tt and tt["k"] == "call" and any(a.get("k") in ("move", "copy") and a["p"]["l"] == idx and "pr" not in a["p"] for a in tt["args"]):
            other += 1
    if other or len(writes) != 1:
        return None
    if lib.count_range(h, [0], h.return_blocks(), [writes[0][0].bb]) != (1, 1):
        return None
    m = re.match(r"^(Add|Sub)(WithOverflow)?\(#%d, 1\)(\.0)?$" % idx, writes[0][1])
    return ("inc" if m.group(1) == "Add" else "dec") if m else None


def enum_known_edges(b, subj_pat, enum_pat, variants):
    """Edges on which the enum-valued expression matching subj_pat is known to be a given variant.
    Returns dict variant -> set of edges.  Recognised forms: `discr(subj)` switches, `PartialEq::eq/ne(subj, Enum::V{})`."""
    srx = re.compile(subj_pat)
    out = {v: set() for v in variants}
    for bi in b.live:
        info = b.switch_info(bi)
        if not info:
            continue
        cond, labs = info
        if cond[0] == "discr" and srx.search(render(cond[1])):
            for t, ls in labs.items():
                if len(ls) == 1 and list(ls)[0] in out:
                    out[list(ls)[0]].add((bi, t))
            continue
        if cond[0] == "call" and re.search(r"PartialEq>?::(eq|ne)$", strip_generics(cond[1])) and len(cond[2]) == 2:
            neg = strip_generics(cond[1]).endswith("ne")
            a, c = cond[2]
            for x, y in ((a, c), (c, a)):
                if srx.search(render(x)) and y[0] == "agg" and re.search(enum_pat, strip_generics(y[2])) and y[3] in out:
                    for t, ls in labs.items():
                        for l in ls:
                            truth = (l == "true") != neg
                            if truth:
                                out[y[3]].add((bi, t))
                            elif len(variants) == 2:
                                other = [v for v in variants if v != y[3]][0]
                                out[other].add((bi, t))
    return out


def ret_sites(b):
    """Sites assigning the return place."""
    return [Site(b, d[1], d[2]) for d in b.defs.get(0, [])]


def closure_ret(prog, b, expr, idx=None):
    """Rendered return expressions of the idx-th closure referenced in expr."""
    cls = [s for s in mir.walk(expr) if s[0] == "closure"]
    if idx is not None:
        cls = cls[idx:idx + 1]
    out = []
    for c in cls:
        cb = prog.closure_body(b, c[1])
        out.append((cb, [render(cb.site_expr(s)) for s in ret_sites(cb)]))
    return out


# =============================================================================================== name-free program view
# Rules must not depend on the names of locals, parameters, closure captures or on whether a trivial helper was
# extracted / inlined.  `canon(prog)` returns a Program whose bodies
#   * print parameters by position (`#2`; the receiver stays `self`), expand every single-definition local to its
#     initialiser (named or not), print the remaining (multi-definition) locals by type (`%usize`),
#   * print closure captures by capture index (`^0`),
#   * replace calls of *trivial* crate-local helpers (no branch, at most one call, single result: accessors, predicates
#     like `is_full()`, one-line constructors) by the helper's result expression with the actual arguments substituted.
# All engine helpers (render, switch_info, lib.*) then work on the normalised expressions.
from . import facts as _facts


def emap(e, f):
    """Rebuild expression e bottom-up, applying f to every rebuilt node."""
    t = e[0]
    if t == "call":
        e2 = ("call", e[1], tuple(emap(a, f) for a in e[2]), e[3])
    elif t == "bin":
        e2 = ("bin", e[1], emap(e[2], f), emap(e[3], f))
    elif t == "un":
        e2 = ("un", e[1], emap(e[2], f))
    elif t == "cast":
        e2 = ("cast", emap(e[1], f), e[2])
    elif t == "discr":
        e2 = ("discr", emap(e[1], f))
    elif t == "field":
        e2 = ("field", emap(e[1], f), e[2], e[3])
    elif t == "downcast":
        e2 = ("downcast", emap(e[1], f), e[2])
    elif t == "cindex":
        e2 = ("cindex", emap(e[1], f), e[2], e[3])
    elif t == "index":
        e2 = ("index", emap(e[1], f), emap(e[2], f))
    elif t == "agg":
        e2 = ("agg", e[1], e[2], e[3], tuple((n, emap(x, f)) for n, x in e[4]))
    elif t == "closure":
        e2 = ("closure", e[1], tuple(emap(x, f) for x in e[2]))
    elif t == "phi":
        e2 = ("phi", e[1], tuple(emap(x, f) for x in e[2]))
    else:
        e2 = e
    return f(e2)


def _short_ty(t):
    t = strip_generics(t or "?")
    return t.replace(" ", "")


class KBody(mir.Body):
    def __init__(self, prog, crate, raw):
        super().__init__(prog, crate, raw)
        self.src_names = dict(self.names)
        names = {}
        for l in range(1, self.argc + 1):
            names[l] = "self" if (l == 1 and self.src_names.get(1) == "self") else "#%d" % l
        d = self.defs
        for l in range(self.argc + 1, len(self.locals)):
            whole = d.get(l, [])
            if len(whole) != 1 or d.get((l, "partial")):
                if whole or d.get((l, "partial")):
                    names[l] = "%" + _short_ty(self.locals[l] if isinstance(self.locals[l], str) else str(self.locals[l]))
        # locals that are themselves immutable references (`ref mut p`, `let e = map.get_mut(..)`): written *through*, never
        # re-assigned -> printed as their initialiser
        self._ref_like = set()
        for l in range(self.argc + 1, len(self.locals)):
            parts = d.get((l, "partial"))
            if parts and len(d.get(l, [])) == 1 and all(x[0] in ("stmt", "call") and x[4].get("pr") and x[4]["pr"][0]["k"] == "deref" for x in parts):
                self._ref_like.add(l)
                names.pop(l, None)
        self.names = names
        self._expr_cache = {}
        self._summary = None
        self._summary_done = False

    def local_expr(self, l, depth=0, stack=()):
        if l in self._ref_like and l not in stack and depth <= 24:
            key = ("ref", l)
            if key in self._expr_cache:
                return self._expr_cache[key]
            dd = self.defs[l][0]
            st = stack + (l,)
            e = self.rvalue_expr(dd[3], depth + 1, st) if dd[0] == "stmt" else self.call_expr(dd[3], dd[1], depth + 1, st)
            self._expr_cache[key] = e
            return e
        return super().local_expr(l, depth, stack)

    # captures by index, everything else as in mir.Body.place_expr
    def place_expr(self, p, depth=0, stack=()):
        base = self.local_expr(p["l"], depth, stack)
        for pr in p.get("pr", ()):
            k = pr["k"]
            if k == "deref":
                continue
            if k == "field":
                n = pr["n"]
                if n.startswith("upvar"):
                    base = ("upvar", str(pr.get("i", n.split(":", 1)[-1])))
                elif base[0] == "agg" and base[1] in ("adt", "tuple"):
                    hit = None
                    for fname, fe in base[4]:
                        if fname == n:
                            hit = fe
                    base = hit if hit is not None else ("field", base, n, pr.get("o"))
                else:
                    base = ("field", base, n, pr.get("o"))
            elif k == "downcast":
                base = ("downcast", base, pr["v"])
            elif k == "index":
                base = ("index", base, self.local_expr(pr["l"], depth + 1, stack))
            elif k == "cindex":
                base = ("cindex", base, pr["o"], pr["fe"])
            elif k == "subslice":
                base = ("field", base, "[%d..%s%d]" % (pr["from"], "-" if pr["fe"] else "", pr["to"]), None)
        return base

    def summary(self):
        """Result expression of a trivial helper in terms of its parameters, else None."""
        if self._summary_done:
            return self._summary
        self._summary_done = True
        if self.kind not in ("fn", "method"):
            return None
        if self.mut_borrowed:
            return None                     # a local is handed out as `&mut` (out-parameter style): not a pure expression
        ncalls = 0
        for bi in self.live:
            t = self.blocks[bi]["term"]
            if not t:
                continue
            if t["k"] in ("switch", "yield"):
                return None
            if t["k"] == "call":
                ncalls += 1
            if t["k"] == "assert" and not t["msg"].startswith("overflow"):
                return None
        if ncalls > 1 or len(self.return_blocks()) != 1:
            return None
        ds = self.defs.get(0, [])
        if len(ds) != 1 or self.defs.get((0, "partial")):
            return None
        self.prog._noinline += 1
        try:
            saved = self._expr_cache
            self._expr_cache = {}
            d = ds[0]
            e = self.rvalue_expr(d[3]) if d[0] == "stmt" else mir.Body.call_expr(self, d[3], d[1])
            self._expr_cache = saved
        finally:
            self.prog._noinline -= 1
        for x in mir.walk(e):
            if x[0] in ("local", "upvar", "unknown", "closure", "phi"):
                return None
        self._summary = e
        return e

    def call_expr(self, t, bb, depth=0, stack=()):
        e = super().call_expr(t, bb, depth, stack)
        if self.prog._noinline:
            return e
        nm = strip_generics(e[1])
        if nm.endswith("Clone>::clone"):
            return e                        # keep derived clones as calls (shorter, and `clone(x)` is what rules speak about)
        callee = self.prog.by_npath(self.crate).get(nm)
        if callee is None or callee is self:
            return e
        s = callee.summary()
        if s is None:
            return e
        args = e[2]

        def sub(x):
            if x[0] == "arg":
                return args[x[1] - 1] if 0 < x[1] <= len(args) else ("unknown", "?arg")
            if x[0] == "call":
                return ("call", x[1], x[2], bb)
            if x[0] == "field" and x[1][0] == "agg" and x[1][1] in ("adt", "tuple"):
                for fname, fe in x[1][4]:
                    if fname == x[2]:
                        return fe
            return x
        return emap(s, sub)


class KProgram(mir.Program):
    def __init__(self, fact_paths):
        super().__init__(fact_paths)
        self._noinline = 0
        self._by = {}

    def crate(self, name):
        if name not in self._crates:
            if name not in self.fact_paths:
                raise mir.RuleError("no facts for crate %s" % name)
            raw = _facts.load_crate(self.fact_paths[name])
            bodies = [KBody(self, name, b) for b in raw["bodies"]]
            self._crates[name] = (raw, bodies)
        return self._crates[name]

    def by_npath(self, crate):
        if crate not in self._by:
            seen, dup = {}, set()
            for b in self.bodies(crate):
                if b.npath in seen:
                    dup.add(b.npath)
                seen[b.npath] = b
            for p in dup:
                seen.pop(p, None)
            self._by[crate] = seen
        return self._by[crate]


def canon(ctx):
    """Switch the check context to the name-free program view (idempotent)."""
    if not isinstance(ctx.prog, KProgram):
        ctx.prog = KProgram(ctx.prog.fact_paths)
    return ctx.prog


# ------------------------------------------------------------------------------------------------ fields by role
def fld(prog, adt_pat, ty_pat, crate=K):
    """Name of the unique field of the ADT whose type matches ty_pat (private fields are identified by their type, so a
    consistent rename is not an alarm).  Fails closed when the role is ambiguous."""
    a = prog.adt(crate, adt_pat)
    hits = [f["n"] for v in a["variants"] for f in v["fields"] if re.search(ty_pat, f["ty"])]
    if len(hits) != 1:
        raise mir.RuleError("field of %s with type /%s/: %d candidates %s" % (adt_pat, ty_pat, len(hits), hits))
    return hits[0]


# ------------------------------------------------------------------------------------------------ comparisons
FLIP = {"Lt": "Gt", "Le": "Ge", "Gt": "Lt", "Ge": "Le", "Eq": "Eq", "Ne": "Ne"}
NEG = {"Lt": "Ge", "Le": "Gt", "Gt": "Le", "Ge": "Lt", "Eq": "Ne", "Ne": "Eq"}
_CMPFN = re.compile(r"(?:PartialOrd>?|PartialEq>?|cmp::impls|Ord>?)::(lt|le|gt|ge|eq|ne)$")


def as_cmp(e):
    """(op, a, b) for `a op b` written as a MIR comparison or as a PartialOrd/PartialEq method call, looking through Not."""
    neg = False
    while e[0] == "un" and e[1] == "Not":
        neg = not neg
        e = e[2]
    op = None
    if e[0] == "bin" and e[1] in FLIP:
        op, a, b = e[1], e[2], e[3]
    elif e[0] == "call" and len(e[2]) == 2:
        m = _CMPFN.search(strip_generics(e[1]))
        if m:
            op, a, b = m.group(1).capitalize(), e[2][0], e[2][1]
    if op is None:
        return None
    return (NEG[op] if neg else op, a, b)


def cmp_norm(e, a_pat, b_pat):
    """Relation `A op B` stated by expression e with A matching a_pat and B matching b_pat (operands may be written in
    either order); None if e is not such a comparison."""
    c = as_cmp(e)
    if not c:
        return None
    op, x, y = c
    rx, ry = render(x), render(y)
    if re.search(a_pat, rx) and re.search(b_pat, ry):
        return op
    if re.search(a_pat, ry) and re.search(b_pat, rx):
        return FLIP[op]
    return None


IMPLIES = {"<": {"Lt"}, "<=": {"Lt", "Le", "Eq"}, ">": {"Gt"}, ">=": {"Gt", "Ge", "Eq"}, "==": {"Eq"}, "!=": {"Ne", "Lt", "Gt"}}


def rel_edges(b, a_pat, b_pat, want):
    """CFG edges on which the relation `A <want> B` is known to hold (want in <,<=,>,>=,==,!=): the true edge of a
    comparison that implies it or the false edge of one whose negation implies it; operand order and operator mirroring
    are normalised, PartialOrd/PartialEq method calls and `!` are looked through."""
    out = set()
    for bi in b.live:
        info = b.switch_info(bi)
        if not info:
            continue
        op = cmp_norm(info[0], a_pat, b_pat)
        if op is None:
            continue
        for t, ls in info[1].items():
            if ls == {"true"} and op in IMPLIES[want]:
                out.add((bi, t))
            elif ls == {"false"} and NEG[op] in IMPLIES[want]:
                out.add((bi, t))
    return out


def all_rel_edges(b, a_pat, b_pat):
    """every edge of every comparison between A and B (for 'no such test dominates' style rules)"""
    out = set()
    for bi in b.live:
        info = b.switch_info(bi)
        if info and cmp_norm(info[0], a_pat, b_pat) is not None:
            out |= {(bi, t) for t in info[1]}
    return out


def hoisted(b, edges, start=0):
    """close guard edges under bool hoisting (engine: Body.derive_edges) when available"""
    if hasattr(b, "derive_edges"):
        return b.derive_edges(set(edges), None, start)
    return set(edges)


def passes(b, site_bb, edges, start=0):
    edges = hoisted(b, edges, start)
    return bool(edges) and b.must_pass_edges(site_bb, edges, start)


def limit(ctx, rule, instance, site, count_pat, limit_pat, desc, unit_increment=False, start=0):
    """growth site reachable only where count < limit (strict; `!=` accepted with unit increments from below)."""
    b = site.body
    ctx.bodies.add(b.npath)
    good = rel_edges(b, count_pat, limit_pat, "<")
    if unit_increment:
        good |= rel_edges(b, count_pat, limit_pat, "!=")
    ok = passes(b, site.bb, good, start)
    msg = ("bounded: " if ok else "not bounded: ") + desc
    if not ok:
        weak = rel_edges(b, count_pat, limit_pat, "<=")
        if passes(b, site.bb, good | weak, start):
            msg += " — only a non-strict guard (`count > limit` false / `count <= limit`) protects this site, which admits limit+1"
    ctx.ob(rule, instance, ok, site.loc(), msg)
    return ok


def arg_of_type(b, ty_pat):
    """printed name (`#i`) of the unique parameter whose type matches ty_pat (parameter order of private fns is not relied upon)"""
    hits = [l for l in range(1, b.argc + 1) if re.search(ty_pat, str(b.locals[l]))]
    if len(hits) != 1:
        raise mir.RuleError("parameter of %s with type /%s/: %d candidates" % (b.npath, ty_pat, len(hits)))
    return b.names.get(hits[0], "#%d" % hits[0])


# ------------------------------------------------------------------------------------------------ helpers, one level
def callers_roots(prog, crate, npath):
    """root functions (closures count for their parent) that call the function `npath`"""
    out = set()
    for b in prog.bodies(crate):
        for s in b.call_sites():
            if strip_generics(b.call_name(s.term)) == npath:
                out.add(root_fn(prog, b).npath)
    return out


def allowed_fn(prog, crate, root, allow, depth=1):
    """who-may rules: `root` (a Body) is permitted if it is allow-listed (set of npaths or predicate), or if it is a non-`pub`
    helper all of whose callers (crate-wide, closures counted for their parent) are permitted -- one level by default.  The
    permission of an extracted / renamed private helper is inherited from its callers; its effects are counted at the call
    site by with_helpers()."""
    ok = allow(root) if callable(allow) else root.npath in allow
    if ok:
        return True
    if depth <= 0 or root.vis == "pub":
        return False
    cs = callers_roots(prog, crate, root.npath)
    by = prog.by_npath(crate) if hasattr(prog, "by_npath") else {}
    return bool(cs) and all(c in by and c != root.npath and allowed_fn(prog, crate, by[c], allow, depth - 1) for c in cs)


def allowed_kinds(prog, crate, root, table, depth=1):
    """like allowed_fn, for "function F may perform effects of kinds K" tables (dict npath -> set of kinds): a non-`pub` helper
    inherits the kinds that *all* its callers may perform."""
    if root.npath in table:
        return set(table[root.npath])
    if depth <= 0 or root.vis == "pub":
        return set()
    cs = callers_roots(prog, crate, root.npath)
    by = prog.by_npath(crate) if hasattr(prog, "by_npath") else {}
    if not cs or any(c not in by or c == root.npath for c in cs):
        return set()
    ks = [allowed_kinds(prog, crate, by[c], table, depth - 1) for c in cs]
    return set.intersection(*ks) if ks else set()


def with_helpers(prog, b, finder, problems=None, skip=()):
    """finder(body) -> list of effect sites (mir.Site, or tuples whose first element is a Site).  Returns finder(b) plus, for
    every call in b of a crate-local helper that performs exactly one such effect on every path, the call site standing for that
    effect (tuples keep their other components, rendered texts get the actual arguments substituted).  Helpers with a
    path-dependent number of effects are appended to `problems` (rules fail closed on them)."""
    out = list(finder(b))
    by = prog.by_npath(b.crate) if hasattr(prog, "by_npath") else {}
    for s in b.call_sites():
        name = strip_generics(b.call_name(s.term))
        h = by.get(name)
        if h is None or h is b or name in skip:
            continue                # `skip`: functions that are analysed in their own right (not helpers of b)
        inner = finder(h)
        if not inner:
            continue
        sites = [x[0] if isinstance(x, tuple) else x for x in inner]
        rng = lib.count_range(h, [0], h.return_blocks(), lib.bbs(sites))
        if rng != (1, 1) or len(inner) != 1:
            if problems is not None:
                problems.append("%s called from %s performs %s such effect(s) per path at %d site(s)" % (h.short, b.short, rng, len(inner)))
            continue
        args = b.site_expr(s)[2]

        def sub(x, args=args, bb=s.bb):
            if x[0] == "arg":
                return args[x[1] - 1] if 0 < x[1] <= len(args) else ("unknown", "?arg")
            if x[0] == "call":
                return ("call", x[1], x[2], bb)
            return x
        ie = emap(h.site_expr(sites[0]), sub)
        if not hasattr(b, "_reloc"):
            b._reloc = {}
        b._reloc[s.key()] = ie
        if isinstance(inner[0], tuple):
            out.append((s,) + tuple(render(ie) if (isinstance(c, str) and i == len(inner[0]) - 1) else c for i, c in enumerate(inner[0]) if i > 0))
        else:
            out.append(s)
    return out


def const_val(e):
    """integer value of a literal or of a named constant operand, else None"""
    if e[0] == "const" and isinstance(e[1], int):
        return e[1]
    if e[0] == "namedconst" and isinstance(e[2], int):
        return e[2]
    return None


def root_fn(prog, b):
    """the enclosing function of a closure body (closures count as part of their parent)"""
    seen = 0
    while b.parent and seen < 8:
        p = [x for x in prog.bodies(b.crate) if x.path == b.parent]
        if not p:
            break
        b = p[0]
        seen += 1
    return b


# ------------------------------------------------------------------------------------------------ record ttl (C42, C44)
def ge1(cb, e, site_bb, depth=0):
    """True iff expression e (a u32) is >= 1 on every path to site_bb."""
    if depth > 8:
        return False
    if e[0] == "const" and isinstance(e[1], int):
        return e[1] >= 1
    if e[0] == "namedconst" and isinstance(e[2], int):
        return e[2] >= 1
    if e[0] == "call":
        name = strip_generics(e[1])
        if re.search(r"cmp::Ord::max$|cmp::max$", name):
            return any(ge1(cb, a, site_bb, depth + 1) for a in e[2])
        if re.search(r"cmp::Ord::clamp$", name) and len(e[2]) == 3:
            return ge1(cb, e[2][1], site_bb, depth + 1)
        if re.search(r"cmp::Ord::min$|cmp::min$", name):
            return all(ge1(cb, a, site_bb, depth + 1) for a in e[2])
        if re.search(r"num::NonZero::get$", name):
            return True
    if e[0] == "local":
        ds = cb.defs.get(e[1], [])
        if ds:
            return all(ge1(cb, cb.rvalue_expr(d[3]) if d[0] == "stmt" else cb.call_expr(d[3], d[1]), d[1], depth + 1) for d in ds)
    # guarded by `e > 0` / `e != 0` / `e >= 1`
    r = render(e)
    for text, labels, _, cond in cb.guards_on_all_paths(site_bb):
        m = re.match(r"^(Gt|Ne|Ge|Eq|Lt|Le)\((.*), (\d+)\)$", text)
        if m and m.group(2) == r:
            op, k = m.group(1), int(m.group(3))
            if labels == frozenset(["true"]) and ((op in ("Gt", "Ne") and k == 0) or (op == "Ge" and k >= 1)):
                return True
            if labels == frozenset(["false"]) and ((op == "Eq" and k == 0) or (op == "Lt" and k == 1) or (op == "Le" and k == 0)):
                return True
    return False


def record_ttl_clauses(ctx, prog, rule):
    """Shared by C42 (lifetimes) and C44 (round trip): a record with an expiry is never encoded as ttl 0 and the decoder maps
    ttl > 0 to Some(expiry), ttl == 0 to None -- encoder and decoder agree on the *presence* of an expiry."""
    b = ctx.body(K, r"^libp2p_kad::protocol::record_to_proto$")
    W = where(b)
    ags = b.agg_sites(r"proto::dht_pb::Record$")
    ctx.floor(rule, "proto::Record construction", ags, 1, exact=True)
    for s in ags:
        f = dict(b.site_expr(s)[4])
        t = render(f.get("ttl", ("unknown", "?")))
        m = re.match(r"^std::option::Option::unwrap_or\(std::option::Option::map\(#1\.expires, closure:[^\[]*\[\]\), 0\)$", t)
        if not (f.get("ttl", ("?",))[0] == "local"):
            ctx.ob(rule, "encoded ttl = expires.map(remaining seconds).unwrap_or(0)", m is not None, s.loc(), t[:200])
        cl = lib.closure_of(prog, b, f["ttl"]) if "ttl" in f else None
        if cl is None and "ttl" in f and f["ttl"][0] == "local":
            # `match record.expires { Some(t) => .., None => 0 }` form: every value assigned on a Some path must be >= 1
            n = 0
            for d in b.defs.get(f["ttl"][1], []):
                gs = {g[0]: g[1] for g in b.guards_on_all_paths(d[1])}
                if gs.get("discr(#1.expires)") == frozenset(["None"]):
                    continue
                n += 1
                e = b.rvalue_expr(d[3]) if d[0] == "stmt" else b.call_expr(d[3], d[1])
                ok = ge1(b, e, d[1])
                ctx.ob(rule, "every encoded ttl of a record with an expiry is >= 1", ok, Site(b, d[1], d[2]).loc(), "value %s" % render(e)[:200])
            ctx.ob(rule, "floor:ttl values on the Some path", n >= 1, s.loc(), nontrivial=False, msg=str(n))
            continue
        if cl is None:
            ctx.ob(rule, "ttl closure found", False, s.loc(), "")
            continue
        rs = ret_sites(cl)
        ctx.floor(rule, "ttl closure results", rs, 1)
        for x in rs:
            e = cl.site_expr(x)
            ok = ge1(cl, e, x.bb)
            ctx.ob(rule, "every encoded ttl of a record with an expiry is >= 1", ok, x.loc(),
                   ("value %s is a constant >= 1, max(_, 1), or on a > 0 edge" if ok else "value %s can be 0 (e.g. a remaining lifetime below one second, or a u32 truncation), and 0 means 'does not expire'") % render(e)[:200])
            leaves = [c for c in mir.calls_in(e, r"Instant as std::ops::Sub>::sub$|Instant::duration_since$|saturating_duration_since$|checked_duration_since$")]
            if leaves:
                ctx.ob(rule, "remaining lifetime = expires - now", all(render(c[2][0]) == "#2" and render(c[2][1]) == "web_time::Instant::now()" for c in leaves), x.loc(), str([render(c)[:80] for c in leaves]))
            adds = [c for c in mir.calls_in(e, r"ops::Add|ops::Mul|checked_add|saturating_add|checked_mul")]
            ctx.ob(rule, "the encoded lifetime is never lengthened", not adds, x.loc(), str([render(c)[:60] for c in adds]))
        pv = render(f.get("value", ("unknown", "?")))
        ctx.ob(rule, "value and key are the record's own", pv == "#1.value" and render(f.get("key", ("unknown", "?"))) in ("libp2p_kad::record::Key::to_vec(#1.key)", "bytes::Bytes::to_vec(#1.key.0)", "<bytes::Bytes as std::convert::Into>::into(#1.key.0)") or (pv == "#1.value" and "#1.key" in render(f.get("key", ("unknown", "?")))), s.loc(), pv)
    who = sorted({x.npath for x in prog.bodies(K) if x.agg_sites(r"proto::dht_pb::Record$") and "dht_pb" not in x.npath})
    ctx.ob(rule, "proto::Record is built only by record_to_proto (and the PUT_VALUE acknowledgement)", who in (["libp2p_kad::protocol::record_to_proto"], ["libp2p_kad::protocol::record_to_proto", "libp2p_kad::protocol::resp_msg_to_proto"]), msg=str(who))
    if "libp2p_kad::protocol::resp_msg_to_proto" in who:
        rp = ctx.body(K, r"^libp2p_kad::protocol::resp_msg_to_proto$")
        for s in rp.agg_sites(r"proto::dht_pb::Record$"):
            ctx.guarded(rule, "the only expiry-less proto::Record is the PUT_VALUE acknowledgement", s, lambda c, r, l: l == "PutValue" and r == "discr(#1)", "KadResponseMsg::PutValue arm")
        a = prog.adt(K, r"protocol::KadResponseMsg$")
        flds = [[f["n"] for f in v["fields"]] for v in a["variants"] if v["name"] == "PutValue"]
        ctx.ob(rule, "the PUT_VALUE acknowledgement carries no expiry to lose (fields key, value)", flds == [["key", "value"]], msg=str(flds))
        dp = ctx.body(K, r"^libp2p_kad::protocol::proto_to_resp_msg$")
        ags = [R(dp, s) for s in dp.agg_sites(r"protocol::KadResponseMsg$", "PutValue")]
        ctx.ob(rule, "the decoder of the acknowledgement ignores ttl", len(ags) == 1 and "ttl" not in ags[0] and "record_from_proto" not in ags[0], where(dp), str(ags)[:240])
    # decode side
    d = ctx.body(K, r"^libp2p_kad::protocol::record_from_proto$")
    recs = d.agg_sites(r"^libp2p_kad::record::Record$")
    ex = dict(d.site_expr(recs[0])[4]).get("expires") if len(recs) == 1 else None
    tab = {}
    if ex is not None and ex[0] == "local":
        for df in d.defs.get(ex[1], []):
            if df[0] != "stmt":
                tab["call"] = "?"
                continue
            pos = rel_edges(d, r"^#1\.ttl$", r"^0$", ">") | rel_edges(d, r"^#1\.ttl$", r"^0$", "!=")
            zero = rel_edges(d, r"^#1\.ttl$", r"^0$", "<=")
            key = "true" if passes(d, df[1], pos) else ("false" if passes(d, df[1], zero) else None)
            tab[key] = render(d.rvalue_expr(df[3]))
    elif ex is not None:
        tab["?"] = render(ex)
    ok = tab.get("false") == "std::option::Option::None{}" and (tab.get("true") or "").startswith("std::option::Option::Some{0: <web_time::Instant as std::ops::Add>::add(web_time::Instant::now(), web_time::Duration::from_secs((#1.ttl as u64)))") and len(tab) == 2
    ctx.ob(rule, "decode: no expiry only for ttl == 0", ok, where(d), str(tab)[:300])
    ctx.ob(rule, "decode: the record carries the decoded expiry", ex is not None, where(d), "expires field of the constructed Record")


# ------------------------------------------------------------------------------------------------ first-hit scans
def subst_upvars(closure_expr, e):
    """replace capture references `^i` in a closure-body expression by the captured parent expressions"""
    ops = closure_expr[2]

    def f(x):
        if x[0] == "upvar" and x[1].isdigit() and int(x[1]) < len(ops):
            return ops[int(x[1])]
        return x
    return emap(e, f)


def first_hit(prog, b):
    """Recognise "return the first element of RANGE for which PRED holds (wrapped by CTOR), else None", written either as
    `RANGE.find_map(|e| if PRED(e) { Some(CTOR(e)) } else { None })` or as the explicit loop
    `for e in RANGE { if PRED(e) { return Some(CTOR(e)) } } None`.
    Returns dict(form, range, pred, hit_label, hit, miss_ok) with the element printed as `<e>`, or None."""
    rs = ret_sites(b)
    # adaptor form
    if len(rs) == 1:
        e = b.site_expr(rs[0])
        if e[0] == "call" and re.search(r"Iterator::find_map$", strip_generics(e[1])) and len(e[2]) == 2 and e[2][1][0] == "closure":
            cb = prog.closure_body(b, e[2][1][1])
            sws = [bi for bi in sorted(cb.live) if cb.switch_info(bi)]
            if len(sws) != 1:
                return None
            cond, labs = cb.switch_info(sws[0])
            el = "#2"
            pred = render(subst_upvars(e[2][1], cond)).replace(el, "<e>")
            out = {"form": "find_map", "range": render(e[2][0]), "pred": pred, "vals": {}}
            for t, ls in labs.items():
                vals = sorted({render(subst_upvars(e[2][1], cb.site_expr(s))).replace(el, "<e>") for s in ret_sites(cb) if s.bb in cb.reachable([t])})
                for l in ls:
                    out["vals"][l] = vals
            out["exhausted"] = ["std::option::Option::None{}"]      # find_map's own contract
            return out
    # loop form
    its = b.call_sites(r"IntoIterator>?::into_iter$")
    if len(its) != 1:
        return None
    rng = b.site_expr(its[0])[2][0]
    nx = [s for s in b.call_sites(r"Iterator>?::next$|iter::range::next$") if any(c[3] == its[0].bb for c in mir.calls_in(b.site_expr(s), r"into_iter$"))]
    if len(nx) != 1:
        return None
    head = nx[0].bb
    some = tg(lib.switch_edges_on_site(b, nx[0], {"Some"}))
    none = tg(lib.switch_edges_on_site(b, nx[0], {"None"}))
    if len(some) != 1 or len(none) != 1:
        return None
    elem = render(b.site_expr(nx[0])) + "@Some.0"
    body_blocks = b.reachable(some, stop_nodes=[head])
    sws = [bi for bi in sorted(body_blocks) if b.switch_info(bi) and bi != head and elem in render(b.switch_info(bi)[0])]
    if len(sws) != 1:
        return None
    cond, labs = b.switch_info(sws[0])
    out = {"form": "loop", "range": render(rng), "pred": render(cond).replace(elem, "<e>"), "vals": {}}
    for t, ls in labs.items():
        r = b.reachable([t], stop_nodes=[head])
        vals = sorted({render(b.site_expr(s)).replace(elem, "<e>") for s in rs if s.bb in r})
        if head in r and not vals:
            vals = ["std::option::Option::None{}"]          # continue with the next element == find_map's None
        elif head in r:
            vals = vals + ["<continue>"]
        for l in ls:
            out["vals"][l] = vals
    r = b.reachable(none, stop_nodes=[head])
    out["exhausted"] = sorted({render(b.site_expr(s)) for s in rs if s.bb in r})
    return out


if __name__ == "__main__":      # python3 -m vrules.lib_kad <crate> <regex>   (canonical view of matching bodies)
    import sys
    from . import show as _show
    _p = KProgram(_facts.ensure_facts(config="default"))
    if len(sys.argv) > 3:
        mir.RENDER_MAX[0] = int(sys.argv[3])
    for _b in _p.find(sys.argv[1], sys.argv[2]):
        _show.show(_b)

