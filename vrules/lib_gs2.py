"""Helpers shared by the gossipsub property modules C34/C36 (comparison edges with normalised relations)."""
import re

from . import mir
from .mir import render

NEG = {"Lt": "Ge", "Le": "Gt", "Gt": "Le", "Ge": "Lt", "Eq": "Ne", "Ne": "Eq"}
FLIP = {"Lt": "Gt", "Le": "Ge", "Gt": "Lt", "Ge": "Le", "Eq": "Eq", "Ne": "Ne"}


def edge_facts(body):
    """For every comparison switch: list of (bb, tgt, op, lhs_expr, rhs_expr) meaning `lhs op rhs` holds on edge bb->tgt."""
    out = []
    for bi in sorted(body.live):
        info = body.switch_info(bi)
        if not info:
            continue
        cond, labs = info
        if cond[0] != "bin" or cond[1] not in NEG:
            continue
        for tgt, ls in labs.items():
            if ls == {"true"}:
                out.append((bi, tgt, cond[1], cond[2], cond[3]))
            elif ls == {"false"}:
                out.append((bi, tgt, NEG[cond[1]], cond[2], cond[3]))
    return out


def le_edges(body, x_pat, y_pat, facts=None):
    """Edges on which `x <= y` is known (x < y included), x / y given as regexes on rendered operands."""
    xr, yr = re.compile(x_pat), re.compile(y_pat)
    out = set()
    for bi, tgt, op, a, b in facts if facts is not None else edge_facts(body):
        ra, rb = render(a), render(b)
        if op in ("Le", "Lt") and xr.search(ra) and yr.search(rb):
            out.add((bi, tgt))
        if op in ("Ge", "Gt") and xr.search(rb) and yr.search(ra):
            out.add((bi, tgt))
    return out


def ge_const_edges(body, x_pat, c, facts=None):
    """Edges on which x >= c is known for the integer constant c (x >= c', c' >= c accepted)."""
    xr = re.compile(x_pat)
    out = set()
    for bi, tgt, op, a, b in facts if facts is not None else edge_facts(body):
        for o, l, r in ((op, a, b), (FLIP[op], b, a)):
            if xr.search(render(l)) and r[0] == "const" and isinstance(r[1], int):
                if (o == "Ge" and r[1] >= c) or (o == "Gt" and r[1] >= c - 1):
                    out.add((bi, tgt))
    return out
