"""Canonical (refactoring-insensitive) view of MIR expressions and guards, used by the gossipsub modules C30/C31/C33/C34/C36.

Why: rules written against `mir.render` text depend on local / parameter names, on `?` vs `match`, on `a > b` vs `b < a`, on literal
vs named constants, on `.as_ref()` / `&*` / `.clone()` wrappers and on closure numbering.  Everything here normalises those away:

* `Canon.x(expr)`   parameters are `$i` (position), locals are `%id` unless the rule gave them a *structural role* name, upvars of a
                    closure are replaced by what the parent captured (`^$1` = parent's first parameter), integer named constants are
                    their value, value-transparent wrappers (Deref/AsRef/Borrow/Clone/Option::as_ref/copied/..) are dropped,
                    `Try::branch(x)@Continue.0` is `x@Ok.0` / `x@Some.0`, optionally simple getters are inlined one level.
* `Canon.atoms()`   every switch edge as normal-form facts: ("rel", op, x, y) | ("var", e, {variants}) | ("bool", e, truth); comparison
                    calls (PartialOrd::lt ..), `Not`, `is_some/is_none/is_ok/is_err/is_empty` and `?` labels are normalised.
* `rel_edges / var_edges / bool_edges / const_bound_edges`  edge sets on which a wanted fact is implied (mirrored / negated / stronger
                    forms accepted), closed under bool hoisting with the engine's `derive_edges`.
* `Cells`           finite-partition evaluation of a region of one body over semantic dimensions (variant / bool / numeric classes),
                    path-sensitive in multi-def locals, independent of how the conditions are spelled.
"""
import itertools
import re

from . import mir
from .mir import render, strip_generics

NEG = {"Lt": "Ge", "Le": "Gt", "Gt": "Le", "Ge": "Lt", "Eq": "Ne", "Ne": "Eq"}
FLIP = {"Lt": "Gt", "Le": "Ge", "Gt": "Lt", "Ge": "Le", "Eq": "Eq", "Ne": "Ne"}
IMPLIES = {"Lt": {"Lt", "Le", "Ne"}, "Le": {"Le"}, "Gt": {"Gt", "Ge", "Ne"}, "Ge": {"Ge"}, "Eq": {"Eq", "Le", "Ge"}, "Ne": {"Ne"}}

TRANSPARENT = re.compile(
    r"ops::Deref(Mut)?>?::deref(_mut)?$|convert::AsRef>?::as_ref$|convert::AsMut>?::as_mut$|borrow::Borrow(Mut)?>?::borrow(_mut)?$|"
    r"clone::Clone>?::clone$|clone::impls::clone$|Option::as_ref$|Option::as_mut$|Option::as_deref$|Option::as_deref_mut$|"
    r"Option::copied$|Option::cloned$|Result::as_ref$|Result::as_mut$|Vec::as_slice$|Vec::as_mut_slice$|String::as_str$|"
    r"BytesMut::as_ref$|hint::must_use$|convert::identity$|borrow::ToOwned>?::to_owned$")
CMPCALL = re.compile(r"(?:PartialOrd|PartialEq|Ord|impls)>?::(lt|le|gt|ge|eq|ne)$")
TRY = re.compile(r"ops::Try>::branch$")
IS_CALL = re.compile(r"(Option::is_some|Option::is_none|Result::is_ok|Result::is_err)$")
EMPTY_CALL = re.compile(r"::is_empty$")
LEN_OF = {"std::vec::Vec::is_empty": "std::vec::Vec::len", "core::slice::is_empty": "core::slice::len", "std::collections::BTreeSet::is_empty": "std::collections::BTreeSet::len",
          "std::collections::HashSet::is_empty": "std::collections::HashSet::len", "std::collections::HashMap::is_empty": "std::collections::HashMap::len",
          "std::collections::VecDeque::is_empty": "std::collections::VecDeque::len", "core::str::is_empty": "core::str::len", "std::string::String::is_empty": "std::string::String::len"}


def _try_kind(name):
    return "Option" if "option::Option as" in name else "Result"


def try_label(name, lab):
    k = _try_kind(name)
    return {"Continue": "Some" if k == "Option" else "Ok", "Break": "None" if k == "Option" else "Err"}.get(lab, lab)


class Canon:
    def __init__(self, prog, body, roles=None, inline=None, depth=0, parent=None, argmap=None, follow=True):
        self.prog, self.b = prog, body
        self.roles = dict(roles or {})
        self.inline = re.compile(inline) if isinstance(inline, str) else inline
        lvl, pth = 0, body.parent
        by_path = getattr(prog, "_gs2_paths", None)
        if by_path is None:
            by_path = prog._gs2_paths = {}
        if body.crate not in by_path:
            by_path[body.crate] = {bb.path: bb for bb in prog.bodies(body.crate)}
        while pth:
            lvl += 1
            pb = by_path[body.crate].get(pth)
            pth = pb.parent if pb is not None else None
        self.depth = lvl
        self._parent = parent
        self.argmap = argmap
        self.follow = follow
        self._atoms = None
        self._cap = {}
        self._hcache = {}

    # ---------------------------------------------------------------- expressions
    def x(self, e, d=0):
        if d > 60:
            return e
        t = e[0]
        pre = "c" * self.depth
        if t == "arg":
            if self.argmap is not None and 1 <= e[1] <= len(self.argmap):
                return self.argmap[e[1] - 1]
            return ("arg", e[1], self.roles.get(("arg", e[1])) or pre + "$%d" % e[1])
        if t == "local":
            return ("local", e[1], self.roles.get(e[1]) or pre + ("~" if self.argmap is not None else "") + "%%%d" % e[1])
        if t == "upvar":
            c = self.capture(e[1])
            return c if c is not None else e
        if t == "namedconst":
            if isinstance(e[2], int):
                return ("const", e[2], None)
            return e
        if t == "call":
            name = strip_generics(e[1])
            args = tuple(self.x(a, d + 1) for a in e[2])
            if len(args) == 1 and TRANSPARENT.search(name):
                return args[0]
            if self.inline is not None and self.inline.search(name):
                r = self._inline(name, args)
                if r is not None:
                    return r
            return ("call", e[1], args, e[3])
        if t == "bin":
            return ("bin", e[1], self.x(e[2], d + 1), self.x(e[3], d + 1))
        if t == "un":
            a = self.x(e[2], d + 1)
            if e[1] == "Not" and a[0] == "un" and a[1] == "Not":
                return a[2]
            return ("un", e[1], a)
        if t == "cast":
            return ("cast", self.x(e[1], d + 1), e[2])
        if t == "field":
            base = self.x(e[1], d + 1)
            if base[0] == "agg" and base[1] in ("adt", "tuple"):
                for fname, fe in base[4]:
                    if fname == e[2]:
                        return fe
            return ("field", base, e[2], e[3])
        if t == "downcast":
            b0 = e[1]
            if b0[0] == "call" and TRY.search(strip_generics(b0[1])) and b0[2]:
                return ("downcast", self.x(b0[2][0], d + 1), try_label(b0[1], e[2]))
            return ("downcast", self.x(b0, d + 1), e[2])
        if t == "index":
            return ("index", self.x(e[1], d + 1), self.x(e[2], d + 1))
        if t == "cindex":
            return ("cindex", self.x(e[1], d + 1), e[2], e[3])
        if t == "discr":
            b0 = e[1]
            if b0[0] == "call" and TRY.search(strip_generics(b0[1])) and b0[2]:
                return ("discr", self.x(b0[2][0], d + 1))
            return ("discr", self.x(b0, d + 1))
        if t == "agg":
            return ("agg", e[1], e[2], e[3], tuple((f, self.x(v, d + 1)) for f, v in e[4]))
        if t == "closure":
            return ("closure", e[1], tuple(self.x(u, d + 1) for u in e[2]))
        if t == "phi":
            return ("phi", e[1], tuple(self.x(u, d + 1) for u in e[2]))
        return e

    def r(self, e):
        return render(self.x(e))

    def site(self, site):
        return self.x(self.b.site_expr(site))

    def rsite(self, site):
        return render(self.site(site))

    def args(self, site):
        e = self.b.site_expr(site)
        return [self.x(a) for a in e[2]] if e[0] == "call" else []

    def init(self, l):
        """Canonical initialiser of a local (its single whole definition), else None."""
        ds = self.b.defs.get(l, [])
        if len(ds) != 1:
            return None
        d = ds[0]
        return self.x(self.b.rvalue_expr(d[3]) if d[0] == "stmt" else self.b.call_expr(d[3], d[1]))

    def defs(self, l, self_name="#"):
        """Canonical renders of all whole definitions of local l, the local itself rendered as `#`."""
        rl = dict(self.roles)
        rl[l] = self_name
        c = Canon(self.prog, self.b, rl, self.inline, parent=self._parent)
        out = []
        for d in self.b.defs.get(l, []):
            e = self.b.rvalue_expr(d[3]) if d[0] == "stmt" else self.b.call_expr(d[3], d[1])
            out.append((mir.Site(self.b, d[1], d[2]), render(c.x(e))))
        return out

    def returns(self):
        """(site, canonical expr) of every assignment to the return place."""
        out = []
        for d in self.b.defs.get(0, []):
            e = self.b.rvalue_expr(d[3]) if d[0] == "stmt" else self.b.call_expr(d[3], d[1])
            out.append((mir.Site(self.b, d[1], d[2]), self.x(e)))
        return out

    # ---------------------------------------------------------------- closures
    def parent(self):
        if self._parent is None and self.b.parent:
            pb = self.prog._gs2_paths[self.b.crate].get(self.b.parent)
            if pb is not None:
                self._parent = Canon(self.prog, pb, None, self.inline)
        return self._parent

    def capture(self, upname):
        if upname in self._cap:
            return self._cap[upname]
        res = None
        idx = None
        for u in self.b.raw.get("upnames", []) or []:
            prs = [pr for pr in u.get("p", {}).get("pr", []) if pr.get("k") == "field"]
            if prs and prs[0].get("n", "").split(":", 1)[-1] == upname:
                idx = prs[0].get("i")
        pc = self.parent()
        if idx is not None and pc is not None:
            pb = pc.b
            for bi in pb.live:
                for st in pb.blocks[bi]["stmts"]:
                    if st["k"] == "assign" and st["r"]["k"] == "agg" and st["r"].get("def") == self.b.path:
                        ops = st["r"]["ops"]
                        if idx < len(ops):
                            res = pc.x(pb.operand_expr(ops[idx]))
        self._cap[upname] = res
        return res

    def closures_in(self, e):
        """Canon objects of the closure bodies referenced in (raw or canonical) expression e, in order of appearance."""
        out = []
        for s in mir.walk(e):
            if s[0] == "closure":
                try:
                    cb = self.prog.closure_body(self.b, s[1])
                except mir.RuleError:
                    continue
                out.append(Canon(self.prog, cb, None, self.inline, parent=self))
        return out

    def _inline(self, name, args):
        cb = self._local_body(name)
        if cb is None or cb is self.b or cb.argc != len(args):
            return None
        if any(cb.blocks[bi]["term"] and cb.blocks[bi]["term"]["k"] == "switch" for bi in cb.live):
            return None
        ds = cb.defs.get(0, [])
        if len(ds) != 1:
            return None
        d = ds[0]
        e = cb.rvalue_expr(d[3]) if d[0] == "stmt" else cb.call_expr(d[3], d[1])
        sub = Canon(self.prog, cb, None, None, argmap=list(args))
        return sub.x(e)

    # ---------------------------------------------------------------- guards
    def cond_atoms(self, cond, label):
        """Normal-form facts known when canonical switch condition `cond` takes the edge labelled `label`."""
        return atoms_of(cond, label)

    def switch(self, bb):
        info = self.b.switch_info(bb)
        if not info:
            return None
        cond, labs = info
        c = self.x(cond)
        if cond[0] == "discr" and cond[1][0] == "call" and TRY.search(strip_generics(cond[1][1])):
            labs = {t: {try_label(cond[1][1], l) for l in ls} for t, ls in labs.items()}
        return c, labs

    def atoms(self):
        """list of (bb, tgt, atom) for every switch edge with a single-label (or variant-set) meaning."""
        if self._atoms is None:
            out = []
            for bi in sorted(self.b.live):
                sw = self.switch(bi)
                if not sw:
                    continue
                c, labs = sw
                for tgt, ls in labs.items():
                    for a in self.edge_atoms(c, ls):
                        out.append((bi, tgt, a))
            self._atoms = out
        return self._atoms

    # ---------------------------------------------------------------- one level into crate-local helpers
    def _local_body(self, name):
        idx = getattr(self.prog, "_gs2_idx", None)
        if idx is None:
            idx = self.prog._gs2_idx = {}
        key = self.b.crate
        if key not in idx:
            idx[key] = {bb.npath: bb for bb in self.prog.bodies(key) if bb.kind != "closure"}
        return idx[key].get(name)

    def helper(self, call):
        """Canon of the crate-local callee of canonical call expression `call`, with its parameters bound to the call's arguments
        (so that everything it renders is expressed in the caller's frame); None for foreign / unknown callees."""
        if call[0] != "call" or self.follow is False:
            return None
        hb = self._local_body(strip_generics(call[1]))
        if hb is None or hb is self.b or hb.argc != len(call[2]):
            return None
        return Canon(self.prog, hb, None, self.inline, argmap=list(call[2]), follow=False)

    def helper_atoms(self, call, labels):
        """Facts that hold whenever the crate-local helper called by `call` returns a value described by `labels`
        ('true'/'false', Ok/Err, Some/None): the atoms common to all of its return sites producing such a value."""
        labels = set(labels)
        key = (render(call), tuple(sorted(map(str, labels))))
        if key in self._hcache:
            return self._hcache[key]
        out = []
        hc = self.helper(call)
        if hc is not None:
            sets = []
            for s, e in hc.returns():
                v = None
                if e[0] == "const" and e[1] in (0, 1):
                    v = {"true" if e[1] else "false"}
                elif e[0] == "agg" and e[1] == "adt" and e[3]:
                    v = {e[3]}
                elif e[0] == "call" and re.search(r"FromResidual>::from_residual$", strip_generics(e[1])):
                    v = {"Err", "None"}
                if v is None:
                    if labels <= {"true", "false"} and len(labels) == 1:
                        # the helper returns a boolean expression: on a `labels` result that expression has this truth value
                        sets.append(set(hc.guards(s.bb)) | set(atoms_of(e, labels)))
                        continue
                    sets = None          # a return value we cannot classify: derive nothing
                    break
                if v & labels:
                    sets.append(set(hc.guards(s.bb)))
            if sets:
                out = list(set.intersection(*sets))
        self._hcache[key] = out
        return out

    def edge_atoms(self, c, labels):
        """atoms_of + what a crate-local helper used as the condition implies (one level)."""
        out = list(atoms_of(c, labels))
        inner = c[1] if c[0] == "discr" else c
        neg = False
        while inner[0] == "un" and inner[1] == "Not":
            neg = not neg
            inner = inner[2]
        if inner[0] == "call" and self.follow is not False:
            ls = set(labels)
            if neg and ls <= {"true", "false"}:
                ls = {"false" if l == "true" else "true" for l in ls}
            if ls and (ls <= {"true", "false"} or ls <= {"Ok", "Err", "Some", "None"}) and len(ls) == 1:
                out += self.helper_atoms(inner, ls)
        return out

    def noise(self, bb):
        t = self.b.blocks[bb]["term"]
        return bool(t) and (t.get("x", "").startswith("m:") or "tracing" in t.get("xs", ""))

    def edges(self, pred):
        """Edges carrying an atom that satisfies pred(atom) (raw: usable as start points).  `dominated` additionally closes
        the set under bool hoisting."""
        es = EdgeSet((bi, tgt) for bi, tgt, a in self.atoms() if pred(a))
        es.pred = pred
        return es

    def closed(self, es):
        pred = getattr(es, "pred", None)
        if pred is None:
            return set(es)

        def dpred(e, rendered, want):
            try:
                return any(pred(a) for a in self.edge_atoms(self.x(e), {want}))
            except Exception:
                return False
        try:
            return self.b.derive_edges(set(es), dpred)
        except Exception:
            return set(es)

    def dominated(self, bb, edges, start=0):
        es = self.closed(edges)
        return bool(es) and self.b.must_pass_edges(bb, es, start)

    def guards(self, bb):
        """Atoms that hold on every path to bb (dominating switches with a restricted label set)."""
        out = []
        for text, labels, sw, cond in self.b.guards_on_all_paths(bb):
            s = self.switch(sw)
            if not s:
                continue
            c, labs = s
            allowed = set()
            for tgt, ls in labs.items():
                if bb in self.b.reachable([tgt], blocked_nodes=[sw]) or tgt == bb:
                    allowed |= ls
            out.extend(self.edge_atoms(c, allowed))
        return out


class EdgeSet(set):
    pred = None

    def __or__(self, o):
        r = EdgeSet(set.__or__(self, o))
        p1, p2 = self.pred, getattr(o, "pred", None)
        r.pred = (lambda a: (p1 is not None and p1(a)) or (p2 is not None and p2(a))) if (p1 or p2) else None
        return r


def _as_cmp(c):
    """(op, x, y) if canonical expr c is a comparison, looking through Not."""
    neg = False
    while c[0] == "un" and c[1] == "Not":
        neg = not neg
        c = c[2]
    if c[0] == "bin" and c[1] in NEG:
        return (NEG[c[1]] if neg else c[1], c[2], c[3]), None
    if c[0] == "call" and len(c[2]) == 2:
        m = CMPCALL.search(strip_generics(c[1]))
        if m:
            op = m.group(1).capitalize()
            return (NEG[op] if neg else op, c[2][0], c[2][1]), None
    return None, (c, neg)


def atoms_of(c, labels):
    """Normal-form facts implied by canonical condition c taking an edge whose label set is `labels`."""
    labels = set(labels)
    out = []
    if c[0] == "discr":
        vs = frozenset(l for l in labels if isinstance(l, str))
        if vs:
            out.append(("var", render(c[1]), vs))
        return out
    if labels <= {"true", "false"} and len(labels) == 1:
        truth = "true" in labels
        cmp_, rest = _as_cmp(c)
        if cmp_:
            op, x, y = cmp_
            if not truth:
                op = NEG[op]
            out.append(("rel", op, render(x), render(y)))
            return out
        e, neg = rest
        if neg:
            truth = not truth
        if e[0] == "call" and len(e[2]) == 1:
            n = strip_generics(e[1])
            m = IS_CALL.search(n)
            if m:
                pos = {"Option::is_some": "Some", "Option::is_none": "None", "Result::is_ok": "Ok", "Result::is_err": "Err"}[m.group(1)]
                other = {"Some": "None", "None": "Some", "Ok": "Err", "Err": "Ok"}[pos]
                out.append(("var", render(e[2][0]), frozenset({pos if truth else other})))
                return out
            if EMPTY_CALL.search(n):
                ln = LEN_OF.get(n, n[:-len("is_empty")] + "len")
                out.append(("rel", "Eq" if truth else "Ne", "%s(%s)" % (ln, render(e[2][0])), "0"))
                return out
        out.append(("bool", render(e), truth))
        return out
    if labels and all(isinstance(l, int) for l in labels) and len(labels) == 1:
        out.append(("rel", "Eq", render(c), str(next(iter(labels)))))
    elif labels:
        out.append(("int", render(c), frozenset(labels)))
    return out


def rel_pred(xpat, ypat, want):
    xr, yr = re.compile(xpat), re.compile(ypat)

    def p(a):
        if a[0] != "rel":
            return False
        _, op, x, y = a
        if xr.search(x) and yr.search(y) and want in IMPLIES[op]:
            return True
        if xr.search(y) and yr.search(x) and want in IMPLIES[FLIP[op]]:
            return True
        return False
    return p


def _interval(op, k):
    inf = float("inf")
    return {"Lt": (-inf, k - 1), "Le": (-inf, k), "Gt": (k + 1, inf), "Ge": (k, inf), "Eq": (k, k)}.get(op)


def const_pred(xpat, want, c):
    """x `want` c for the integer constant c, implied by a comparison of x with any integer constant."""
    xr = re.compile(xpat)

    def p(a):
        if a[0] != "rel":
            return False
        _, op, x, y = a
        for o, l, r in ((op, x, y), (FLIP[op], y, x)):
            if xr.search(l) and re.match(r"^-?\d+$", r):
                k = int(r)
                if o == "Ne":
                    return want == "Ne" and k == c
                lo, hi = _interval(o, k)
                if want == "Ge" and lo >= c or want == "Gt" and lo > c or want == "Le" and hi <= c or want == "Lt" and hi < c or \
                        want == "Eq" and lo == hi == c or want == "Ne" and (hi < c or lo > c):
                    return True
        return False
    return p


def var_pred(epat, variants):
    er = re.compile(epat)
    variants = set(variants)

    def p(a):
        return a[0] == "var" and er.search(a[1]) is not None and a[2] <= variants
    return p


def bool_pred(epat, truth=True):
    er = re.compile(epat)

    def p(a):
        return a[0] == "bool" and a[2] == truth and er.search(a[1]) is not None
    return p


def result_edges(cx, call_bb):
    """(ok_edges, err_edges) of the switch(es) on the Result/Option produced by the call in block call_bb — `?`, `match`, `if let`,
    `let else`, is_ok()/is_some() tests are all recognised."""
    ok, err = set(), set()
    for bi in cx.b.live:
        info = cx.b.switch_info(bi)
        if not info:
            continue
        cond = info[0]
        c = cond
        while c[0] == "un" and c[1] == "Not":
            c = c[2]
        inner = None
        if c[0] == "discr":
            inner = c[1]
        elif c[0] == "call" and IS_CALL.search(strip_generics(c[1])) and c[2]:
            inner = c[2][0]
        if inner is None:
            continue
        # peel Try::branch and transparent wrappers
        while inner[0] == "call" and inner[2] and (TRY.search(strip_generics(inner[1])) or (len(inner[2]) == 1 and TRANSPARENT.search(strip_generics(inner[1])))) and inner[3] != call_bb:
            inner = inner[2][0]
        if not (inner[0] == "call" and inner[3] == call_bb):
            continue
        sw = cx.switch(bi)
        for tgt, ls in sw[1].items():
            for a in atoms_of(sw[0], ls):
                if a[0] == "var":
                    if a[2] <= {"Ok", "Some"}:
                        ok.add((bi, tgt))
                    elif a[2] <= {"Err", "None"}:
                        err.add((bi, tgt))
    return ok, err


def deep_calls(cx, callee_pat, recv_pat=None):
    """Call sites of `callee_pat` (optionally with a first argument matching recv_pat) in cx's body, *or one level down* in a
    crate-local helper called from it.  Returns list of (site in cx.b, canonical args in cx's frame, (min, max) occurrences per
    execution of that site: (1, 1) for a direct call, the path count inside the helper otherwise, callee name)."""
    from . import lib as _lib
    crx = re.compile(callee_pat)
    rrx = re.compile(recv_pat) if recv_pat else None
    out = []
    for s in cx.b.call_sites():
        n = strip_generics(cx.b.call_name(s.term))
        if TRANSPARENT.search(n):
            continue
        a = cx.args(s)
        if crx.search(n):
            if rrx is None or (a and rrx.search(render(a[0]))):
                out.append((s, a, (1, 1), n))
            continue
        hc = cx.helper(("call", cx.b.call_name(s.term), tuple(a), s.bb))
        if hc is None:
            continue
        groups = {}
        for hs in hc.b.call_sites():
            hn = strip_generics(hc.b.call_name(hs.term))
            if not crx.search(hn):
                continue
            ha = hc.args(hs)
            if rrx is None or (ha and rrx.search(render(ha[0]))):
                groups.setdefault((hn, tuple(render(x) for x in ha)), []).append((hs, ha))
        for (hn, _), lst in groups.items():
            got = _lib.count_range(hc.b, [0], hc.b.return_blocks(), [x[0].bb for x in lst])
            out.append((s, lst[0][1], got or (0, 0), hn))
    return out


def counter_profile(cx, l):
    """sorted canonical renders of the whole definitions of local l with the local itself written `#`."""
    return sorted(r for _, r in cx.defs(l))


def locals_in(e):
    return [s[1] for s in mir.walk(e) if s[0] == "local"]


def locals_compared_with(cx, ypat):
    """multi-def locals that some switch compares with an operand whose canonical render matches ypat."""
    yr = re.compile(ypat)
    out = []
    for bi in sorted(cx.b.live):
        sw = cx.switch(bi)
        if not sw:
            continue
        cmp_, _ = _as_cmp(sw[0])
        if not cmp_:
            continue
        _, x, y = cmp_
        for u, v in ((x, y), (y, x)):
            if yr.search(render(v)):
                for l in locals_in(u):
                    if l not in out:
                        out.append(l)
    return out


# ------------------------------------------------------------------------------------------------ finite-partition evaluation
class VarDim:
    def __init__(self, name, pat, domain):
        self.name, self.rx, self.domain = name, re.compile(pat), list(domain)


class BoolDim:
    def __init__(self, name, pat):
        self.name, self.rx, self.domain = name, re.compile(pat), [True, False]


class NumDim:
    """numeric expression compared with integer constants; classes = intervals induced by `consts` plus every constant the code
    compares the expression with."""
    def __init__(self, name, pat, consts=(), lo=0):
        self.name, self.rx, self.consts, self.lo = name, re.compile(pat), set(consts), lo
        self.domain = []

    def finish(self):
        inf = float("inf")
        cs = sorted(c for c in self.consts if c >= self.lo)
        dom, cur = [], self.lo
        for c in cs:
            if cur <= c - 1:
                dom.append((cur, c - 1))
            dom.append((c, c))
            cur = c + 1
        dom.append((cur, inf))
        self.domain = dom


class Cells:
    def __init__(self, cx, dims, value_transparent=r"Option::take$|mem::take$|mem::replace$"):
        self.cx, self.b, self.dims = cx, cx.b, dims
        self.vt = re.compile(value_transparent)
        self.unknown = set()
        self.multi = {l for l, ds in self.b.defs.items() if isinstance(l, int) and len(ds) > 1}
        # collect constants for numeric dims
        for bi, tgt, a in cx.atoms():
            if a[0] == "rel":
                for x, y in ((a[2], a[3]), (a[3], a[2])):
                    if re.match(r"^-?\d+$", y):
                        for d in dims:
                            if isinstance(d, NumDim) and d.rx.search(x):
                                d.consts.add(int(y))
        for d in dims:
            if isinstance(d, NumDim):
                d.finish()

    def cells(self):
        names = [d.name for d in self.dims]
        for combo in itertools.product(*[d.domain for d in self.dims]):
            yield dict(zip(names, combo))

    # truth of one atom in a cell: True / False / None (not modelled)
    def eval_atom(self, a, cell):
        if a[0] == "var":
            for d in self.dims:
                if isinstance(d, VarDim) and d.rx.search(a[1]):
                    return cell[d.name] in a[2]
            return None
        if a[0] == "bool":
            for d in self.dims:
                if isinstance(d, BoolDim) and d.rx.search(a[1]):
                    return cell[d.name] == a[2]
            return None
        if a[0] == "rel":
            _, op, x, y = a
            for o, l, r in ((op, x, y), (FLIP[op], y, x)):
                if re.match(r"^-?\d+$", r):
                    k = int(r)
                    for d in self.dims:
                        if isinstance(d, NumDim) and d.rx.search(l):
                            lo, hi = cell[d.name]
                            if o == "Eq":
                                return lo == hi == k
                            if o == "Ne":
                                return not (lo == hi == k)
                            ilo, ihi = _interval(o, k)
                            if lo >= ilo and hi <= ihi:
                                return True
                            if hi < ilo or lo > ihi:
                                return False
                            return None
            for d in self.dims:
                if isinstance(d, BoolDim) and (d.rx.search("%s(%s, %s)" % (op, x, y))):
                    return cell[d.name]
                if isinstance(d, BoolDim) and (d.rx.search("%s(%s, %s)" % (NEG[op], x, y))):
                    return not cell[d.name]
            return None
        return None

    def _env_value(self, e, env):
        """canonical expression of e with multi-def locals replaced by their last definition on the path (value-transparent
        wrappers like Option::take looked through)."""
        cx = self.cx
        for _ in range(8):
            if e[0] == "call" and e[2] and self.vt.search(strip_generics(e[1])):
                e = e[2][0]
                continue
            if e[0] == "local" and e[1] in env:
                d = env[e[1]]
                raw = self.b.rvalue_expr(self.b.blocks[d[1]]["stmts"][d[2]]["r"]) if d[0] == "stmt" else self.b.call_expr(self.b.blocks[d[1]]["term"], d[1])
                e = cx.x(raw)
                continue
            break
        return e

    def _decide(self, bb, cell, env):
        """Feasible successor blocks of switch block bb in this cell / path environment."""
        sw = self.cx.switch(bb)
        c, labs = sw
        # environment evaluation (flags, Option-valued locals)
        inner = c[1] if c[0] == "discr" else c
        neg = False
        while inner[0] == "un" and inner[1] == "Not":
            neg = not neg
            inner = inner[2]
        probe = inner
        while probe[0] == "call" and probe[2] and self.vt.search(strip_generics(probe[1])):
            probe = probe[2][0]
        if probe[0] == "local" and probe[1] in env:
            v = self._env_value(inner, env)
            if c[0] == "discr" and v[0] == "agg" and v[1] == "adt" and v[3]:
                return [t for t, ls in labs.items() if v[3] in ls]
            if c[0] != "discr":
                tv = self._truth(v, cell, env)
                if tv is not None:
                    want = "true" if (tv != neg) else "false"
                    return [t for t, ls in labs.items() if want in ls]
        out = []
        modelled = False
        for tgt, ls in labs.items():
            ats = atoms_of(c, ls)
            verdicts = [self.eval_atom(a, cell) for a in ats]
            if any(v is not None for v in verdicts):
                modelled = True
            if any(v is False for v in verdicts):
                continue
            out.append(tgt)
        if not modelled and not self.cx.noise(bb):
            self.unknown.add(render(c)[:160])
        return out

    def _truth(self, v, cell, env, depth=0):
        if depth > 10:
            return None
        if v[0] == "const" and v[1] in (0, 1):
            return bool(v[1])
        if v[0] == "un" and v[1] == "Not":
            t = self._truth(v[2], cell, env, depth + 1)
            return None if t is None else not t
        if v[0] == "local" and v[1] in env:
            return self._truth(self._env_value(v, env), cell, env, depth + 1)
        if v[0] == "bin" and v[1] in ("BitAnd", "BitOr"):
            a, b = self._truth(v[2], cell, env, depth + 1), self._truth(v[3], cell, env, depth + 1)
            if v[1] == "BitAnd":
                return False if (a is False or b is False) else (True if a and b else None)
            return True if (a or b) else (False if (a is False and b is False) else None)
        ats = atoms_of(v, {"true"})
        vs = [self.eval_atom(a, cell) for a in ats]
        if vs and all(x is True for x in vs):
            return True
        if any(x is False for x in vs):
            return False
        return None

    def run(self, cell, starts, result_bbs, budget=200000):
        """Graph search over (block, env) from `starts`; stops at result blocks.  Returns list of (result_bb | None, env)."""
        results = []
        seen = set()
        stack = [(s, ()) for s in starts]
        n = 0
        while stack:
            b, envt = stack.pop()
            if (b, envt) in seen:
                continue
            seen.add((b, envt))
            n += 1
            if n > budget:
                raise mir.RuleError("cell budget exceeded in %s" % self.b.npath)
            env = dict(envt)
            blk = self.b.blocks[b]
            ch = False
            for si, st in enumerate(blk["stmts"]):
                if st["k"] == "assign" and "pr" not in st["p"] and st["p"]["l"] in self.multi:
                    env[st["p"]["l"]] = ("stmt", b, si)
                    ch = True
            t = blk["term"]
            if t and t["k"] == "call" and "pr" not in t["d"] and t["d"]["l"] in self.multi:
                env[t["d"]["l"]] = ("call", b, None)
                ch = True
            if ch:
                envt = tuple(sorted(env.items()))
            if b in result_bbs:
                results.append((b, env))
                continue
            if t and t["k"] == "switch":
                nxt = self._decide(b, cell, env)
            else:
                nxt = self.b.succ[b]
                if not nxt and t and t["k"] == "return":
                    results.append((None, env))
            for s2 in nxt:
                stack.append((s2, envt))
        return results

    def env_expr(self, e, env):
        """canonical expression e with multi-def locals resolved to their last definition on the path"""
        return self._env_value(e, env)


# ------------------------------------------------------------------------------------------------ legacy helpers (raw renders)
def edge_facts(body):
    """For every comparison switch: list of (bb, tgt, op, lhs_expr, rhs_expr) meaning `lhs op rhs` holds on edge bb->tgt."""
    out = []
    for bi in sorted(body.live):
        info = body.switch_info(bi)
        if not info:
            continue
        cond, labs = info
        if cond[0] != "bin" or cond[1] not in NEG:
            continue
        for tgt, ls in labs.items():
            if ls == {"true"}:
                out.append((bi, tgt, cond[1], cond[2], cond[3]))
            elif ls == {"false"}:
                out.append((bi, tgt, NEG[cond[1]], cond[2], cond[3]))
    return out


def le_edges(body, x_pat, y_pat, facts=None):
    """Edges on which `x <= y` is known (x < y included), x / y given as regexes on rendered operands."""
    xr, yr = re.compile(x_pat), re.compile(y_pat)
    out = set()
    for bi, tgt, op, a, b in facts if facts is not None else edge_facts(body):
        ra, rb = render(a), render(b)
        if op in ("Le", "Lt") and xr.search(ra) and yr.search(rb):
            out.add((bi, tgt))
        if op in ("Ge", "Gt") and xr.search(rb) and yr.search(ra):
            out.add((bi, tgt))
    return out


def ge_const_edges(body, x_pat, c, facts=None):
    """Edges on which x >= c is known for the integer constant c (x >= c', c' >= c accepted)."""
    xr = re.compile(x_pat)
    out = set()
    for bi, tgt, op, a, b in facts if facts is not None else edge_facts(body):
        for o, l, r in ((op, a, b), (FLIP[op], b, a)):
            if xr.search(render(l)) and r[0] == "const" and isinstance(r[1], int):
                if (o == "Ge" and r[1] >= c) or (o == "Gt" and r[1] >= c - 1):
                    out.add((bi, tgt))
    return out
