"""K14 FIXTURE loader: MIR facts of /verif/fixtures/derive_fixture compiled against the *current* $VERIF_REPO.

The fixture crate contains `#[derive(NetworkBehaviour)]` structs; swarm-derive is a proc-macro crate, so the code it
generates only exists in the crates that use it.  Every call

  * materialises a build copy of the fixture under the cache (`<cache>/derive_fixture/`): `src/` is copied from
    /verif/fixtures/derive_fixture (files are rewritten only when their content changed, so cargo's mtime-based
    freshness is preserved), `Cargo.toml` is generated from `Cargo.toml.in` with path-dependencies on `<repo>/swarm`
    (feature `macros`) and `<repo>/core`, and the repo's `Cargo.lock` is copied so that `--offline` resolution picks the
    workspace's versions (re-copied only when the repo's lock file changed);
  * runs `cargo +nightly check --offline` *in that directory* with the mirfacts driver as RUSTC_WORKSPACE_WRAPPER and an
    own target dir (`<cache>/target-fixture`): the fixture is the only workspace member there, so only it is
    instrumented; cargo rebuilds libp2p-swarm-derive -> libp2p-swarm -> derive-fixture whenever the repo sources
    changed, which re-runs the driver and overwrites the fact file;
  * fact files are keyed by cargo's metadata hash (`facts-fixture/derive_fixture-<hash>.json`).  "fresh => driver
    skipped": a fresh unit keeps its earlier file; a missing file (or one older than a non-fresh build) is repaired once
    by dropping the fixture's fingerprints and re-checking, and is a hard error (FactError, fail closed) after that;
    a changed driver binary invalidates the fixture facts.
"""
import fcntl
import hashlib
import json
import os
import shutil
import subprocess
import time

from . import facts, mir

FIXTURE_SRC = os.path.join(facts.VERIF, "fixtures", "derive_fixture")
CRATE = "derive_fixture"
PKG = "derive-fixture"


def _write_if_changed(path, data):
    if os.path.exists(path):
        with open(path, "rb") as f:
            if f.read() == data:
                return False
    os.makedirs(os.path.dirname(path), exist_ok=True)
    tmp = path + ".tmp%d" % os.getpid()
    with open(tmp, "wb") as f:
        f.write(data)
    os.replace(tmp, path)
    return True


def _materialise(repo, build_dir):
    with open(os.path.join(FIXTURE_SRC, "Cargo.toml.in")) as f:
        toml = f.read().replace("@REPO@", repo)
    _write_if_changed(os.path.join(build_dir, "Cargo.toml"), toml.encode())
    src = os.path.join(FIXTURE_SRC, "src")
    wanted = set()
    for root, _, files in os.walk(src):
        for fn in files:
            p = os.path.join(root, fn)
            rel = os.path.relpath(p, FIXTURE_SRC)
            wanted.add(rel)
            with open(p, "rb") as f:
                _write_if_changed(os.path.join(build_dir, rel), f.read())
    # remove stale source files of an older fixture version
    for root, _, files in os.walk(os.path.join(build_dir, "src")):
        for fn in files:
            rel = os.path.relpath(os.path.join(root, fn), build_dir)
            if rel not in wanted:
                os.remove(os.path.join(root, fn))
    # lock file: follow the repo's
    lock = os.path.join(repo, "Cargo.lock")
    if not os.path.exists(lock):
        raise facts.FactError("fixture: %s has no Cargo.lock" % repo)
    with open(lock, "rb") as f:
        data = f.read()
    h = hashlib.sha256(data).hexdigest()
    hp = os.path.join(build_dir, "REPO_LOCK_SHA")
    old = open(hp).read().strip() if os.path.exists(hp) else None
    if old != h or not os.path.exists(os.path.join(build_dir, "Cargo.lock")):
        with open(os.path.join(build_dir, "Cargo.lock"), "wb") as f:
            f.write(data)
        with open(hp, "w") as f:
            f.write(h)


def _cargo_check(build_dir, env):
    cmd = ["cargo", "+nightly", "check", "--offline", "--message-format=json"]
    r = subprocess.run(cmd, cwd=build_dir, env=env, capture_output=True, text=True)
    art = None
    for line in r.stdout.splitlines():
        if not line.startswith("{"):
            continue
        try:
            m = json.loads(line)
        except ValueError:
            continue
        if m.get("reason") != "compiler-artifact" or m["target"].get("name") != CRATE:
            continue
        if "custom-build" in m["target"].get("kind", []):
            continue
        for fn in m.get("filenames", []):
            base = os.path.basename(fn)
            if base.startswith("lib" + CRATE + "-"):
                art = {"hash": base[3:].rsplit(".", 1)[0].rsplit("-", 1)[1], "fresh": m.get("fresh", False)}
    if r.returncode != 0:
        raise facts.FactError("fixture: cargo check of derive_fixture failed (does the derive expansion still compile?):\n" + r.stderr[-5000:])
    if art is None:
        raise facts.FactError("fixture: cargo reported no artifact for derive_fixture:\n" + r.stderr[-2000:])
    return art


def _drop_fingerprints(target_dir):
    fp = os.path.join(target_dir, "debug", ".fingerprint")
    if os.path.isdir(fp):
        for d in os.listdir(fp):
            if d.rsplit("-", 1)[0] == PKG:
                shutil.rmtree(os.path.join(fp, d), ignore_errors=True)


def ensure_fixture_facts(repo=None):
    """Returns {'derive_fixture': fact file}; the facts describe the expansion produced by repo's swarm-derive now."""
    repo = os.path.abspath(repo or facts.REPO)
    cache = facts.CACHE
    os.makedirs(cache, exist_ok=True)
    build_dir = os.path.join(cache, "derive_fixture")
    target_dir = os.path.join(cache, "target-fixture")
    facts_dir = os.path.join(cache, "facts-fixture")
    lock = open(os.path.join(cache, "lock"), "w")
    fcntl.flock(lock, fcntl.LOCK_EX)
    try:
        facts.build_driver()
        env = facts._env(target_dir, facts_dir)
        sha = facts._driver_sha()
        sha_file = os.path.join(facts_dir, "DRIVER_SHA")
        old = open(sha_file).read().strip() if os.path.exists(sha_file) else None
        if old != sha:
            shutil.rmtree(facts_dir, ignore_errors=True)
            _drop_fingerprints(target_dir)
        os.makedirs(facts_dir, exist_ok=True)
        with open(sha_file, "w") as f:
            f.write(sha)
        _materialise(repo, build_dir)
        t0 = time.time()
        art = _cargo_check(build_dir, env)
        p = os.path.join(facts_dir, "%s-%s.json" % (CRATE, art["hash"]))
        if not os.path.exists(p) or (not art["fresh"] and os.path.getmtime(p) < t0 - 1):
            _drop_fingerprints(target_dir)
            t0 = time.time()
            art = _cargo_check(build_dir, env)
            p = os.path.join(facts_dir, "%s-%s.json" % (CRATE, art["hash"]))
            if not os.path.exists(p) or os.path.getmtime(p) < t0 - 1:
                raise facts.FactError("fixture: fact file %s missing after re-check (driver skipped?)" % p)
        return {CRATE: p}
    finally:
        fcntl.flock(lock, fcntl.LOCK_UN)
        lock.close()


def program(repo=None):
    """A mir.Program over the fixture crate."""
    return mir.Program(ensure_fixture_facts(repo))


if __name__ == "__main__":
    import re
    import sys

    from . import show
    prog = program()
    pat = sys.argv[1] if len(sys.argv) > 1 else "."
    if len(sys.argv) > 2:
        mir.RENDER_MAX[0] = int(sys.argv[2])
    for b in prog.find(CRATE, pat):
        show.show(b)
