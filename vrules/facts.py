"""Fact extraction: run the mirfacts driver over /repo's working tree and load the JSON facts.

Every call re-runs `cargo +nightly check` (cargo decides which crates are stale from the
sources), so facts always describe /repo's current working tree.  A crate that cargo reports
fresh keeps its earlier fact file; a missing fact file is repaired once by dropping that
package's fingerprints and re-checking, and is a hard error after that.
"""
import fcntl
import glob
import hashlib
import json
import os
import pickle
import shutil
import subprocess
import sys
import time

VERIF = os.path.dirname(os.path.dirname(os.path.abspath(__file__)))
REPO = os.environ.get("VERIF_REPO", "/repo")
CACHE = os.environ.get("VERIF_CACHE", os.path.join(VERIF, ".cache"))
DRIVER_DIR = os.path.join(VERIF, "driver")
DRIVER_BIN = os.path.join(DRIVER_DIR, "target", "debug", "mirfacts")

PACKAGES = [
    "libp2p-swarm", "libp2p-swarm-derive", "multistream-select", "libp2p-noise", "libp2p-tls",
    "libp2p-plaintext", "libp2p-pnet", "libp2p-identity", "libp2p-core", "libp2p-dns",
    "libp2p-mplex", "libp2p-yamux", "libp2p-gossipsub", "prost-codec", "libp2p-kad",
    "libp2p-request-response", "libp2p-identify", "libp2p-relay", "libp2p-autonat",
    "libp2p-rendezvous", "libp2p-connection-limits", "libp2p-allow-block-list",
    "libp2p-peer-store", "libp2p-mdns", "libp2p-webrtc-utils",
]


class FactError(Exception):
    pass


def _env(target_dir, facts_dir):
    env = dict(os.environ)
    sysroot = subprocess.check_output(["rustc", "+nightly", "--print", "sysroot"], text=True).strip()
    env["LD_LIBRARY_PATH"] = sysroot + "/lib:" + env.get("LD_LIBRARY_PATH", "")
    env["MIRFACTS_OUT"] = facts_dir
    env["RUSTFLAGS"] = "-Zmir-opt-level=0 -Awarnings"
    env["RUSTC_WORKSPACE_WRAPPER"] = DRIVER_BIN
    env["CARGO_TARGET_DIR"] = target_dir
    env["CARGO_NET_OFFLINE"] = "true"
    env.pop("RUSTC_WRAPPER", None)
    return env


def build_driver(force=False):
    srcs = [os.path.join(DRIVER_DIR, "src", "main.rs"), os.path.join(DRIVER_DIR, "Cargo.toml")]
    if not force and os.path.exists(DRIVER_BIN):
        if all(os.path.getmtime(s) <= os.path.getmtime(DRIVER_BIN) for s in srcs):
            return
    env = dict(os.environ)
    env["CARGO_NET_OFFLINE"] = "true"
    r = subprocess.run(["cargo", "+nightly", "build", "--offline"], cwd=DRIVER_DIR, env=env,
                       capture_output=True, text=True)
    if r.returncode != 0:
        raise FactError("driver build failed:\n" + r.stderr[-4000:])


def _driver_sha():
    h = hashlib.sha256()
    with open(DRIVER_BIN, "rb") as f:
        h.update(f.read())
    return h.hexdigest()


def _cargo_check(repo, packages, env, features=None):
    cmd = ["cargo", "+nightly", "check", "--offline", "--message-format=json"]
    for p in packages:
        cmd += ["-p", p]
    if features:
        cmd += ["--features", features]
    r = subprocess.run(cmd, cwd=repo, env=env, capture_output=True, text=True)
    arts = {}
    for line in r.stdout.splitlines():
        if not line.startswith("{"):
            continue
        try:
            m = json.loads(line)
        except ValueError:
            continue
        if m.get("reason") != "compiler-artifact":
            continue
        tgt = m["target"]
        if not m.get("manifest_path", "").startswith(repo + "/"):
            continue
        kinds = tgt.get("kind", [])
        if "custom-build" in kinds:
            continue
        for fn in m.get("filenames", []):
            base = os.path.basename(fn)
            if base.startswith("lib") and "-" in base:
                stem = base[3:].rsplit(".", 1)[0]
                cname, h = stem.rsplit("-", 1)
                arts[cname] = {"hash": h, "fresh": m.get("fresh", False),
                               "package": m["package_id"], "name": tgt["name"]}
                break
    if r.returncode != 0:
        raise FactError("cargo check failed (the tree does not compile?):\n" + r.stderr[-6000:])
    return arts


def ensure_facts(config="default", packages=None, features=None, repo=None):
    """Returns {crate_name: fact_file_path}; facts reflect repo's working tree now."""
    repo = repo or REPO
    packages = packages or PACKAGES
    os.makedirs(CACHE, exist_ok=True)
    target_dir = os.path.join(CACHE, "target" if config == "default" else "target-" + config)
    facts_dir = os.path.join(CACHE, "facts" if config == "default" else "facts-" + config)
    # the driver build is serialised globally (short); fact extraction is serialised per configuration (= per target dir)
    glock = open(os.path.join(CACHE, "lock"), "w")
    fcntl.flock(glock, fcntl.LOCK_EX)
    try:
        build_driver()
    finally:
        fcntl.flock(glock, fcntl.LOCK_UN)
        glock.close()
    lock = open(os.path.join(CACHE, "lock" if config == "default" else "lock-" + config), "w")
    fcntl.flock(lock, fcntl.LOCK_EX)
    try:
        env = _env(target_dir, facts_dir)
        sha = _driver_sha()
        sha_file = os.path.join(facts_dir, "DRIVER_SHA")
        old = open(sha_file).read().strip() if os.path.exists(sha_file) else None
        if old != sha:
            # driver changed: all workspace facts are stale
            shutil.rmtree(facts_dir, ignore_errors=True)
            _drop_fingerprints(target_dir, None)
        os.makedirs(facts_dir, exist_ok=True)
        with open(sha_file, "w") as f:
            f.write(sha)
        t0 = time.time()
        arts = _cargo_check(repo, packages, env, features)
        out = {}
        missing = []
        for cname, a in arts.items():
            p = os.path.join(facts_dir, "%s-%s.json" % (cname, a["hash"]))
            if not os.path.exists(p) or (not a["fresh"] and os.path.getmtime(p) < t0 - 1):
                missing.append(cname)
            out[cname] = p
        if missing:
            _drop_fingerprints(target_dir, missing)
            arts = _cargo_check(repo, packages, env, features)
            for cname, a in arts.items():
                p = os.path.join(facts_dir, "%s-%s.json" % (cname, a["hash"]))
                out[cname] = p
            still = [c for c in out if not os.path.exists(out[c])]
            if still:
                raise FactError("fact files missing after re-check: %s" % still)
        return out
    finally:
        fcntl.flock(lock, fcntl.LOCK_UN)
        lock.close()


def _drop_fingerprints(target_dir, crate_names):
    fp = os.path.join(target_dir, "debug", ".fingerprint")
    if not os.path.isdir(fp):
        return
    for d in os.listdir(fp):
        pkg = d.rsplit("-", 1)[0]
        norm = pkg.replace("-", "_")
        if crate_names is None:
            if pkg.startswith("libp2p") or pkg in ("multistream-select", "prost-codec", "rw-stream-sink",
                                                    "derive-fixture", "derive_fixture"):
                shutil.rmtree(os.path.join(fp, d), ignore_errors=True)
        elif norm in crate_names:
            shutil.rmtree(os.path.join(fp, d), ignore_errors=True)


_loaded = {}


def load_crate(path):
    """Load one fact file (pickle-cached by mtime)."""
    st = os.stat(path)
    key = (path, st.st_mtime_ns, st.st_size)
    if key in _loaded:
        return _loaded[key]
    pk = path + ".pkl"
    data = None
    if os.path.exists(pk):
        try:
            with open(pk, "rb") as f:
                k, data = pickle.load(f)
            if k != (st.st_mtime_ns, st.st_size):
                data = None
        except Exception:
            data = None
    if data is None:
        with open(path) as f:
            data = json.load(f)
        try:
            tmp = pk + ".%d" % os.getpid()
            with open(tmp, "wb") as f:
                pickle.dump(((st.st_mtime_ns, st.st_size), data), f, protocol=pickle.HIGHEST_PROTOCOL)
            os.replace(tmp, pk)
        except Exception:
            pass
    _loaded[key] = data
    return data


if __name__ == "__main__":
    t = time.time()
    m = ensure_facts()
    for k in sorted(m):
        print(k, m[k])
    print("%.1fs" % (time.time() - t), file=sys.stderr)
