"""Program model over mirfacts JSON: bodies, CFG utilities, expression reconstruction.

All graph algorithms work on the *normal* CFG: cleanup blocks and unwind edges are dropped,
`falseedge` follows the real target, `falseunwind` likewise, `yield` resumes (its drop edge is
ignored), `drop`/`assert`/`call` continue at their normal target.
"""
import re
from collections import defaultdict, deque

from . import facts as _facts

_GEN = re.compile(r"::<")


def strip_generics(p):
    """Remove generic argument lists (`::<..>` and `Type<..>`), keeping qualified-self paths
    `<T as Trait>` (with their inner generics stripped)."""
    out = []
    i = 0
    n = len(p)
    while i < n:
        c = p[i]
        if c == "<":
            # find matching '>'
            depth = 0
            j = i
            while j < n:
                if p[j] == "<":
                    depth += 1
                elif p[j] == ">" and not (j > 0 and p[j - 1] == "-"):
                    depth -= 1
                    if depth == 0:
                        break
                j += 1
            inner = p[i + 1:j]
            # qualified self path?  top-level " as "
            d = 0
            is_q = False
            for k in range(len(inner)):
                if inner[k] == "<":
                    d += 1
                elif inner[k] == ">" and not (k > 0 and inner[k - 1] == "-"):
                    d -= 1
                elif d == 0 and inner.startswith(" as ", k):
                    is_q = True
                    break
            at_start = (i == 0) or p[i - 1] in ":( ,&[" and not (i >= 2 and p[i - 2:i] == "::" and out and out[-1] == ":" and False)
            if inner.startswith("impl ") and " for " in inner and i >= 2 and p[i - 2:i] == "::" and "::" not in p[:i - 2]:
                # `<crate>::<impl Trait for Type>::item` of a workspace crate: keep, otherwise the path collapses
                is_q = True
            if is_q and (i == 0 or p[i - 2:i] == "::" or p[i - 1] in "( ,&["):
                out.append("<" + strip_generics(inner) + ">")
            else:
                # generic args: drop, also drop a preceding '::'
                if len(out) >= 2 and out[-1] == ":" and out[-2] == ":":
                    out.pop()
                    out.pop()
            i = j + 1
            continue
        out.append(c)
        i += 1
    return "".join(out)


class RuleError(Exception):
    """Raised when an anchor cannot be found (fail closed)."""


# ----------------------------------------------------------------------------- expressions
# Expression nodes are tuples; first element is the tag.
#   ('arg', i, name) ('local', l, name) ('const', value, text) ('str', s) ('fn', path) ('static', path)
#   ('namedconst', defpath, value)
#   ('call', fnpath, (args...), bb) ('bin', op, a, b) ('un', op, a) ('cast', e, ty)
#   ('field', base, name, owner) ('downcast', base, variant) ('index', base, idx) ('cindex', base, off, from_end)
#   ('discr', e) ('agg', kind, adt, variant, ((fname, e)...)) ('closure', def, (upvars...))
#   ('upvar', name) ('unknown', text)

RENDER_MAX = [14]


def render(e, depth=0):
    if depth > RENDER_MAX[0]:
        return "…"
    t = e[0]
    d = depth + 1
    if t == "arg":
        return e[2] or ("arg%d" % e[1])
    if t == "local":
        return e[2] or ("_%d" % e[1])
    if t == "const":
        return str(e[1]) if e[1] is not None else e[2]
    if t == "str":
        return repr(e[1])
    if t == "fn":
        return "fn:" + strip_generics(e[1])
    if t == "static":
        return "static:" + e[1]
    if t == "namedconst":
        return "const:" + e[1]
    if t == "call":
        return "%s(%s)" % (strip_generics(e[1]), ", ".join(render(a, d) for a in e[2]))
    if t == "bin":
        return "%s(%s, %s)" % (e[1], render(e[2], d), render(e[3], d))
    if t == "un":
        return "%s(%s)" % (e[1], render(e[2], d))
    if t == "cast":
        return "(%s as %s)" % (render(e[1], d), e[2])
    if t == "field":
        return "%s.%s" % (render(e[1], d), e[2])
    if t == "downcast":
        return "%s@%s" % (render(e[1], d), e[2])
    if t == "index":
        return "%s[%s]" % (render(e[1], d), render(e[2], d))
    if t == "cindex":
        return "%s[%s%d]" % (render(e[1], d), "-" if e[3] else "", e[2])
    if t == "discr":
        return "discr(%s)" % render(e[1], d)
    if t == "agg":
        name = strip_generics(e[2] or e[1])
        if e[3] and e[1] == "adt":
            name += "::" + e[3]
        return "%s{%s}" % (name, ", ".join("%s: %s" % (f, render(x, d)) for f, x in e[4]))
    if t == "closure":
        return "closure:%s[%s]" % (e[1], ", ".join(render(x, d) for x in e[2]))
    if t == "upvar":
        return "^" + e[1]
    if t == "phi":
        return "phi(%s)" % " | ".join(render(x, d) for x in e[2])
    return e[1] if len(e) > 1 else "?"


def walk(e):
    """Yield all sub-expressions (pre-order)."""
    yield e
    t = e[0]
    if t == "call":
        for a in e[2]:
            yield from walk(a)
    elif t == "bin":
        yield from walk(e[2])
        yield from walk(e[3])
    elif t in ("un", "cast", "discr"):
        yield from walk(e[1] if t != "un" else e[2])
    elif t in ("field", "downcast", "cindex"):
        yield from walk(e[1])
    elif t == "index":
        yield from walk(e[1])
        yield from walk(e[2])
    elif t == "agg":
        for _, x in e[4]:
            yield from walk(x)
    elif t == "closure":
        for x in e[2]:
            yield from walk(x)
    elif t == "phi":
        for x in e[2]:
            yield from walk(x)


def calls_in(e, pat=None):
    out = []
    for s in walk(e):
        if s[0] == "call" and (pat is None or re.search(pat, strip_generics(s[1]))):
            out.append(s)
    return out


class Site:
    """A location in a body: block index + statement index (None = terminator)."""
    __slots__ = ("body", "bb", "si")

    def __init__(self, body, bb, si=None):
        self.body = body
        self.bb = bb
        self.si = si

    @property
    def line(self):
        blk = self.body.blocks[self.bb]
        if self.si is None:
            return (blk["term"] or {}).get("l", 0)
        return blk["stmts"][self.si].get("l", 0)

    @property
    def term(self):
        return self.body.blocks[self.bb]["term"]

    @property
    def stmt(self):
        return self.body.blocks[self.bb]["stmts"][self.si]

    def loc(self):
        return "%s:%d" % (self.body.file, self.line)

    def __repr__(self):
        return "<%s bb%d%s %s>" % (self.body.short, self.bb, "" if self.si is None else ".%d" % self.si, self.loc())

    def key(self):
        return (self.body.path, self.bb, self.si)

    def __eq__(self, o):
        return isinstance(o, Site) and self.key() == o.key()

    def __hash__(self):
        return hash(self.key())


class Body:
    def __init__(self, prog, crate, raw):
        self.prog = prog
        self.crate = crate
        self.raw = raw
        self.path = raw["path"]
        self.npath = strip_generics(self.path)
        self.kind = raw["kind"]
        self.parent = raw.get("parent")
        self.file = raw["file"]
        self.line = raw["line"]
        self.vis = raw["vis"]
        self.argc = raw["argc"]
        self.locals = raw["locals"]
        self.names = {int(k): v for k, v in raw["names"].items()}
        self.blocks = raw["blocks"]
        self.n = len(self.blocks)
        self._succ = None
        self._pred = None
        self._defs = None
        self._dom = None
        self._expr_cache = {}
        self.short = self.npath.split("::", 1)[-1]

    # ------------------------------------------------------------------ CFG
    def term_targets(self, bb):
        """Normal successors with edge labels: list of (target, label). label None for unconditional."""
        t = self.blocks[bb]["term"]
        if t is None:
            return []
        k = t["k"]
        if k in ("goto", "falseedge", "falseunwind", "drop", "assert", "yield"):
            return [(t["t"], None)]
        if k == "call":
            return [(t["t"], None)] if "t" in t else []
        if k == "switch":
            out = [(b, v) for v, b in t["targets"]]
            out.append((t["otherwise"], "otherwise"))
            return out
        return []

    @property
    def succ(self):
        if self._succ is None:
            self._succ = []
            for i in range(self.n):
                if self.blocks[i].get("cleanup"):
                    self._succ.append([])
                else:
                    self._succ.append([t for t, _ in self.term_targets(i)])
        return self._succ

    @property
    def pred(self):
        if self._pred is None:
            self._pred = [[] for _ in range(self.n)]
            for i, ss in enumerate(self.succ):
                for s in ss:
                    self._pred[s].append(i)
        return self._pred

    def reachable(self, starts, blocked_nodes=(), blocked_edges=(), stop_nodes=()):
        """Blocks reachable from `starts` (inclusive) avoiding blocked nodes/edges.
        stop_nodes are included in the result but not expanded."""
        blocked_nodes = set(blocked_nodes)
        blocked_edges = set(blocked_edges)
        stop_nodes = set(stop_nodes)
        seen = set()
        dq = deque(s for s in starts if s not in blocked_nodes)
        seen.update(dq)
        while dq:
            b = dq.popleft()
            if b in stop_nodes:
                continue
            for s in self.succ[b]:
                if s in blocked_nodes or (b, s) in blocked_edges or s in seen:
                    continue
                seen.add(s)
                dq.append(s)
        return seen

    @property
    def _bool_switch_locals(self):
        """Plain (un-projected, not mutably borrowed) multi-def bool locals that some switch tests directly."""
        if not hasattr(self, "_bsl"):
            out = set()
            for bi, blk in enumerate(self.blocks):
                t = blk["term"]
                if not t or t["k"] != "switch" or t.get("ty") != "bool":
                    continue
                o = t["o"]
                l = self._switch_local(o)
                if l is not None and l not in self.mut_borrowed and len(self.defs.get(l, [])) >= 2 and not self.defs.get((l, "partial")):
                    out.add(l)
            self._bsl = out
        return self._bsl

    def _switch_local(self, o):
        """local tested by a switch operand, looking through single-def copies and `Not`: returns local or None
        (the polarity is computed by _switch_local_pol)."""
        r = self._switch_local_pol(o)
        return r[0] if r else None

    def _switch_local_pol(self, o, depth=0):
        if o.get("k") not in ("copy", "move") or "pr" in o["p"] or depth > 6:
            return None
        l = o["p"]["l"]
        ds = self.defs.get(l, [])
        if len(ds) >= 2:
            return (l, False)
        if len(ds) == 1 and ds[0][0] == "stmt":
            r = ds[0][3]
            if r["k"] == "use":
                return self._switch_local_pol(r["o"], depth + 1)
            if r["k"] == "un" and r["op"] == "Not":
                x = self._switch_local_pol(r["a"], depth + 1)
                return (x[0], not x[1]) if x else None
        return None

    def reachable_bool(self, starts, env=None, blocked_nodes=(), blocked_edges=(), stop_nodes=()):
        """Like `reachable`, but path-sensitive in the constant values of hoisted bool locals
        (`let ok = a && b && c; if ok {..}` lowers to `ok = false` on the short-circuit edges): a switch on a tracked
        local whose value is known on the current path follows only the matching edge.  Only infeasible paths are pruned,
        so "no path reaches X" claims stay sound.  env: initial knowledge {local: bool} at the start blocks."""
        tracked = self._bool_switch_locals
        if not tracked:
            return self.reachable(starts, blocked_nodes, blocked_edges, stop_nodes)
        blocked_nodes = set(blocked_nodes)
        blocked_edges = set(blocked_edges)
        stop_nodes = set(stop_nodes)
        env0 = frozenset((env or {}).items())
        seen = set()
        out = set()
        dq = deque((s, env0) for s in starts if s not in blocked_nodes)
        while dq:
            b, ev = dq.popleft()
            if (b, ev) in seen:
                continue
            seen.add((b, ev))
            out.add(b)
            if b in stop_nodes:
                continue
            blk = self.blocks[b]
            if blk.get("cleanup"):
                continue
            e = dict(ev)
            for st in blk["stmts"]:
                if st["k"] == "assign" and "pr" not in st["p"] and st["p"]["l"] in tracked:
                    r = st["r"]
                    v = None
                    if r["k"] == "use" and r["o"].get("k") == "const" and "v" in r["o"]:
                        iv = _ival(r["o"]["v"])
                        if iv in (0, 1):
                            v = bool(iv)
                    if v is None:
                        e.pop(st["p"]["l"], None)
                    else:
                        e[st["p"]["l"]] = v
            t = blk["term"]
            if t and t["k"] == "call" and "pr" not in t["d"] and t["d"]["l"] in tracked:
                e.pop(t["d"]["l"], None)
            nxt = self.succ[b]
            if t and t["k"] == "switch" and t.get("ty") == "bool":
                lp = self._switch_local_pol(t["o"])
                if lp and lp[0] in e:
                    val = e[lp[0]] != lp[1]
                    info = self.switch_info(b)
                    want = "true" if val else "false"
                    nxt = [tg for tg, ls in info[1].items() if want in ls]
            ev2 = frozenset(e.items())
            for s2 in nxt:
                if s2 in blocked_nodes or (b, s2) in blocked_edges:
                    continue
                dq.append((s2, ev2))
        return out

    def reachable_from_entry(self, **kw):
        return self.reachable([0], **kw)

    @property
    def live(self):
        if not hasattr(self, "_live"):
            self._live = self.reachable([0])
        return self._live

    def return_blocks(self):
        return [i for i in self.live if self.blocks[i]["term"] and self.blocks[i]["term"]["k"] == "return"]

    def exit_blocks(self):
        """return + diverging (unreachable / call without target e.g. panic)"""
        out = []
        for i in self.live:
            t = self.blocks[i]["term"]
            if t is None:
                continue
            if t["k"] in ("return", "unreachable", "coroutine_drop", "tailcall"):
                out.append(i)
            elif t["k"] == "call" and "t" not in t:
                out.append(i)
        return out

    def back_edges(self):
        """DFS back edges on the normal CFG."""
        color = {}
        back = set()
        stack = [(0, iter(self.succ[0]))]
        color[0] = 1
        while stack:
            b, it = stack[-1]
            adv = False
            for s in it:
                if color.get(s, 0) == 0:
                    color[s] = 1
                    stack.append((s, iter(self.succ[s])))
                    adv = True
                    break
                elif color[s] == 1:
                    back.add((b, s))
            if not adv:
                color[b] = 2
                stack.pop()
        return back

    def dominators(self):
        """idom via simple iterative algorithm; returns dict bb -> set of dominators."""
        if self._dom is not None:
            return self._dom
        live = self.live
        order = []
        seen = set()

        def dfs(b):
            stack = [(b, iter(self.succ[b]))]
            seen.add(b)
            while stack:
                x, it = stack[-1]
                adv = False
                for s in it:
                    if s not in seen:
                        seen.add(s)
                        stack.append((s, iter(self.succ[s])))
                        adv = True
                        break
                if not adv:
                    order.append(x)
                    stack.pop()
        dfs(0)
        rpo = list(reversed(order))
        dom = {b: None for b in live}
        dom[0] = {0}
        changed = True
        while changed:
            changed = False
            for b in rpo:
                if b == 0:
                    continue
                ps = [dom[p] for p in self.pred[b] if p in dom and dom[p] is not None]
                if not ps:
                    continue
                new = set.intersection(*ps) | {b}
                if new != dom[b]:
                    dom[b] = new
                    changed = True
        self._dom = dom
        return dom

    def dominates(self, a, b):
        d = self.dominators().get(b)
        return d is not None and a in d

    # ------------------------------------------------------------------ definitions
    @property
    def defs(self):
        """local -> list of ('stmt', bb, si, rvalue) / ('call', bb, term) for whole-local assignments;
        partial (projected) assignments are recorded under key (local,'partial')."""
        if self._defs is None:
            d = defaultdict(list)
            for bi, blk in enumerate(self.blocks):
                if blk.get("cleanup"):
                    continue
                for si, st in enumerate(blk["stmts"]):
                    if st["k"] == "assign":
                        p = st["p"]
                        if "pr" not in p:
                            d[p["l"]].append(("stmt", bi, si, st["r"]))
                        else:
                            d[(p["l"], "partial")].append(("stmt", bi, si, st["r"], p))
                    elif st["k"] == "setdiscr":
                        d[(st["p"]["l"], "partial")].append(("setdiscr", bi, si, st))
                t = blk["term"]
                if t and t["k"] == "call":
                    p = t["d"]
                    if "pr" not in p:
                        d[p["l"]].append(("call", bi, None, t))
                    else:
                        d[(p["l"], "partial")].append(("call", bi, None, t, p))
                if t and t["k"] == "yield":
                    pass
            self._defs = d
        return self._defs

    @property
    def mut_borrowed(self):
        """Named locals whose storage is mutably borrowed directly (`&mut x`, `&mut x.f`, not through a deref):
        their value changes after initialisation, so they are not replaced by their initialiser."""
        if not hasattr(self, "_mutb"):
            mb = set()
            for blk in self.blocks:
                if blk.get("cleanup"):
                    continue
                for st in blk["stmts"]:
                    if st["k"] == "assign" and st["r"]["k"] in ("ref", "rawptr") and st["r"].get("m", "mut") == "mut":
                        p = st["r"]["p"]
                        if not any(pr["k"] == "deref" for pr in p.get("pr", ())):
                            mb.add(p["l"])
            self._mutb = mb
        return self._mutb

    def init_expr(self, l):
        """Initialiser of a single-def local even when it is mutably borrowed later."""
        ds = self.defs.get(l, [])
        if len(ds) != 1:
            return ("local", l, self.names.get(l))
        d = ds[0]
        return self.rvalue_expr(d[3]) if d[0] == "stmt" else self.call_expr(d[3], d[1])

    # ------------------------------------------------------------------ expressions
    def local_expr(self, l, depth=0, stack=()):
        if l == 0:
            ds = self.defs.get(0, [])
            if len(ds) != 1:
                return ("local", 0, "_ret")
        if 1 <= l <= self.argc:
            # args may be reassigned, rare; treat as arg
            return ("arg", l, self.names.get(l))
        if l in stack or depth > 24:
            return ("local", l, self.names.get(l))
        if l in self.names and l in self.mut_borrowed:
            return ("local", l, self.names.get(l))
        ds = self.defs.get(l, [])
        if len(ds) != 1 or self.defs.get((l, "partial")):
            if len(ds) == 0 and self.defs.get((l, "partial")):
                return ("local", l, self.names.get(l))
            return ("local", l, self.names.get(l))
        key = l
        if key in self._expr_cache:
            return self._expr_cache[key]
        d = ds[0]
        st = stack + (l,)
        if d[0] == "stmt":
            e = self.rvalue_expr(d[3], depth + 1, st)
        else:
            e = self.call_expr(d[3], d[1], depth + 1, st)
        self._expr_cache[key] = e
        return e

    def place_expr(self, p, depth=0, stack=()):
        base = self.local_expr(p["l"], depth, stack)
        for pr in p.get("pr", ()):
            k = pr["k"]
            if k == "deref":
                continue
            if k == "field":
                n = pr["n"]
                if n.startswith("upvar"):
                    base = ("upvar", n.split(":", 1)[-1])
                elif base[0] == "agg" and base[1] in ("adt", "tuple"):
                    # field of a locally built aggregate: pick the operand
                    hit = None
                    for fname, fe in base[4]:
                        if fname == n:
                            hit = fe
                    base = hit if hit is not None else ("field", base, n, pr.get("o"))
                else:
                    base = ("field", base, n, pr.get("o"))
            elif k == "downcast":
                base = ("downcast", base, pr["v"])
            elif k == "index":
                base = ("index", base, self.local_expr(pr["l"], depth + 1, stack))
            elif k == "cindex":
                base = ("cindex", base, pr["o"], pr["fe"])
            elif k == "subslice":
                base = ("field", base, "[%d..%s%d]" % (pr["from"], "-" if pr["fe"] else "", pr["to"]), None)
            else:
                pass
        return base

    def operand_expr(self, o, depth=0, stack=()):
        k = o["k"]
        if k in ("copy", "move"):
            return self.place_expr(o["p"], depth, stack)
        if k == "const":
            if "fn" in o:
                return ("fn", o["fn"])
            if "static" in o:
                return ("static", o["static"])
            if "def" in o:
                return ("namedconst", o["def"], _ival(o.get("v")))
            if "s" in o:
                return ("str", o["s"])
            if "v" in o:
                return ("const", _ival(o["v"]), o.get("t"))
            if o.get("promoted") and "pi" in o and depth < 20:
                pe = self.promoted_expr(o["pi"])
                if pe is not None:
                    return pe
            return ("const", None, o.get("t", "?"))
        return ("unknown", o.get("t", "?"))

    def promoted_expr(self, idx):
        """Value of promoted constant #idx of this body (expression of its return place)."""
        if not hasattr(self, "_prom"):
            self._prom = {}
        if idx in self._prom:
            return self._prom[idx]
        ps = self.raw.get("promoted") or []
        res = None
        if idx < len(ps):
            raw = {"path": self.path + "::promoted[%d]" % idx, "kind": "promoted", "file": self.file, "line": self.line,
                   "vis": "n/a", "argc": 0, "locals": ps[idx]["locals"], "names": {}, "blocks": ps[idx]["blocks"]}
            pb = Body(self.prog, self.crate, raw)
            ds = pb.defs.get(0, [])
            if len(ds) == 1:
                d = ds[0]
                res = pb.rvalue_expr(d[3]) if d[0] == "stmt" else pb.call_expr(d[3], d[1])
        self._prom[idx] = res
        return res

    def rvalue_expr(self, r, depth=0, stack=()):
        k = r["k"]
        if k == "use":
            return self.operand_expr(r["o"], depth, stack)
        if k in ("ref", "rawptr", "copyderef"):
            return self.place_expr(r["p"], depth, stack)
        if k == "discr":
            return ("discr", self.place_expr(r["p"], depth, stack))
        if k == "bin":
            return ("bin", r["op"], self.operand_expr(r["a"], depth, stack), self.operand_expr(r["b"], depth, stack))
        if k == "un":
            return ("un", r["op"], self.operand_expr(r["a"], depth, stack))
        if k == "cast":
            inner = self.operand_expr(r["o"], depth, stack)
            if r["ck"] in ("PointerCoercion", "Transmute", "PtrToPtr"):
                return inner
            return ("cast", inner, r["ty"])
        if k == "agg":
            ak = r["ak"]
            ops = [self.operand_expr(o, depth, stack) for o in r["ops"]]
            if ak == "adt":
                fields = r.get("fields", [])
                fl = tuple((fields[i] if i < len(fields) else str(i), ops[i]) for i in range(len(ops)))
                return ("agg", "adt", r["adt"], r["variant"], fl)
            if ak in ("closure", "coroutine", "coroutine_closure"):
                return ("closure", r["def"], tuple(ops))
            return ("agg", ak, ak, None, tuple((str(i), ops[i]) for i in range(len(ops))))
        if k == "repeat":
            return ("agg", "repeat", "repeat", None, (("0", self.operand_expr(r["o"], depth, stack)),))
        return ("unknown", r.get("t", k))

    def call_name(self, t):
        """Best callee path of a call terminator: resolved instance if available."""
        if "res" in t:
            r = t["res"]
            if r.startswith("shim:") or r.startswith("virtual:"):
                return t.get("fn", r)
            return r
        return t.get("fn") or "<indirect>"

    def call_expr(self, t, bb, depth=0, stack=()):
        args = tuple(self.operand_expr(a, depth, stack) for a in t["args"])
        name = self.call_name(t)
        if name == "<indirect>":
            name = "indirect:" + render(self.operand_expr(t["f"], depth, stack))
        return ("call", name, args, bb)

    # ------------------------------------------------------------------ sites
    def call_sites(self, pat=None, declared=False):
        """Call terminators whose (resolved or declared) callee path matches regex `pat`."""
        out = []
        rx = re.compile(pat) if pat else None
        for bi in sorted(self.live):
            t = self.blocks[bi]["term"]
            if not t or t["k"] != "call":
                continue
            names = {strip_generics(self.call_name(t))}
            if "fn" in t:
                names.add(strip_generics(t["fn"]))
            if rx is None or any(rx.search(n) for n in names):
                out.append(Site(self, bi))
        return out

    def stmt_sites(self, pred):
        out = []
        for bi in sorted(self.live):
            for si, st in enumerate(self.blocks[bi]["stmts"]):
                if pred(st):
                    out.append(Site(self, bi, si))
        return out

    def agg_sites(self, adt_pat, variant=None):
        """Statements constructing an ADT (aggregate) whose path matches."""
        rx = re.compile(adt_pat)

        def p(st):
            if st["k"] != "assign":
                return False
            r = st["r"]
            return (r["k"] == "agg" and r["ak"] == "adt" and rx.search(strip_generics(r["adt"]))
                    and (variant is None or r["variant"] == variant))
        return self.stmt_sites(p)

    def field_write_sites(self, field, owner_pat=None):
        """Assignments (or call destinations) whose place ends in .field"""
        out = []
        rx = re.compile(owner_pat) if owner_pat else None

        def match(p):
            prs = p.get("pr", ())
            for pr in prs:
                if pr["k"] == "field" and pr["n"] == field and (rx is None or rx.search(pr.get("o") or "")):
                    return True
            return False
        for bi in sorted(self.live):
            blk = self.blocks[bi]
            for si, st in enumerate(blk["stmts"]):
                if st["k"] == "assign" and match(st["p"]):
                    out.append(Site(self, bi, si))
            t = blk["term"]
            if t and t["k"] == "call" and match(t["d"]):
                out.append(Site(self, bi))
        return out

    def site_expr(self, site):
        """Expression of a call site (the call) or of an assignment's rvalue."""
        if site.si is None:
            t = site.term
            if t["k"] == "call":
                return self.call_expr(t, site.bb)
            return ("unknown", t["k"])
        st = site.stmt
        if st["k"] == "assign":
            return self.rvalue_expr(st["r"])
        return ("unknown", st["k"])

    # ------------------------------------------------------------------ guards
    def switch_info(self, bb):
        """For a switch block: (cond_expr, {target_bb: set(labels)}), labels are variant names /
        'true'/'false'/ints / 'otherwise:<excluded>'"""
        t = self.blocks[bb]["term"]
        if not t or t["k"] != "switch":
            return None
        cond = self.operand_expr(t["o"])
        varmap = None
        # discriminant switch: find variant names
        o = t["o"]
        if o["k"] in ("copy", "move") and "pr" not in o["p"]:
            ds = self.defs.get(o["p"]["l"], [])
            if len(ds) == 1 and ds[0][0] == "stmt" and ds[0][3]["k"] == "discr" and "vars" in ds[0][3]:
                varmap = {int(v): n for v, n in ds[0][3]["vars"]}
        labels = defaultdict(set)
        explicit = []
        for v, b in t["targets"]:
            v = int(v)
            explicit.append(v)
            if varmap is not None:
                labels[b].add(varmap.get(v, str(v)))
            elif t["ty"] == "bool":
                labels[b].add("true" if v else "false")
            else:
                labels[b].add(v)
        ob = t["otherwise"]
        # 'otherwise' semantics
        if varmap is not None:
            rest = [n for v, n in varmap.items() if v not in explicit]
            # an unreachable otherwise has no labels
            tt = self.blocks[ob]["term"]
            if tt and tt["k"] == "unreachable" and not self.blocks[ob]["stmts"]:
                pass
            else:
                for n in rest:
                    labels[ob].add(n)
        elif t["ty"] == "bool":
            if explicit == [0]:
                labels[ob].add("true")
            elif explicit == [1]:
                labels[ob].add("false")
            else:
                labels[ob].add("otherwise")
        else:
            labels[ob].add("otherwise")
        return cond, dict(labels)

    def guard_edges(self, pred):
        """All CFG edges (b, t) whose switch condition/label satisfy pred(cond_expr, rendered, label)."""
        out = set()
        for bi in self.live:
            info = self.switch_info(bi)
            if not info:
                continue
            cond, labels = info
            r = render(cond)
            for tgt, ls in labels.items():
                if ls and all(pred(cond, r, l) for l in ls):
                    out.add((bi, tgt))
        return out

    def guards_on_all_paths(self, site_bb):
        """List of (rendered cond, labels frozenset, switch bb) that hold on every path to site_bb:
        for each switch D whose removal of all-but-some edges... computed as: edges set R(D) = out-edges
        from which site is reachable without re-entering D; if R is a strict subset, guard known."""
        out = []
        dom = self.dominators().get(site_bb) or set()
        for d in dom:
            if d == site_bb:
                continue
            info = self.switch_info(d)
            if not info:
                continue
            cond, labels = info
            allowed = set()
            all_labels = set()
            for tgt, ls in labels.items():
                all_labels |= ls
                if site_bb in self.reachable([tgt], blocked_nodes=[d]) or tgt == site_bb:
                    allowed |= ls
            if allowed and allowed != all_labels:
                out.append((render(cond), frozenset(allowed), d, cond))
        return out

    def derive_edges(self, edges, pred=None, start=0):
        """Close a set of guard edges (edges on which some condition C is known to hold) under *bool hoisting*:
        a switch on a plain bool local L (`let ok = a && b; ... if ok {..}`) contributes its `true` edge when every
        definition of L is either the constant false, or sits at a block that is itself only reachable through edges
        already in the set, or assigns an expression that satisfies `pred(expr, rendered, 'true')` (L *is* the
        condition); symmetrically for the `false` edge.  `Not(L)` conditions are looked through.  Sound: only edges
        that imply C are added.  Iterated to a fixpoint (chains of hoisted locals)."""
        edges = set(edges)
        cands = []
        for bi in self.live:
            t = self.blocks[bi]["term"]
            if not t or t["k"] != "switch" or t.get("ty") != "bool":
                continue
            info = self.switch_info(bi)
            cond = info[0]
            neg = False
            while cond[0] == "un" and cond[1] == "Not":
                neg = not neg
                cond = cond[2]
            if cond[0] != "local" or cond[1] in self.mut_borrowed:
                continue
            ds = self.defs.get(cond[1], [])
            if len(ds) < 2 or self.defs.get((cond[1], "partial")):
                continue
            cands.append((bi, info[1], cond[1], neg, ds))
        changed = True
        while changed:
            changed = False
            for bi, labs, l, neg, ds in cands:
                for tgt, ls in labs.items():
                    if (bi, tgt) in edges or len(ls) != 1:
                        continue
                    lab = next(iter(ls))
                    if lab not in ("true", "false"):
                        continue
                    want = lab if not neg else ("false" if lab == "true" else "true")   # truth value of L on this edge
                    ok = True
                    for d in ds:
                        e = self.rvalue_expr(d[3]) if d[0] == "stmt" else self.call_expr(d[3], d[1])
                        if e[0] == "const" and e[1] in (0, 1):
                            if ("true" if e[1] else "false") != want:
                                continue          # this definition can never produce `want`
                            # constant equal to `want`: only fine if the definition site is itself guarded
                        if d[1] != start and d[1] not in self.reachable([start], blocked_edges=edges):
                            continue              # definition only reachable through guard edges
                        if pred is not None and e[0] != "const":
                            try:
                                if pred(e, render(e), want):
                                    continue      # the local *is* the condition
                            except Exception:
                                pass
                        ok = False
                        break
                    if ok:
                        edges.add((bi, tgt))
                        changed = True
        return edges

    def must_pass_edges(self, site_bb, edges, start=0, correlate=None):
        """True iff every path start -> site_bb uses at least one edge in `edges`.
        correlate: regex; switches whose rendered condition matches it and is textually identical are assumed to
        evaluate to the same outcome along one path (pure re-evaluation of the same test), pruning infeasible paths."""
        if site_bb == start:
            return False
        if correlate is None:
            return site_bb not in self.reachable_bool([start], blocked_edges=edges)
        rx = re.compile(correlate)
        edges = set(edges)
        seen = set()
        stack = [(start, frozenset())]
        while stack:
            b, facts = stack.pop()
            if (b, facts) in seen:
                continue
            seen.add((b, facts))
            if b == site_bb:
                return False
            info = self.switch_info(b)
            if info:
                text = render(info[0])
                if rx.search(text):
                    known = dict(facts).get(text)
                    for tgt, ls in info[1].items():
                        if (b, tgt) in edges:
                            continue
                        key = "|".join(sorted(map(str, ls)))
                        if known is not None and known != key:
                            continue
                        stack.append((tgt, facts | {(text, key)}))
                    continue
            for s2 in self.succ[b]:
                if (b, s2) in edges:
                    continue
                stack.append((s2, facts))
        return True

    def must_pass_nodes(self, from_bbs, to_bbs, nodes):
        """True iff every path from any of from_bbs to any of to_bbs passes a block in `nodes`."""
        r = self.reachable_bool(from_bbs, blocked_nodes=nodes)
        return not (set(to_bbs) & r)

    def succ_after(self, site):
        """Blocks that execution continues at after the site's block terminator."""
        return list(self.succ[site.bb])

    # paths ---------------------------------------------------------------------------
    def enumerate_paths(self, start, stops, limit=20000, cut_back_edges=True):
        """Enumerate acyclic paths (lists of bbs) from start to any block in stops (or exits)."""
        stops = set(stops)
        back = self.back_edges() if cut_back_edges else set()
        res = []
        stack = [(start, [start])]
        while stack:
            b, path = stack.pop()
            if b in stops and len(path) > 1 or (b in stops and b != start):
                res.append(path)
                continue
            ss = [s for s in self.succ[b] if (b, s) not in back and s not in path]
            if not ss:
                res.append(path)
                continue
            for s in ss:
                stack.append((s, path + [s]))
            if len(res) + len(stack) > limit:
                raise RuleError("path budget exceeded in %s" % self.npath)
        return res


def _ival(v):
    if v is None:
        return None
    if isinstance(v, str):
        try:
            return int(v)
        except ValueError:
            return v
    return v


class Program:
    def __init__(self, fact_paths):
        self.fact_paths = fact_paths
        self._crates = {}
        self._bodies = {}

    def crate(self, name):
        if name not in self._crates:
            if name not in self.fact_paths:
                raise RuleError("no facts for crate %s" % name)
            raw = _facts.load_crate(self.fact_paths[name])
            bodies = [Body(self, name, b) for b in raw["bodies"]]
            self._crates[name] = (raw, bodies)
        return self._crates[name]

    def bodies(self, crate):
        return self.crate(crate)[1]

    def raw(self, crate):
        return self.crate(crate)[0]

    def find(self, crate, pat, kind=None):
        rx = re.compile(pat)
        return [b for b in self.bodies(crate) if rx.search(b.npath) and (kind is None or b.kind == kind)]

    def body(self, crate, pat, kind=None):
        """Exactly one body whose stripped path matches regex (fail closed)."""
        bs = self.find(crate, pat, kind)
        if len(bs) != 1:
            raise RuleError("anchor %r in %s: expected 1 body, found %d %s" %
                            (pat, crate, len(bs), [b.npath for b in bs][:6]))
        return bs[0]

    def children(self, body):
        return [b for b in self.bodies(body.crate) if b.parent == body.path]

    def closure_body(self, body, defpath):
        for b in self.bodies(body.crate):
            if b.path == defpath:
                return b
        raise RuleError("closure body %s not found" % defpath)

    def adt(self, crate, pat):
        rx = re.compile(pat)
        hits = [a for a in self.raw(crate)["adts"] if rx.search(strip_generics(a["path"]))]
        if len(hits) != 1:
            raise RuleError("adt %r in %s: %d hits" % (pat, crate, len(hits)))
        return hits[0]

    def const(self, crate, pat):
        rx = re.compile(pat)
        hits = [a for a in self.raw(crate)["consts"] if rx.search(a["path"])]
        if len(hits) != 1:
            raise RuleError("const %r in %s: %d hits %s" % (pat, crate, len(hits), [h["path"] for h in hits][:5]))
        return hits[0]

    def impls(self, crate, trait_pat=None, self_pat=None):
        out = []
        for i in self.raw(crate)["impls"]:
            if trait_pat is not None and not re.search(trait_pat, i.get("trait") or ""):
                continue
            if self_pat is not None and not re.search(self_pat, i["self"]):
                continue
            out.append(i)
        return out

    def callers(self, crate, pat):
        """All call sites in `crate` whose callee matches pat."""
        out = []
        for b in self.bodies(crate):
            out.extend(b.call_sites(pat))
        return out

    def fn_vis(self, crate, pat):
        rx = re.compile(pat)
        return [(f["path"], f["vis"]) for f in self.raw(crate)["fns"] if rx.search(strip_generics(f["path"]))]
