"""C39 iterative lookups: bounded in-flight requests, counter/state pairing, result filter — per-arm counter pairing (K2), guards (K1), decision tables (K7), typing (K12), who-may-write (K4)."""
import re

from .. import lib, mir
from .. import lib_kad as lk
from ..mir import render, strip_generics
from ..lib_kad import R, cnt, tg, K

EXPLANATION = (
    "ClosestPeersIter keeps num_waiting == number of peers in PeerState::Waiting. For next / on_success / on_failure every arm of the match on the "
    "peer's state is analysed on all paths: a store that leaves Waiting is paired with exactly one `num_waiting -= 1`, a store of Waiting with exactly "
    "one `+= 1`, stores between non-Waiting states with neither; a decrement is reachable only on an edge where the peer is known to be exactly "
    "Waiting (a merged Waiting|Unresponsive arm is a violation), Waiting is only entered from NotContacted, counters are written by these three "
    "functions only and start at 0 with all peers NotContacted; closest_peers (a BTreeMap<Distance, Peer>) is only extended through vacant entries "
    "(never overwritten/removed). A new request (state := Waiting, result Waiting(Some(peer))) is issued only on the false edge of at_capacity(), "
    "which is evaluated at the start of next() and is num_waiting >= parallelism while Iterating, >= max(num_results, parallelism) while Stalled, "
    "true when Finished; next() returns right after issuing a request. Finishing: Finished is reported (and stored) only when the counter of "
    "consecutive closest Succeeded peers reaches num_results or when the peer list is exhausted and num_waiting > 0 is false; the counter is reset "
    "whenever a live Waiting peer is passed, and a NotContacted peer never lets the scan continue. into_result keeps exactly the Succeeded peers, "
    "in map (distance) order, take(num_results). FixedPeersIter: same pairing, request only below parallelism (strict), Finished only when exhausted "
    "and num_waiting == 0. ClosestDisjointPeersIter: a peer is yielded only on first contact (contacted_peers miss, recorded once), closer peers go "
    "only to the initiating path, ResultIter merges by ascending distance.")
ASSUMPTIONS = ["termination and optimality of the result over all response schedules are not decided (dynamic clauses)",
               "BTreeMap iteration order = ascending Distance; debug_assert!(num_waiting > 0) is not relied upon"]
TECHNIQUE = ("All patterns are evaluated on a normalised view of the MIR facts (vrules/lib_kad.canon): parameters by position, every "
             "single-definition local expanded to its initialiser, closure captures by index, trivial crate-local helpers (accessors, one-comparison "
             "predicates, one-line constructors) replaced by their bodies, private fields resolved by their type, comparisons normalised over operand "
             "order / mirrored operators / method-call form / `!`, guard sets closed under bool hoisting. Behaviour-preserving refactorings that must stay "
             "silent are archived in /verif/neutral/kad (01-12 and x1-author-combinators.diff).")
SELFTEST = [
    {"mutation": "seeded C39: on_failure merges Waiting | Unresponsive into one arm that decrements", "caught_by": "pairing/on_failure: decrement only where the peer is known to be Waiting"},
    {"mutation": "next: drop `self.num_waiting += 1` after peer.state = Waiting", "caught_by": "pairing/next: entering Waiting is paired with one increment"},
    {"mutation": "at_capacity Iterating: `>=` -> `>`", "caught_by": "capacity/at_capacity table"},
    {"mutation": "at_capacity Stalled: usize::max -> usize::min", "caught_by": "capacity/at_capacity table"},
    {"mutation": "next NotContacted: `if !at_capacity` -> `if at_capacity`", "caught_by": "capacity/next: new request only when not at capacity"},
    {"mutation": "into_result: drop .take(num_results)", "caught_by": "result/into_result = filter Succeeded, take(num_results)"},
    {"mutation": "next Waiting arm: drop `result_counter = None`", "caught_by": "finish/next: a live Waiting peer resets the success counter"},
    {"mutation": "fixed next: `>=` -> `>` in num_waiting >= parallelism", "caught_by": "fixed/new request only below parallelism"},
    {"mutation": "on_success: drop `self.num_waiting -= 1` in the Waiting arm", "caught_by": "pairing/on_success: leaving Waiting (-> Succeeded) is paired with one decrement"},
    {"mutation": "disjoint ResultIter: `<` -> `>` in the head comparison", "caught_by": "disjoint/ResultIter yields the closer head first"},
    {"mutation": "disjoint on_success: closer peers cloned to every path", "caught_by": "disjoint/other paths learn the outcome but no peers"},
]

CP = r"^libp2p_kad::query::peers::closest::ClosestPeersIter::"
PST = r"query::peers::closest::PeerState$"


class F:
    pass


def resolve(prog):
    cp = r"query::peers::closest::ClosestPeersIter$"
    F.state = lk.fld(prog, cp, r"^query::peers::closest::State$")
    F.peers = lk.fld(prog, cp, r"^std::collections::BTreeMap<")
    F.nw = lk.fld(prog, cp, r"^usize$")
    F.config = lk.fld(prog, cp, r"ClosestPeersIterConfig$")
    F.target = lk.fld(prog, cp, r"KeyBytes$")
    pe = r"query::peers::closest::Peer$"
    F.p_state = lk.fld(prog, pe, r"PeerState$")
    F.p_key = lk.fld(prog, pe, r"kbucket::key::Key<")
    F.NW = "self.%s" % F.nw
    F.PEERS = "self.%s" % F.peers
    F.PAR = "std::num::NonZero::get(self.%s.parallelism)" % F.config
    F.NRES = "std::num::NonZero::get(self.%s.num_results)" % F.config


def add(a, b_):
    if a is None or b_ is None:
        return None
    return (a[0] + b_[0], a[1] + b_[1])


PROG = None
PROBLEMS = []
ANALYSED = {"libp2p_kad::query::peers::closest::ClosestPeersIter::" + x for x in ("next", "on_success", "on_failure", "at_capacity", "into_result", "with_config")}


def nw_effects(b):
    """+1 / -1 sites of num_waiting in b, including calls of private helpers that do exactly one such update on every path"""
    out = []
    for s, k, t in lk.with_helpers(PROG, b, lambda x: lk.field_effects(x, F.nw), PROBLEMS, ANALYSED):
        if k == "set" and re.match(r"^Add(WithOverflow)?\(%s, 1\)(\.0)?$" % re.escape(F.NW), t):
            out.append((s, "inc"))
        elif k == "set" and re.match(r"^Sub(WithOverflow)?\(%s, 1\)(\.0)?$" % re.escape(F.NW), t):
            out.append((s, "dec"))
        elif k in ("inc", "dec"):
            out.append((s, k))
        else:
            out.append((s, "other:" + k + ":" + t[:60]))
    return out


def peer_stores(b, owner=r"closest::Peer$", adt=PST):
    out = []
    for s in b.field_write_sites(F.p_state, owner):
        if s.si is None:
            out.append((s, "?call"))
            continue
        e = b.site_expr(s)
        vs = lib.agg_variants(e, adt) if e[0] == "agg" else []
        out.append((s, vs[0] if len(vs) == 1 else "?" + render(e)[:50]))
    return out


def store_target(b, s):
    """rendered place (without the field) a peer-state store writes to"""
    p = dict(s.stmt["p"])
    prs = list(p.get("pr", ()))
    while prs and not (prs[-1]["k"] == "field" and prs[-1]["n"] == F.p_state):
        prs.pop()
    prs = prs[:-1]
    p["pr"] = prs
    return render(b.place_expr(p))


def state_switch(b):
    """the switch on the state of a Peer: (bb, subject text)"""
    out = []
    for bi in sorted(b.live):
        info = b.switch_info(bi)
        if info and info[0][0] == "discr" and info[0][1][0] == "field" and info[0][1][2] == F.p_state and re.search(r"closest::Peer$", strip_generics(info[0][1][3] or "")):
            out.append((bi, render(info[0][1][1])))
    return out


def pairing(ctx, b, fn, exits, stores, eff, min_arms):
    rule = "pairing"
    W = lk.where(b)
    sws = state_switch(b)
    ctx.ob(rule, "floor:%s: match on the peer's state" % fn, len(sws) == 1, W, nontrivial=False, msg=str(sws))
    if len(sws) != 1:
        return None
    cond, labs = b.switch_info(sws[0][0])
    incs = [s for s, k in eff if k == "inc"]
    decs = [s for s, k in eff if k == "dec"]
    oth = [(s, k) for s, k in eff if k not in ("inc", "dec")]
    ctx.ob(rule, "%s: num_waiting changes only by +1 / -1" % fn, not oth, W, str([k for _, k in oth]))
    ctx.ob(rule, "%s: every peer-state store is a PeerState constructor" % fn, all(not v.startswith("?") for _, v in stores), W, str([v for _, v in stores]))
    arms = [(t, ls) for t, ls in labs.items() if ls]
    ctx.ob(rule, "floor:%s: arms" % fn, len(arms) >= min_arms, W, nontrivial=False, msg=str(sorted(map(sorted, (ls for _, ls in arms)))))
    covered = set()

    def through(start, s, marks):
        return add(cnt(b, [start], [s.bb], marks), cnt(b, b.succ[s.bb], exits, marks) if not (set(exits) & {s.bb}) else (0, 0))
    for t, ls in arms:
        name = "|".join(sorted(ls))
        region = b.reachable([t], stop_nodes=exits)
        a_st = [(s, v) for s, v in stores if s.bb in region]
        a_inc = [s for s in incs if s.bb in region]
        a_dec = [s for s in decs if s.bb in region]
        covered |= {s for s in a_inc + a_dec} | {s for s, _ in a_st}
        for s, v in a_st:
            i, d = through(t, s, incs), through(t, s, decs)
            if v == "Waiting":
                ctx.ob(rule, "%s: Waiting is entered only from NotContacted" % fn, ls == {"NotContacted"}, s.loc(), "arm {%s} stores Waiting" % name)
                ctx.ob(rule, "%s: entering Waiting is paired with one increment" % fn, i == (1, 1) and d == (0, 0), s.loc(), "arm {%s}: += 1 %s, -= 1 %s on every path through the store" % (name, i, d))
            elif ls == {"Waiting"}:
                ctx.ob(rule, "%s: leaving Waiting (-> %s) is paired with one decrement" % (fn, v), d == (1, 1) and i == (0, 0), s.loc(), "arm {Waiting}: -= 1 %s, += 1 %s on every path through the store" % (d, i))
            elif "Waiting" in ls:
                ctx.ob(rule, "%s: arm {%s} -> %s mixes Waiting with other states" % (fn, name, v), False, s.loc(), "the counter effect of this store depends on the previous state, which the arm does not distinguish")
            else:
                ctx.ob(rule, "%s: {%s} -> %s does not touch the counter" % (fn, name, v), i == (0, 0) and d == (0, 0), s.loc(), "+= 1 %s, -= 1 %s" % (i, d))
            acc = lambda x: re.sub(r"OccupiedEntry::(get_mut|into_mut)\(", "OccupiedEntry::get(", x)        # shared / exclusive access to the same entry
            ctx.ob(rule, "%s: the store goes to the matched peer" % fn, acc(store_target(b, s)) == acc(sws[0][1]), s.loc(), "%s vs matched %s" % (store_target(b, s)[:120], sws[0][1][:120]))
        for s in a_dec:
            ctx.ob(rule, "%s: decrement only where the peer is known to be Waiting" % fn, ls == {"Waiting"}, s.loc(),
                   "num_waiting -= 1 in arm {%s}%s" % (name, "" if ls == {"Waiting"} else ": a peer that is not Waiting already released its slot, so the counter undercounts in-flight requests"))
            st = through(t, s, [x for x, v in a_st if v != "Waiting"])
            ctx.ob(rule, "%s: every decrement comes with the peer leaving Waiting" % fn, st == (1, 1), s.loc(), "stores of a non-Waiting state on paths through the decrement: %s" % (st,))
        for s in a_inc:
            ctx.ob(rule, "%s: increment only where the peer is known not to be Waiting" % fn, "Waiting" not in ls, s.loc(), "num_waiting += 1 in arm {%s}" % name)
            st = through(t, s, [x for x, v in a_st if v == "Waiting"])
            ctx.ob(rule, "%s: every increment comes with the peer entering Waiting" % fn, st == (1, 1), s.loc(), "stores of Waiting on paths through the increment: %s" % (st,))
    stray = [s for s in incs + decs + [x for x, _ in stores] if s not in covered]
    ctx.ob(rule, "%s: no counter/state update outside the match on the peer's state" % fn, not stray, W, str(stray)[:200])
    return sws[0]


def check(ctx):
    global PROG
    prog = PROG = lk.canon(ctx)
    del PROBLEMS[:]
    resolve(prog)
    nx = ctx.body(K, CP + r"next$")
    os_ = ctx.body(K, CP + r"on_success$")
    of = ctx.body(K, CP + r"on_failure$")
    ac = ctx.body(K, CP + r"at_capacity$")
    NWP = "^" + re.escape(F.NW) + "$"
    # ------------------------------------------------------------------ pairing
    heads_s = [s for s in nx.call_sites(r"Iterator>?::next$") if F.PEERS in R(nx, s)]
    heads = lib.bbs(heads_s)
    ctx.floor("pairing", "next: loop head", heads, 1)
    sw_next = pairing(ctx, nx, "next", nx.return_blocks() + heads, peer_stores(nx), nw_effects(nx), 4)
    ctx.floor("pairing", "next: peer-state stores", peer_stores(nx), 2)
    ctx.floor("pairing", "next: counter updates", nw_effects(nx), 2)
    if sw_next and heads_s:
        ctx.ob("pairing", "next: the matched peer is the element of the scan over closest_peers", sw_next[1] == R(nx, heads_s[0]) + "@Some.0", lk.where(nx), sw_next[1][:200])
    for b, fn, new in ((os_, "on_success", "Succeeded"), (of, "on_failure", "Failed")):
        st = peer_stores(b)
        sw = pairing(ctx, b, fn, b.return_blocks(), st, nw_effects(b), 3)
        ctx.floor("pairing", fn + ": peer-state stores", st, 2)
        ctx.floor("pairing", fn + ": counter updates", nw_effects(b), 1)
        ctx.ob("pairing", "%s: only ever stores %s" % (fn, new), {v for _, v in st} == {new}, lk.where(b), str(sorted({v for _, v in st})))
        ENT = "std::collections::BTreeMap::entry(%s, libp2p_kad::kbucket::key::KeyBytes::distance(libp2p_kad::<kbucket::key::Key as std::convert::From>::from(#2).bytes, self.%s))" % (F.PEERS, F.target)
        ENT2 = "std::collections::BTreeMap::entry(%s, libp2p_kad::kbucket::key::Key::distance(libp2p_kad::<kbucket::key::Key as std::convert::From>::from(#2), self.%s))" % (F.PEERS, F.target)
        if sw:
            ok = any(sw[1] in (x % e) for e in (ENT, ENT2) for x in ("std::collections::btree_map::OccupiedEntry::get(%s@Occupied.0)", "std::collections::btree_map::OccupiedEntry::get_mut(%s@Occupied.0)"))
            ctx.ob("pairing", fn + ": the matched peer is the entry at distance(peer, target)", ok, lk.where(b), sw[1][:260])
            labs = b.switch_info(sw[0])[1]
            live = {v for t, ls in labs.items() for v in ls if any(s.bb in b.reachable([t]) for s, _ in st)}
            ctx.ob("pairing", fn + ": only Waiting / Unresponsive peers accept a result", live == {"Waiting", "Unresponsive"}, lk.where(b), str(sorted(live)))
    # the store-target check compares get_mut(e) with get(e): normalise
    # who writes
    writers, pst_writers = set(), set()
    for b in prog.bodies(K):
        if "query::peers::closest" not in b.npath or "disjoint" in b.npath:
            continue
        if lk.field_effects(b, F.nw):
            writers.add(lk.root_fn(prog, b))
        if b.field_write_sites(F.p_state, r"closest::Peer$"):
            pst_writers.add(lk.root_fn(prog, b))
    three = {"libp2p_kad::query::peers::closest::ClosestPeersIter::" + x for x in ("next", "on_success", "on_failure")}
    bad = sorted(r.short for r in writers if not lk.allowed_fn(prog, K, r, three))
    ctx.ob("pairing", "num_waiting written only by next/on_success/on_failure", not bad and three <= {r.npath for r in writers} | three and len(writers) >= 3, msg="writers %s; not permitted %s (private helpers inherit from their callers)" % (sorted(r.short for r in writers), bad))
    bad = sorted(r.short for r in pst_writers if not lk.allowed_fn(prog, K, r, three))
    ctx.ob("pairing", "Peer.state written only by next/on_success/on_failure", not bad and len(pst_writers) >= 3, msg="writers %s; not permitted %s" % (sorted(r.short for r in pst_writers), bad))
    ctx.ob("pairing", "every helper that updates num_waiting has a path-independent effect (summarised at its call sites)", not PROBLEMS, msg=str(sorted(set(PROBLEMS)))[:300])
    wc = ctx.body(K, CP + r"with_config$")
    ags = wc.agg_sites(r"closest::ClosestPeersIter$")
    f = {k: render(v) for k, v in wc.site_expr(ags[0])[4]} if len(ags) == 1 else {}
    ctx.ob("pairing", "constructor: num_waiting = 0, state Iterating{0}", f.get(F.nw) == "0" and f.get(F.state) == "libp2p_kad::query::peers::closest::State::Iterating{no_progress: 0}", lk.where(wc), str({k: v[:60] for k, v in f.items()}))
    new_peers = []
    for b in prog.bodies(K):
        if "query::peers::closest::ClosestPeersIter" in b.npath:
            for s in b.agg_sites(r"query::peers::closest::Peer$"):
                new_peers.append((b, s))
    ctx.floor("pairing", "Peer constructions", new_peers, 2)
    for b, s in new_peers:
        f = {k: render(v) for k, v in b.site_expr(s)[4]}
        ctx.ob("pairing", "every peer starts NotContacted", f.get(F.p_state) == "libp2p_kad::query::peers::closest::PeerState::NotContacted{}", s.loc(), str(f)[-120:])
    allowed = {"entry", "values_mut", "iter", "len", "into_values", "values", "get", "contains_key", "first_key_value", "last_key_value", "keys", "is_empty", "range"}
    used = {}
    for b in prog.bodies(K):
        if "query::peers::closest::ClosestPeersIter" not in b.npath:
            continue
        for s in b.call_sites(r"^std::collections::BTreeMap::\w+$"):
            e = b.site_expr(s)
            if e[2] and re.search(r"(^|\.)%s$" % re.escape(F.peers), render(e[2][0])):
                used.setdefault(strip_generics(e[1]).split("::")[-1], []).append(s)
    ctx.ob("pairing", "closest_peers is never overwritten, cleared or shrunk (only entry / read accessors)", set(used) <= allowed and {"entry", "values_mut", "into_values"} <= set(used), msg=str(sorted(used)))
    vi = os_.call_sites(r"btree_map::VacantEntry::insert$")
    ctx.floor("pairing", "on_success: VacantEntry::insert", vi, 1)
    for b in (os_, of, nx):
        oi = b.call_sites(r"btree_map::OccupiedEntry::(insert|remove|remove_entry)$|btree_map::Entry::(or_insert|or_insert_with|or_default|and_modify|insert_entry)$")
        ctx.ob("pairing", "%s: known peers are never replaced or removed" % b.npath.split("::")[-1], not oi, lk.where(b), str([R(b, s)[:60] for s in oi]))
    a = prog.adt(K, r"query::peers::closest::ClosestPeersIter$")
    ty = {f_["n"]: f_["ty"] for f_ in a["variants"][0]["fields"]}
    ctx.ob("result", "closest_peers is a BTreeMap keyed by Distance", re.match(r"^std::collections::BTreeMap<kbucket::key::Distance, query::peers::closest::Peer>$", ty.get(F.peers, "")) is not None, msg=ty.get(F.peers, "?"))
    # ------------------------------------------------------------------ capacity
    tab = {}
    sw = lk.switch_blocks(ac, r"^discr\(self\.%s\)$" % F.state)
    PARP, NRP = "^" + re.escape(F.PAR) + "$", "^" + re.escape(F.NRES) + "$"
    MAXP = r"^std::cmp::(Ord::)?max\((%s, %s|%s, %s)\)$" % (re.escape(F.NRES), re.escape(F.PAR), re.escape(F.PAR), re.escape(F.NRES))
    if len(sw) == 1:
        for t, ls in ac.switch_info(sw[0])[1].items():
            vals = []
            for s in lk.ret_sites(ac):
                if s.bb not in ac.reachable([t]):
                    continue
                e = ac.site_expr(s)
                if e[0] == "const":
                    vals.append("true" if e[1] == 1 else "false")
                elif lk.cmp_norm(e, NWP, PARP):
                    vals.append("num_waiting %s parallelism" % lk.cmp_norm(e, NWP, PARP))
                elif lk.cmp_norm(e, NWP, MAXP):
                    vals.append("num_waiting %s max(num_results, parallelism)" % lk.cmp_norm(e, NWP, MAXP))
                else:
                    vals.append("?" + render(e)[:80])
            for l in ls:
                tab[l] = sorted(vals)
    want = {"Iterating": ["num_waiting Ge parallelism"], "Finished": ["true"], "Stalled": ["num_waiting Ge max(num_results, parallelism)"]}
    ctx.ob("capacity", "at_capacity table", tab == want, lk.where(ac), "Iterating: num_waiting >= parallelism; Stalled: num_waiting >= max(num_results, parallelism); Finished: true — found %s" % str(tab)[:400])
    acs = nx.call_sites(CP + r"at_capacity$")
    ctx.floor("capacity", "next: at_capacity()", acs, 1, exact=True)
    wst = [s for s, v in peer_stores(nx) if v == "Waiting"]
    ctx.floor("capacity", "next: request issue site", wst, 1)
    ATCAP = "libp2p_kad::query::peers::closest::ClosestPeersIter::at_capacity(self)"

    def NOTCAP(c, r, l):
        return (l == "false" and r == ATCAP) or (l == "true" and r == "Not(%s)" % ATCAP)

    def CAP(c, r, l):
        return (l == "true" and r == ATCAP) or (l == "false" and r == "Not(%s)" % ATCAP)
    for s in wst:
        ctx.guarded("capacity", "next: new request only when not at capacity", s, NOTCAP, "at_capacity() is false")
        ok = bool(acs) and not (set(heads) & nx.reachable(nx.succ[s.bb]))
        ctx.ob("capacity", "next: returns right after issuing one request", ok, s.loc(), "the scan does not continue after state := Waiting (at_capacity() is not re-evaluated inside the loop)")
        t = R(nx, s)
        ctx.ob("capacity", "next: request deadline = now + peer_timeout", t == "libp2p_kad::query::peers::closest::PeerState::Waiting{0: <web_time::Instant as std::ops::Add>::add(#2, self.%s.peer_timeout)}" % F.config, s.loc(), t[-120:])
    for s in acs:
        ctx.ob("capacity", "next: capacity is evaluated before the scan", all(nx.dominates(s.bb, h) for h in heads) and all(s.bb not in nx.reachable(nx.succ[h]) for h in heads), s.loc(), "")
    res = {}
    for s in lk.ret_sites(nx):
        t = R(nx, s)
        m = re.match(r"^libp2p_kad::query::peers::PeersIterState::(\w+)\{(.*)\}$", t)
        kind = (m.group(1) + ("(Some)" if "Option::Some" in m.group(2) else "(None)" if m.group(1) == "Waiting" else "")) if m else "?"
        res.setdefault(kind, []).append(s)
    ctx.ob("capacity", "floor:next results", set(res) == {"Finished", "Waiting(Some)", "Waiting(None)", "WaitingAtCapacity"}, lk.where(nx), nontrivial=False, msg=str({k: len(v) for k, v in res.items()}))
    for s in res.get("Waiting(Some)", []):
        ctx.guarded("capacity", "next: a peer is handed out only when not at capacity", s, NOTCAP, "at_capacity() is false")
        got = cnt(nx, [0], [s.bb], wst)
        ctx.ob("capacity", "next: a handed-out peer was moved to Waiting exactly once", got == (1, 1), s.loc(), str(got))
        t = R(nx, s)
        ctx.ob("capacity", "next: the handed-out peer is the one marked Waiting", bool(sw_next) and (sw_next[1] + "." + F.p_key) in t, s.loc(), t[-160:])
    for s in res.get("WaitingAtCapacity", []):
        ctx.guarded("capacity", "next: WaitingAtCapacity only when at capacity", s, CAP, "at_capacity() is true")
    us = [s for s, v in peer_stores(nx) if v == "Unresponsive"]
    ctx.floor("capacity", "next: timeout site", us, 1)
    DEADLINE = r"\.%s@Waiting\.0$" % F.p_state
    expired = lk.rel_edges(nx, r"^#2$", DEADLINE, ">=")
    live_e = lk.rel_edges(nx, r"^#2$", DEADLINE, "<")
    for s in us:
        ctx.ob("capacity", "next: a slot is released by timeout only if now >= deadline", lk.passes(nx, s.bb, expired), s.loc(), "now >= timeout on every path")
    # ------------------------------------------------------------------ finishing
    fin_store = [s for s in nx.field_write_sites(F.state, r"closest::ClosestPeersIter$") if "State::Finished" in R(nx, s)]
    shortcut = lib.switch_edges_on(nx, r"^discr\(self\.%s\)$" % F.state, {"Finished"})
    # success counter: the Option<usize> local initialised with Some(0)
    rcs = [l for l, ds in nx.defs.items() if isinstance(l, int) and len(ds) >= 2 and any(d[0] == "stmt" and render(nx.rvalue_expr(d[3])) == "std::option::Option::Some{0: 0}" for d in ds)]
    ctx.ob("finish", "floor:next: success counter local", len(rcs) == 1, lk.where(nx), nontrivial=False, msg=str(rcs))
    rc = rcs[0] if rcs else -1
    RC = re.escape(nx.names.get(rc, "?"))
    CNTP = "^" + RC + r"@Some\.0$"
    rc_ge = lk.rel_edges(nx, CNTP, NRP, ">=")
    exhausted = set()
    for h in heads_s:
        exhausted |= lib.switch_edges_on_site(nx, h, {"None"})
    idle = lk.rel_edges(nx, NWP, r"^0$", "<=")
    busy = lk.rel_edges(nx, NWP, r"^0$", ">") | lk.rel_edges(nx, NWP, r"^0$", "!=")
    ctx.ob("finish", "floor:next: finishing tests", bool(rc_ge) and bool(exhausted) and bool(idle) and bool(busy) and bool(shortcut), lk.where(nx), nontrivial=False, msg="%s %s %s" % (rc_ge, exhausted, idle))
    for s in res.get("Finished", []):
        if shortcut and nx.must_pass_edges(s.bb, shortcut):
            continue
        a_ = lk.passes(nx, s.bb, rc_ge)
        b_ = lk.passes(nx, s.bb, exhausted) and lk.passes(nx, s.bb, idle)
        ctx.ob("finish", "next: Finished only when num_results closest peers succeeded or nothing is left and nothing is in flight", a_ or b_, s.loc(),
               "counter >= num_results edge: %s; exhausted and num_waiting == 0 edges: %s" % (a_, b_))
        got = cnt(nx, [0], [s.bb], fin_store)
        ctx.ob("finish", "next: reporting Finished stores State::Finished", got == (1, 1), s.loc(), str(got))
    for s in res.get("Waiting(None)", []):
        ctx.ob("finish", "next: Waiting(None) only when exhausted with requests in flight", lk.passes(nx, s.bb, exhausted) and lk.passes(nx, s.bb, busy), s.loc(), "")
    defs = []
    for d in nx.defs.get(rc, []):
        defs.append((mir.Site(nx, d[1], d[2]), render(nx.rvalue_expr(d[3])) if d[0] == "stmt" else "call"))
    resets = [s for s, t in defs if t == "std::option::Option::None{}"]
    inits = [s for s, t in defs if t == "std::option::Option::Some{0: 0}"]
    ctx.ob("finish", "next: success counter starts at Some(0) and is otherwise only reset to None", len(inits) == 1 and len(resets) >= 1 and len(defs) == len(inits) + len(resets), lk.where(nx), str([t for _, t in defs]))
    if sw_next:
        labs = nx.switch_info(sw_next[0])[1]
        exits = nx.return_blocks() + heads
        for t, ls in labs.items():
            if ls == {"Waiting"}:
                live = tg(live_e)
                got = cnt(nx, live, heads, resets) if live else None
                ctx.ob("finish", "next: a live Waiting peer resets the success counter", got == (1, 1), lk.where(nx),
                       "paths from `now < deadline` back to the scan pass `result_counter = None`: %s (else the lookup can finish with a closer peer still waiting)" % (got,))
            if ls == {"NotContacted"}:
                back = set(heads) & nx.reachable([t])
                ctx.ob("finish", "next: the scan never continues past a NotContacted peer", not back, lk.where(nx), "the NotContacted arm always returns")
        incs = []
        for bi in sorted(nx.live):
            for si, st_ in enumerate(nx.blocks[bi]["stmts"]):
                if st_["k"] == "assign" and st_["p"].get("pr") and re.match(CNTP, render(nx.place_expr(st_["p"]))):
                    incs.append(mir.Site(nx, bi, si))
        ctx.floor("finish", "next: success counter increment", incs, 1)
        succ_arm = [t for t, ls in labs.items() if ls == {"Succeeded"}]
        for s in incs:
            ok = bool(succ_arm) and s.bb in nx.reachable(succ_arm, stop_nodes=exits) and all(s.bb not in nx.reachable([t], stop_nodes=exits) for t, ls in labs.items() if ls != {"Succeeded"})
            ctx.ob("finish", "next: only Succeeded peers are counted towards num_results", ok and re.match(r"^Add(WithOverflow)?\(%s@Some\.0, 1\)(\.0)?$" % RC, R(nx, s)) is not None, s.loc(), R(nx, s))
    for b, fn in ((os_, "on_success"), (of, "on_failure")):
        sws = state_switch(b)
        for s in lk.ret_sites(b):
            if R(b, s) == "1" and sws:
                sc = lib.switch_edges_on(b, r"^discr\(self\.%s\)$" % F.state, {"Iterating", "Stalled"})
                sc = {(x, y) for (x, y) in sc if x == 0 or b.dominates(x, sws[0][0])}
                ctx.ob("finish", "%s: a finished lookup accepts no more results" % fn, lk.passes(b, s.bb, sc), s.loc(), "returns true only when not Finished")
    # ------------------------------------------------------------------ result
    ir = ctx.body(K, CP + r"into_result$")
    es = [ir.site_expr(s) for s in lk.ret_sites(ir)]
    ok = False
    if len(es) == 1:
        x = es[0]
        adaptors, takes = [], []
        while x[0] == "call" and re.search(r"iter::Iterator::\w+$", strip_generics(x[1])):
            nm = strip_generics(x[1]).split("::")[-1]
            adaptors.append(nm)
            if nm == "take":
                takes.append(render(x[2][1]))
            x = x[2][0]
        ok = (takes == [F.NRES] and set(adaptors) <= {"take", "filter_map", "filter", "map"} and ({"filter_map", "filter"} & set(adaptors))
              and render(x) == "std::collections::BTreeMap::into_values(%s)" % F.PEERS)
    ctx.ob("result", "into_result = filter Succeeded, take(num_results)", ok, lk.where(ir), str([render(e) for e in es])[:300])
    cls = [c for c in prog.bodies(K) if c.kind == "closure" and lk.root_fn(prog, c) is ir]
    tab = {}
    for cl in cls:
        for bi in sorted(cl.live):
            info = cl.switch_info(bi)
            if info and render(info[0]) == "discr(#2.%s)" % F.p_state:
                for t, ls in info[1].items():
                    vals = sorted({R(cl, s) for s in lk.ret_sites(cl) if s.bb in cl.reachable([t])})
                    for l in ls:
                        tab[l] = vals
    want = {"Succeeded": ["std::option::Option::Some{0: #2.%s.preimage}" % F.p_key]}
    for v in ("Failed", "NotContacted", "Unresponsive", "Waiting"):
        want[v] = ["std::option::Option::None{}"]
    if set(tab) == set(want) and all(tab[v] == ["0"] for v in want if v != "Succeeded") and tab["Succeeded"] == ["1"]:
        # `.filter(|p| matches!(p.state, Succeeded)).map(|p| p.key.into_preimage())`: boolean filter + projection
        tab = {v: (["std::option::Option::None{}"] if v != "Succeeded" else ["std::option::Option::Some{0: #2.%s.%s}" % (F.p_key, "preimage")]) for v in want}
    ok = set(tab) == set(want) and all(tab[v] == want[v] for v in want if v != "Succeeded") and len(tab["Succeeded"]) == 1 and re.match(r"^std::option::Option::Some\{0: (#2\.%s\.\w+|libp2p_kad::kbucket::key::Key::into_preimage\(#2\.%s\))\}$" % (F.p_key, F.p_key), tab["Succeeded"][0]) is not None
    ctx.ob("result", "into_result keeps exactly the peers that responded", ok, lk.where(ir), str(tab)[:300])
    check_fixed(ctx, prog)
    check_disjoint(ctx, prog)


def check_fixed(ctx, prog):
    FP = r"^libp2p_kad::query::peers::fixed::FixedPeersIter::"
    fp = r"query::peers::fixed::FixedPeersIter$"
    f_par = lk.fld(prog, fp, r"NonZero<usize>$")
    f_peers = lk.fld(prog, fp, r"HashMap<")
    f_iter = lk.fld(prog, fp, r"IntoIter<")
    f_state = lk.fld(prog, fp, r"fixed::State$")
    f_nw = lk.fld(prog, r"query::peers::fixed::State$", r"^usize$")
    NW = r"^self\.%s@Waiting\.%s$" % (f_state, f_nw)
    PAR = r"^std::num::NonZero::get\(self\.%s\)$" % f_par
    nx = ctx.body(K, FP + r"next$")
    W = lk.where(nx)
    rets = nx.return_blocks()
    ins = [s for s in nx.call_sites(r"hash_map::VacantEntry::insert$") if "fixed::PeerState::Waiting{}" in R(nx, s)]
    ctx.floor("fixed", "next: insert(PeerState::Waiting)", ins, 1, exact=True)
    eff = lk.field_effects(nx, f_nw)
    incs = [s for s, k, _ in eff if k == "inc"]
    ctx.ob("fixed", "next: num_waiting only incremented", [k for _, k, _ in eff] == ["inc"], W, str([(k, t) for _, k, t in eff]))
    heads_s = [s for s in nx.call_sites(r"Iterator>?::next$") if render(nx.site_expr(s)[2][0]) == "self.%s" % f_iter]
    heads = lib.bbs(heads_s)
    for s in ins:
        lk.limit(ctx, "fixed", "new request only below parallelism", s, NW, PAR, "num_waiting < parallelism")
        got = add(cnt(nx, [0], [s.bb], incs), cnt(nx, nx.succ[s.bb], rets, incs))
        ctx.ob("fixed", "new request is counted exactly once", got == (1, 1), s.loc(), str(got))
        ctx.guarded("fixed", "a peer is contacted at most once (vacant entry)", s, lambda c, r, l: l == "Vacant" and r.startswith("discr(std::collections::HashMap::entry(self.%s, " % f_peers), "entry is Vacant")
        ctx.ob("fixed", "next: returns right after issuing one request", not (set(heads) & nx.reachable(nx.succ[s.bb])), s.loc(), "")
    for s in incs:
        got = add(cnt(nx, [0], [s.bb], ins), cnt(nx, nx.succ[s.bb], rets, ins))
        ctx.ob("fixed", "every increment comes with a new Waiting peer", got == (1, 1), s.loc(), str(got))
    fin = [s for s in lk.ret_sites(nx) if R(nx, s) == "libp2p_kad::query::peers::PeersIterState::Finished{}"]
    zero = lk.rel_edges(nx, NW, r"^0$", "<=")
    done = lib.switch_edges_on(nx, r"^discr\(self\.%s\)$" % f_state, {"Finished"})
    for s in fin:
        if done and nx.must_pass_edges(s.bb, done):
            continue
        ex = set()
        for h in heads_s:
            ex |= lib.switch_edges_on_site(nx, h, {"None"})
        ctx.ob("fixed", "Finished only when exhausted and nothing in flight", lk.passes(nx, s.bb, zero) and lk.passes(nx, s.bb, ex), s.loc(), "")
    for fn, new in (("on_success", "Succeeded"), ("on_failure", "Failed")):
        b = ctx.body(K, FP + fn + "$")
        st = b.agg_sites(r"peers::fixed::PeerState$")
        eff = lk.field_effects(b, f_nw)
        decs = [s for s, k, _ in eff if k == "dec"]
        ctx.ob("fixed", fn + ": one store, one decrement site", len(st) == 1 and [k for _, k, _ in eff] == ["dec"], lk.where(b), "%d stores, %s" % (len(st), [k for _, k, _ in eff]))
        wait = b.guard_edges(lambda c, r, l: l == "Waiting" and r == "discr(std::collections::HashMap::get_mut(self.%s, #2)@Some.0)" % f_peers)
        for s in st:
            ctx.ob("fixed", fn + ": stores " + new, lib.agg_variants(b.site_expr(s), r"fixed::PeerState$") == [new], s.loc(), R(b, s))
            ctx.ob("fixed", fn + ": only a Waiting peer changes state", lk.passes(b, s.bb, wait), s.loc(), "")
            got = add(cnt(b, [0], [s.bb], decs), cnt(b, b.succ[s.bb], b.return_blocks(), decs))
            ctx.ob("fixed", fn + ": leaving Waiting is paired with one decrement", got == (1, 1), s.loc(), str(got))
        for s in decs:
            ctx.ob("fixed", fn + ": decrement only for a Waiting peer", lk.passes(b, s.bb, wait), s.loc(), "")
    ir = ctx.body(K, FP + r"into_result$")
    cls = [c for c in prog.bodies(K) if c.kind == "closure" and lk.root_fn(prog, c) is ir]
    tab = {}
    for cl in cls:
        for bi in sorted(cl.live):
            info = cl.switch_info(bi)
            if info and render(info[0]) == "discr(#2.1)":
                for t, ls in info[1].items():
                    for l in ls:
                        tab[l] = sorted({R(cl, s) for s in lk.ret_sites(cl) if s.bb in cl.reachable([t])})
    ctx.ob("fixed", "into_result keeps exactly the peers that responded", tab == {"Succeeded": ["std::option::Option::Some{0: #2.0}"], "Failed": ["std::option::Option::None{}"], "Waiting": ["std::option::Option::None{}"]}, lk.where(ir), str(tab))


def check_disjoint(ctx, prog):
    DP = r"^libp2p_kad::query::peers::closest::disjoint::ClosestDisjointPeersIter::"
    dp = r"disjoint::ClosestDisjointPeersIter$"
    f_contacted = lk.fld(prog, dp, r"^std::collections::HashMap<")
    f_iters = lk.fld(prog, dp, r"^std::vec::Vec<query::peers::closest::ClosestPeersIter>$")
    f_order = lk.fld(prog, dp, r"^std::iter::Cycle<")
    f_init = lk.fld(prog, r"disjoint::PeerState$", r"IteratorIndex$")
    nx = ctx.body(K, DP + r"next$")
    CONT = "self.%s" % f_contacted
    ins = [s for s in nx.call_sites(r"HashMap::insert$") if render(nx.site_expr(s)[2][0]) == CONT]
    ctx.floor("disjoint", "next: contacted_peers.insert", ins, 1, exact=True)
    miss = nx.guard_edges(lambda c, r, l: l == "None" and r.startswith("discr(std::collections::HashMap::get_mut(%s, " % CONT))
    for s in ins:
        ctx.ob("disjoint", "a peer is recorded as contacted only on first contact", lk.passes(nx, s.bb, miss), s.loc(), "contacted_peers.get_mut(peer) is None")
        e = nx.site_expr(s)
        v = e[2][2]
        fv = dict(v[4]) if v[0] == "agg" else {}
        t = render(fv.get(f_init, v))
        ctx.ob("disjoint", "the contacting path is the iterator that yielded the peer", "Iterator>::next(self.%s)" % f_order in t, s.loc(), t[-200:])
    outs = [s for s in lk.ret_sites(nx) if "PeersIterState::Waiting{0: std::option::Option::Some" in R(nx, s)]
    ctx.floor("disjoint", "next: yielded peer", outs, 1)
    for s in outs:
        got = cnt(nx, tg(miss), [s.bb], ins) if miss else None
        ctx.ob("disjoint", "a peer is yielded only on first contact and recorded exactly once", lk.passes(nx, s.bb, miss) and got == (1, 1), s.loc(), str(got))
    os_ = ctx.body(K, DP + r"on_success$")
    calls = os_.call_sites(CP + r"on_success$")
    ctx.floor("disjoint", "on_success: forwarded calls", calls, 2)
    full = [s for s in calls if render(os_.site_expr(s)[2][2]) == "#3"]
    rest = [s for s in calls if s not in full]
    ok = len(full) == 1 and re.search(r"\(self\.%s, .*@Some\.0\.%s" % (f_iters, f_init), R(os_, full[0])) is not None
    ctx.ob("disjoint", "closer peers are passed only to the path that initiated the request", ok, lk.where(os_), str([R(os_, s)[:160] for s in full]))
    ctx.ob("disjoint", "other paths learn the outcome but no peers", bool(rest) and all(render(os_.site_expr(s)[2][2]) == "std::iter::empty()" for s in rest), lk.where(os_), str([render(os_.site_expr(s)[2][2]) for s in rest]))
    rin = ctx.body(K, r"disjoint::ResultIter as std::iter::Iterator>::next$")
    ris = [c for c in prog.bodies(K) if c.kind == "closure" and lk.root_fn(prog, c) is rin]
    found = []
    for ri in ris:
        for bi in sorted(ri.live):
            info = ri.switch_info(bi)
            if not info:
                continue
            c = lk.as_cmp(info[0])
            if not c or c[0] not in ("Lt", "Le", "Gt", "Ge"):
                continue
            heads = []
            for x in (c[1], c[2]):
                m = re.match(r"^libp2p_kad::kbucket::key::KeyBytes::distance\(\^0, std::iter::Peekable::peek\((.*)\)@Some\.0\)(\.0)?$", render(x))
                heads.append(m.group(1) if m else None)
            if None in heads or heads[0] == heads[1]:
                continue
            pick = {}
            for t, ls in info[1].items():
                vals = sorted({R(ri, s) for s in lk.ret_sites(ri) if s.bb in ri.reachable([t]) and ri.dominates(t, s.bb)})
                pick["|".join(sorted(ls))] = vals
            closer_when_true = heads[0] if c[0] in ("Lt", "Le") else heads[1]
            other = heads[1] if c[0] in ("Lt", "Le") else heads[0]
            ok = pick.get("true") == ["std::option::Option::Some{0: %s}" % closer_when_true] and pick.get("false") == ["std::option::Option::Some{0: %s}" % other]
            found.append((ri, ok, "%s(distance(target, head of %s), distance(target, head of %s)) -> %s" % (c[0], heads[0], heads[1], pick)))
    ctx.ob("disjoint", "floor:ResultIter distance comparison", len(found) == 1, lk.where(rin), nontrivial=False, msg=str(len(found)))
    for ri, ok, msg in found:
        ctx.ob("disjoint", "ResultIter yields the closer head first", ok, lk.where(ri), msg)

# thorough-tier sensitivity self-test (vrules/selftest.py): one-edit variants of the source that break the property
MUTANTS = [
    {"name": 'next: increment dropped', "file": 'protocols/kad/src/query/peers/closest.rs',
     "find": '                        peer.state = PeerState::Waiting(timeout);\n                        self.num_waiting += 1;\n',
     "replace": '                        peer.state = PeerState::Waiting(timeout);\n',
     "expect": '^pairing/next: entering Waiting is paired', "why": 'unbounded in-flight requests'},
    {"name": 'at_capacity Iterating >= -> >', "file": 'protocols/kad/src/query/peers/closest.rs',
     "find": 'State::Iterating { .. } => self.num_waiting >= self.config.parallelism.get(),',
     "replace": 'State::Iterating { .. } => self.num_waiting > self.config.parallelism.get(),',
     "expect": '^capacity/at_capacity table', "why": 'parallelism + 1 requests'},
    {"name": 'into_result: take dropped', "file": 'protocols/kad/src/query/peers/closest.rs',
     "find": '            .take(self.config.num_results.get())\n    }',
     "replace": '    }',
     "expect": '^result/into_result = filter Succeeded, take', "why": 'more than num_results peers returned'},
    {"name": 'fixed: >= -> >', "file": 'protocols/kad/src/query/peers/fixed.rs',
     "find": 'if *num_waiting >= self.parallelism.get() {',
     "replace": 'if *num_waiting > self.parallelism.get() {',
     "expect": '^fixed/new request only below parallelism', "why": 'parallelism + 1 requests'},
    {"name": 'next: success counter not reset', "file": 'protocols/kad/src/query/peers/closest.rs',
     "find": '                        result_counter = None;\n',
     "replace": '',
     "expect": '^finish/next: a live Waiting peer resets', "why": 'finishes with a closer peer still waiting'},
]
