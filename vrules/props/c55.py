"""C55 mDNS responses encode exactly the advertised addresses and fit the packet limit — size derivation from push/append counts + constants (K6/K2), origin (K5), limit guards (K9), guards (K1), literal agreement (K11), panic inventory (K10)."""
import re

from .. import lib, lib_mux, mir
from ..mir import render

EXPLANATION = (
    "Encoding (dns.rs): in append_txt_record the <character-string> length byte is a value derived from the length of the very buffer "
    "append_character_string wrote into, measured after that call (not from the unescaped value), the `> MAX_TXT_VALUE_LENGTH (255)` "
    "rejection is on that same quantity and dominates the store, so `as u8` cannot truncate; RDLENGTH is that buffer's length; escaping "
    "doubles `\\\\` and escapes `\"` inside the quotes. Packet size is *derived*, not trusted: bytes per record = constant pushes + 4 per "
    "append_u32 + 2 per append_u16 (helper bodies counted) + record name + 1 + MAX_TXT_VALUE_LENGTH, where the record name is the QNAME of "
    "generate_peer_name's random label (length bounds read from its constants, also shown to satisfy append_qname's 0 < len < 64 "
    "assertions); header bytes likewise from query_response_packet; a packet is cut when `records.len() == MAX_RECORDS_PER_PACKET` is "
    "tested after every push (unit increments from an empty/cleared vector), and the constants satisfy derived_header + "
    "MAX_RECORDS_PER_PACKET * derived_record <= MAX_PACKET_SIZE == 9000 - 68, with MAX_TXT_RECORD_SIZE >= derived_record. The name passed "
    "to every record and to the packet header is the one generated peer name. Decoding (query.rs): only PTR answers for SERVICE_NAME_FQDN "
    "are followed, only TXT additionals whose owner equals the PTR target are read, an address is kept only if it starts with the literal "
    "the encoder writes (`dnsaddr=`, sliced at exactly its length) and its popped last component is P2p(id) with id equal to the first id "
    "seen (all addresses attributed to one peer). No-panic: the inventory of panic-capable sites reachable from packet parsing is the "
    "guarded index/slice sites of decode_character_string and the `[8..]` slice behind starts_with.")
ASSUMPTIONS = ["hickory_proto's DNS parser/encoder and Multiaddr parsing are trusted; value round-trip through them is not decided",
               "decode_character_string does not undo `\\\\`/`\\\"` escapes (upstream TODO): addresses containing a space together with a quote or backslash do not round-trip; this is noted, not claimed",
               "rand::random_range(a..b) yields a value in [a, b); random_string(n) yields n alphanumeric characters (no dots)"]
MD = "libp2p_mdns"
D = "libp2p_mdns::behaviour::iface::dns::"

SELFTEST = [
    {"mutation": "(pre-fix code) length byte `vec![value.len() as u8]`", "caught_by": "txt/length byte is the length of the escaped string"},
    {"mutation": "(pre-fix constants) MAX_TXT_RECORD_SIZE = 255 + 45, MAX_RECORDS_PER_PACKET = (MAX_PACKET_SIZE - 100) / 300", "caught_by": "size/MAX_TXT_RECORD_SIZE covers the largest record append_txt_record can emit + size/largest packet fits MAX_PACKET_SIZE"},
    {"mutation": "append_txt_record: `string_len > MAX_TXT_VALUE_LENGTH` -> `>=`-free variant `string_len > MAX_TXT_VALUE_LENGTH + 1`", "caught_by": "txt/oversize strings are rejected before the length byte is written"},
    {"mutation": "build_query_response: `records.len() == MAX_RECORDS_PER_PACKET` -> `>`", "caught_by": "size/the batch is cut at exactly MAX_RECORDS_PER_PACKET records"},
    {"mutation": "generate_peer_name: random_string(40 + random_range(0..32))", "caught_by": "size/peer name label satisfies append_qname's assertions"},
    {"mutation": "MAX_PACKET_SIZE = 9000", "caught_by": "size/MAX_PACKET_SIZE leaves room for IP and UDP headers"},
    {"mutation": "MdnsPeer::new: mismatching peer id accepted (`peer_id != *pid` branch removed)", "caught_by": "decode/an address is kept only if its peer id equals the first one seen"},
    {"mutation": "MdnsPeer::new: slice `&addr[9..]`", "caught_by": "decode/prefix literal, its test and the slice offset agree"},
    {"mutation": "decode_character_string: `from.len() == 1 ||` dropped", "caught_by": "nopanic/range 1..len-1 only for len >= 2"},
    {"mutation": "append_character_string: backslash escaped with a single backslash", "caught_by": "txt/escape table"},
    {"mutation": "query_response_packet: header writes peer_id twice", "caught_by": "size/every header byte of query_response_packet is accounted for"},
    {"mutation": "build_query_response: a record is pushed on the Err arm as well", "caught_by": "encode/only successfully encoded records are sent"},
    {"mutation": "(neutral, must stay silent) parameters/locals renamed (value, buffer, records), `MAX <= batch.len()`, swapped `!=` operands and renamed closure parameter in MdnsPeer::new; /verif/neutral/mux/10.diff", "caught_by": "silent"},
]


def _w(b):
    return "%s:%d" % (b.file, b.line)


def _count_on_all_paths(body, sites, ends):
    return lib.count_range(body, [0], ends, lib.bbs(sites))


def check(ctx):
    lib_mux.canon_roles(ctx.prog, 'libp2p_mdns')
    old = mir.RENDER_MAX[0]
    mir.RENDER_MAX[0] = 40
    try:
        lib_mux.sections(ctx, _encode, _decode)
    finally:
        mir.RENDER_MAX[0] = old


def _pushes_of_helper(ctx, name):
    """Number of bytes a straight-line helper (append_u16 / append_u32) appends: its Vec::push(out, _) count on all paths."""
    b = lib_mux.canon_args(ctx.body(MD, r"iface::dns::%s$" % name), ["out", "value"])
    ps = [s for s in b.call_sites(r"Vec::push$") if render(b.site_expr(s)[2][0]) == "out"]
    others = [s for s in b.call_sites(r"Vec::(extend_from_slice|extend|insert|append|resize)$")]
    rng = _count_on_all_paths(b, ps, b.return_blocks())
    ok = rng is not None and rng[0] == rng[1] and not others
    return b, (rng[0] if ok else None)


def _encode(ctx):
    prog = ctx.prog
    C = {n: prog.const(MD, r"iface::dns::%s$" % n).get("v") for n in ("MAX_TXT_VALUE_LENGTH", "MAX_TXT_RECORD_SIZE", "MAX_PACKET_SIZE", "MAX_RECORDS_PER_PACKET")}
    ctx.ob("size", "MAX_TXT_VALUE_LENGTH is the character-string maximum 255", C["MAX_TXT_VALUE_LENGTH"] == 255, msg=str(C))
    ctx.ob("size", "MAX_PACKET_SIZE leaves room for IP and UDP headers", isinstance(C["MAX_PACKET_SIZE"], int) and C["MAX_PACKET_SIZE"] + 60 + 8 <= 9000, msg="MAX_PACKET_SIZE = %s, + 68 <= 9000" % C["MAX_PACKET_SIZE"])
    b16, n16 = _pushes_of_helper(ctx, "append_u16")
    b32, n32 = _pushes_of_helper(ctx, "append_u32")
    ctx.ob("size", "append_u16 appends 2 bytes and append_u32 4 bytes on every path", (n16, n32) == (2, 4), _w(b16), "append_u16: %s, append_u32: %s" % (n16, n32))

    # ------------------------------------------------------------------ append_txt_record: the length byte
    tr = lib_mux.canon_args(ctx.body(MD, r"iface::dns::append_txt_record$"), ["out", "name", "ttl_secs", "value"])
    acs = tr.call_sites(r"iface::dns::append_character_string$")
    ctx.floor("txt", "append_character_string call", acs, 1, exact=True)
    BUF = render(tr.site_expr(acs[0])[2][0])
    ctx.ob("txt", "the escaped string is built from the record's value", render(tr.site_expr(acs[0])[2][1]) == "value", acs[0].loc(), render(tr.site_expr(acs[0])))
    cont = lib_mux.ok_edges(tr, acs[0])
    # candidates for the length byte: every `(E as u8)` that is stored into the string buffer (initial element, indexed store, push)
    cands = []
    for bi in sorted(tr.live):
        for si, st in enumerate(tr.blocks[bi]["stmts"]):
            if st["k"] != "assign":
                continue
            e = tr.rvalue_expr(st["r"])
            for x in mir.walk(e):
                if x[0] == "cast" and x[2] == "u8":
                    cands.append((mir.Site(tr, bi, si), x[1]))
    for s in tr.call_sites(r"Vec::push$"):
        e = tr.site_expr(s)
        if render(e[2][0]) == BUF:
            for x in mir.walk(e[2][1]):
                if x[0] == "cast" and x[2] == "u8":
                    cands.append((s, x[1]))
    ctx.floor("txt", "length-byte computation `(.. as u8)`", cands, 1)
    LENV = None
    for s, e in cands:
        r = render(e)
        leaves = [render(x) for x in mir.walk(e) if x[0] == "call"]
        from_buf = any(l == "std::vec::Vec::len(%s)" % BUF for l in leaves)
        from_val = any("str::len(value)" in l or l.endswith("::len(value)") for l in leaves)
        after = bool(cont) and tr.must_pass_edges(s.bb, cont)
        ok = from_buf and not from_val and after
        ctx.ob("txt", "length byte is the length of the escaped string", ok, s.loc(),
               "%s — %s" % (r[-90:], "measured on the buffer after append_character_string" if ok else "the <character-string> length byte must be derived from the buffer append_character_string wrote (after the call), not from the unescaped value"))
        if ok:
            LENV = (s, e)
    if LENV:
        s, e = LENV
        r = render(e)
        ctx.ob("txt", "length byte counts the string without the length byte itself", r == "SubWithOverflow(std::vec::Vec::len(%s), 1).0" % BUF, s.loc(), r)
        idx = [x for x in tr.call_sites(r"IndexMut>::index_mut$") if render(tr.site_expr(x)) == "<std::vec::Vec as std::ops::IndexMut>::index_mut(%s, 0)" % BUF]
        ctx.ob("txt", "the length byte is stored in front of the string", bool(idx) and tr.dominates(idx[0].bb, s.bb), s.loc(), "buffer[0] = len")
        lrel = lib_mux.rel_edges(tr, lambda x: render(x) == r, lambda e: lib_mux.cval(e) == C["MAX_TXT_VALUE_LENGTH"], ctx.prog)
        acc = lib_mux.edges_with(lrel, {"le", "lt"})
        ctx.ob("txt", "oversize strings are rejected before the length byte is written", bool(acc) and tr.must_pass_edges(s.bb, acc), s.loc(),
               "dominated by `escaped_len <= MAX_TXT_VALUE_LENGTH` (relations found: %s)" % sorted({x["rel"] for x in lrel}))
        z = lib_mux.zero_assigns(tr)
        over = lib_mux.edges_with(lrel, {"gt"})
        for bb, val in z.items():
            if "TxtRecordTooLong" in val:
                ctx.ob("txt", "TxtRecordTooLong only for strings longer than 255 bytes", bool(over) and tr.must_pass_edges(bb, over), _w(tr), "dominated by escaped_len > MAX_TXT_VALUE_LENGTH")
    rd = [s for s in tr.call_sites(r"iface::dns::append_u16$")]
    ext = [s for s in tr.call_sites(r"Vec::extend_from_slice$") if render(tr.site_expr(s)[2][0]) == "out"]
    ctx.floor("txt", "RDLENGTH + RDATA writes", rd + ext, 3)
    rdl = [s for s in rd if render(tr.site_expr(s)[2][1]) == "(std::vec::Vec::len(%s) as u16)" % BUF]
    data = [s for s in ext if BUF in render(tr.site_expr(s)[2][1])]
    ctx.ob("txt", "RDLENGTH is the length of the data that follows", len(rdl) == 1 and len(data) == 1 and tr.dominates(rdl[0].bb, data[0].bb) and (LENV is None or tr.dominates(LENV[0].bb, rdl[0].bb)),
           rdl[0].loc() if rdl else _w(tr), "append_u16(out, buffer.len()) then out.extend_from_slice(&buffer), after the length byte was fixed")
    # escape table
    cs = lib_mux.canon_args(ctx.body(MD, r"iface::dns::append_character_string$"), ["out", "ascii_str"])
    table = {}
    for s in cs.call_sites(r"Vec::push$"):
        e = cs.site_expr(s)
        val = e[2][1]
        cls = None            # which input byte this push handles: 92, 34, "other" (inside the loop), "quote" (outside)
        inloop = False
        for t, ls, _, c in cs.guards_on_all_paths(s.bb):
            cm = lib_mux._cmp_of(c)
            if cm and cm[0] in ("eq", "ne") and lib_mux.cval(cm[2]) is not None and "Iterator>::next(" in render(cm[1]):
                inloop = True
                holds = ("true" in ls) == (cm[0] == "eq")
                if holds and ls in (frozenset(["true"]), frozenset(["false"])):
                    cls = lib_mux.cval(cm[2])
            elif "Iterator>::next(" in t and t.endswith("@Some.0") and all(isinstance(l, int) or l == "otherwise" for l in ls):
                inloop = True
                ints = [l for l in ls if isinstance(l, int)]
                if len(ints) == 1 and "otherwise" not in ls:
                    cls = ints[0]
            elif t.startswith("discr(") and "Iterator>::next(" in t and "Some" in ls:
                inloop = True
        if cls is None:
            cls = "other" if inloop else "quote"
        v = lib_mux.cval(val)
        table.setdefault(cls, []).append(v if v is not None else ("<byte>" if "Iterator>::next(" in render(val) else render(val)[-30:]))
    want = {"quote": [34, 34], 92: [92, 92], 34: [92, 34], "other": ["<byte>"]}
    ctx.ob("txt", "escape table", table == want, _w(cs),
           "quotes around, `\\\\`->`\\\\\\\\`, `\"`->`\\\\\"`, other bytes verbatim: %s" % {str(k): v for k, v in table.items()})
    z = lib_mux.zero_assigns(cs)
    for bb, val in z.items():
        if val == "std::result::Result::Ok{0: tuple{}}":
            ctx.ob("txt", "only ASCII values are written", cs.must_pass_edges(bb, cs.guard_edges(lambda c, r, l: l == "true" and r == "core::str::is_ascii(ascii_str)")), _w(cs), "Ok dominated by is_ascii")

    # ------------------------------------------------------------------ derived record size
    ok_ret = [bb for bb, v in lib_mux.zero_assigns(tr).items() if v == "std::result::Result::Ok{0: tuple{}}"]
    const_push = [s for s in tr.call_sites(r"Vec::push$") if render(tr.site_expr(s)[2][0]) == "out"]
    u32s = tr.call_sites(r"iface::dns::append_u32$")
    u16s = [s for s in tr.call_sites(r"iface::dns::append_u16$") if render(tr.site_expr(s)[2][0]) == "out"]
    names = [s for s in ext if render(tr.site_expr(s)[2][1]) == "name"]
    parts = {}
    for label, sites in (("push", const_push), ("u32", u32s), ("u16", u16s), ("name", names), ("data", data)):
        parts[label] = lib.count_range(tr, [0], ok_ret, lib.bbs(sites)) if ok_ret else None
    exact = all(v is not None and v[0] == v[1] for v in parts.values())
    unknown_writes = [s for s in tr.call_sites(r"Vec::(extend_from_slice|extend|append|insert|resize|push)$|iface::dns::append_") if render(tr.site_expr(s)[2][0]) == "out" and s not in const_push + u32s + u16s + names + data]
    ctx.ob("size", "every byte append_txt_record writes is accounted for", exact and not unknown_writes and parts["name"] == (1, 1) and parts["data"] == (1, 1), _w(tr), "per successful call: %s; unaccounted writes: %d" % (parts, len(unknown_writes)))
    # record name bound from generate_peer_name
    gp = ctx.body(MD, r"iface::dns::generate_peer_name$")
    rs = gp.call_sites(r"iface::dns::random_string$")
    ctx.floor("size", "random_string call", rs, 1, exact=True)
    argx = gp.site_expr(rs[0])[2][0]
    arg = render(argx)

    def _range(e):
        """(lo, hi) of `rand::random_range(a..b)` / `a..=b`."""
        if e[0] == "call" and mir.strip_generics(e[1]).endswith("random_range") and e[2] and e[2][0][0] == "agg":
            f = dict(e[2][0][4])
            a_, b_ = lib_mux.cval(f.get("start", ("unknown", "?"))), lib_mux.cval(f.get("end", ("unknown", "?")))
            if a_ is not None and b_ is not None:
                return (a_, b_ if "RangeInclusive" in mir.strip_generics(e[2][0][2] or "") else b_ - 1)
        return None

    def _bounds(e):
        if lib_mux.cval(e) is not None:
            return (lib_mux.cval(e), lib_mux.cval(e))
        if _range(e):
            return _range(e)
        if e[0] == "field" and e[2] == "0" and e[1][0] == "bin" and e[1][1] == "AddWithOverflow":
            e = ("bin", "Add", e[1][2], e[1][3])
        if e[0] == "bin" and e[1] == "Add":
            x, y = _bounds(e[2]), _bounds(e[3])
            if x and y:
                return (x[0] + y[0], x[1] + y[1])
        return None
    bd = _bounds(argx)
    lo, hi = bd if bd else (None, None)
    ctx.ob("size", "peer name length bounds are readable from generate_peer_name", bd is not None and hi >= lo, rs[0].loc(), "random_string(%s) -> label length in [%s, %s]" % (arg[-70:], lo, hi))
    qn = gp.call_sites(r"iface::dns::append_qname$")
    ctx.ob("size", "the peer name is the QNAME of that single random label", len(qn) == 1 and render(gp.site_expr(qn[0])[2][1]) == "std::string::String::as_bytes(%s)" % render(gp.site_expr(rs[0])) and
           [render(gp.rvalue_expr(d[3])) for d in gp.defs.get(0, []) if d[0] == "stmt"] == [render(gp.site_expr(qn[0])[2][0])], qn[0].loc() if qn else _w(gp), "append_qname(&mut peer_name_bytes, peer_name.as_bytes()); peer_name_bytes")
    aq = lib_mux.canon_args(ctx.body(MD, r"iface::dns::append_qname$"), ["out", "name"])
    lrel = lib_mux.rel_edges(aq, lambda e: render(e).startswith("core::slice::len("), lambda e: (lib_mux.cval(e) or 0) > 0)
    lims = sorted({lib_mux.cval(x["rhs"]) + (1 if x["rel"] == "le" else 0) for x in lrel if x["rel"] in ("lt", "le")})
    maxlabel = lims[0] if len(lims) == 1 else None
    ctx.ob("size", "peer name label satisfies append_qname's assertions", lo is not None and maxlabel is not None and 0 < lo and hi < maxlabel, _w(aq), "label length in [%s, %s], append_qname asserts 0 < len < %s" % (lo, hi, maxlabel))
    name_max = (hi + 2) if hi is not None else None
    rec_fixed = (parts["push"][1] + n32 * parts["u32"][1] + n16 * parts["u16"][1]) if exact and n16 and n32 else None
    rec_max = (rec_fixed + name_max + 1 + C["MAX_TXT_VALUE_LENGTH"]) if rec_fixed is not None and name_max is not None else None
    ctx.ob("size", "MAX_TXT_RECORD_SIZE covers the largest record append_txt_record can emit", rec_max is not None and C["MAX_TXT_RECORD_SIZE"] >= rec_max, _w(tr),
           "derived: name <= %s, fixed fields %s, string 1 + %s  => %s bytes; MAX_TXT_RECORD_SIZE = %s" % (name_max, rec_fixed, C["MAX_TXT_VALUE_LENGTH"], rec_max, C["MAX_TXT_RECORD_SIZE"]))

    # ------------------------------------------------------------------ derived header size + packet cutting
    qp = lib_mux.canon_args(ctx.body(MD, r"iface::dns::query_response_packet$"), ["id", "peer_id", "records", "ttl"])
    loops = [s for s in qp.call_sites(r"Iterator>::next$")]
    head = loops[0].bb if loops else None
    pre = qp.reachable([0], stop_nodes=[head]) if head is not None else set()
    h16 = [s for s in qp.call_sites(r"iface::dns::append_u16$") if s.bb in pre]
    h32 = [s for s in qp.call_sites(r"iface::dns::append_u32$") if s.bb in pre]
    hq = [s for s in qp.call_sites(r"iface::dns::append_qname$") if s.bb in pre]
    hx = [s for s in qp.call_sites(r"Vec::extend_from_slice$") if s.bb in pre]
    hp = [s for s in qp.call_sites(r"Vec::push$") if s.bb in pre]
    body_ext = [s for s in qp.call_sites(r"Vec::extend_from_slice$") if s.bb not in pre]
    sn = prog.const(MD, r"^libp2p_mdns::SERVICE_NAME$").get("s")
    straight = head is not None and all(len(qp.succ[b]) <= 1 for b in pre if b != head)
    ok_h = straight and len(hq) == 1 and render(qp.site_expr(hq[0])[2][1]) in ("const:libp2p_mdns::SERVICE_NAME", repr(sn)) and len(hx) == 1 and render(qp.site_expr(hx[0])[2][1]) == "peer_id" and isinstance(sn, str)
    hdr_max = (n16 * len(h16) + n32 * len(h32) + len(hp) + len(sn) + 2 + name_max) if ok_h and name_max is not None else None
    ctx.ob("size", "every header byte of query_response_packet is accounted for", ok_h, _w(qp), "%d x u16, %d x u32, QNAME(SERVICE_NAME = %r), peer name; then one extend_from_slice per record" % (len(h16), len(h32), sn))
    ctx.ob("size", "the packet body is exactly the records", len(body_ext) == 1 and "Iterator>::next(" in render(qp.site_expr(body_ext[0])[2][1]) and len(loops) == 1 and
           any(render(qp.rvalue_expr(d[3])).endswith("(records)") for l_ in [x[1] for x in mir.walk(qp.site_expr(loops[0])) if x[0] == "local"] for d in qp.defs.get(l_, []) if d[0] == "stmt"),
           _w(qp), "for record in records { out.extend_from_slice(record) }")
    bq = lib_mux.canon_args(ctx.body(MD, r"iface::dns::build_query_response$"), ["id", "peer_id", "addresses", "ttl"])
    pk0 = bq.call_sites(r"iface::dns::query_response_packet$")
    RECS = None
    for s_ in pk0:          # the batch vector = the (named, growing) vector handed to query_response_packet
        m_ = re.match(r"^<std::vec::Vec as std::ops::Deref>::deref\((\w+)\)$", render(bq.site_expr(s_)[2][2]))
        if m_:
            RECS = m_.group(1)
    if RECS is None:
        raise mir.RuleError("build_query_response: the record batch passed to query_response_packet is not a named vector")
    rpush = [s for s in bq.call_sites(r"Vec::push$") if render(bq.site_expr(s)[2][0]) == RECS]
    ctx.floor("size", "records.push", rpush, 1, exact=True)
    crel = lib_mux.rel_edges(bq, lambda e: render(e) == "std::vec::Vec::len(%s)" % RECS, lambda e: lib_mux.cval(e) == C["MAX_RECORDS_PER_PACKET"], ctx.prog)
    cut = sorted({x["switch"] for x in crel})
    ctx.floor("size", "`records.len() == MAX_RECORDS_PER_PACKET` test", cut, 1, exact=True)
    full_e = lib_mux.edges_with(crel, {"eq", "ge"})
    ctx.ob("size", "the batch is cut at exactly MAX_RECORDS_PER_PACKET records", bool(full_e) and not lib_mux.edges_with(crel, {"gt"}), _w(bq), "relations on the test's edges: %s" % sorted({x["rel"] for x in crel}))
    if cut and rpush:
        nxt = bq.reachable(bq.succ[rpush[0].bb], blocked_nodes=cut)
        ctx.ob("size", "packet is cut as soon as MAX_RECORDS_PER_PACKET records are collected", rpush[0].bb not in nxt, rpush[0].loc(),
               "no path from one records.push to the next avoids the `len == MAX_RECORDS_PER_PACKET` test")
        full = sorted({t for _, t in full_e})
        clr = [s for s in bq.call_sites(r"Vec::clear$") if render(bq.site_expr(s)[2][0]) == RECS]
        pk = [s for s in bq.call_sites(r"iface::dns::query_response_packet$")]
        ok = bool(full) and bool(clr) and bq.must_pass_nodes(full, lib.bbs(rpush) + bq.return_blocks(), lib.bbs(clr)) and any(bq.dominates(p.bb, clr[0].bb) and p.bb in bq.reachable(full) for p in pk)
        ctx.ob("size", "a full batch is emitted as one packet and the batch is cleared", ok, mir.Site(bq, cut[0]).loc(), "query_response_packet(.., &records, ..) then records.clear() on the `== MAX` edge")
        inits = sorted(render(bq.init_expr(k)) for k, v in bq.names.items() if v == RECS)
        ctx.ob("size", "the batch starts empty", len(inits) == 1 and (inits[0].startswith("std::vec::Vec::with_capacity(") or inits[0] == "std::vec::Vec::new()"), _w(bq), str([i[:40] for i in inits]))
    total = (hdr_max + C["MAX_RECORDS_PER_PACKET"] * rec_max) if hdr_max is not None and rec_max is not None and isinstance(C["MAX_RECORDS_PER_PACKET"], int) else None
    ctx.ob("size", "largest packet fits MAX_PACKET_SIZE", total is not None and total <= C["MAX_PACKET_SIZE"] and C["MAX_RECORDS_PER_PACKET"] >= 1, _w(bq),
           "derived header %s + %s records x %s bytes = %s <= MAX_PACKET_SIZE %s" % (hdr_max, C["MAX_RECORDS_PER_PACKET"], rec_max, total, C["MAX_PACKET_SIZE"]))
    # one peer name everywhere; value text
    GEN = D + "generate_peer_name()"
    ctx.ob("encode", "one peer name is generated per response", len(bq.call_sites(r"iface::dns::generate_peer_name$")) == 1, _w(bq), "generate_peer_name() called once")
    for s in bq.call_sites(r"iface::dns::append_txt_record$"):
        e = bq.site_expr(s)
        ctx.ob("encode", "every TXT record is owned by the generated peer name", render(e[2][1]) == "<std::vec::Vec as std::ops::Deref>::deref(%s)" % GEN, s.loc(), render(e[2][1])[-80:])
        v = render(e[2][3])
        ctx.ob("encode", "TXT value is `dnsaddr=<addr>/p2p/<peer id>`", "const b\"\\x08dnsaddr=\\xc0\\x05/p2p/\\xc0\\x00\"" in v and re.search(r"new_display\(<[^()]+ as std::iter::Iterator>::next\(\w+\)@Some\.0\)", v) is not None and "new_display(libp2p_core::PeerId::to_base58(peer_id))" in v, s.loc(), v[:200][-120:])
        okr = lib_mux.ok_edges(bq, s)
        for p in rpush:
            ctx.ob("encode", "only successfully encoded records are sent", bool(okr) and bq.must_pass_edges(p.bb, okr) and render(bq.site_expr(p)[2][1]) == render(e[2][0]), p.loc(), "records.push(txt_record) on the Ok edge of append_txt_record(&mut txt_record, ..)")
    for s in bq.call_sites(r"iface::dns::query_response_packet$"):
        e = bq.site_expr(s)
        ctx.ob("encode", "the PTR answer points at the same peer name", render(e[2][1]) == "<std::vec::Vec as std::ops::Deref>::deref(%s)" % GEN, s.loc(), render(e[2][1])[-80:])


def _stage(prog, parent, pred, what):
    """The body that performs one stage of the parsing pipeline: the parent fn itself (explicit loop) or one of its
    adaptor closures (filter_map / flat_map / map ..), whichever satisfies `pred`."""
    kids = prog.children(parent)
    cands = [parent] + kids + [g for k in kids for g in prog.children(k)]
    hits = [c for c in cands if pred(c)]
    if len(hits) != 1:
        raise mir.RuleError("%s: expected one body in %s (fn or closure) doing it, found %d" % (what, parent.short, len(hits)))
    return hits[0]


def _ncaps(body):
    ix = set()
    for blk in body.blocks:
        for st in blk["stmts"]:
            if st["k"] == "assign":
                for p_ in (st["p"], st["r"].get("p"), (st["r"].get("o") or {}).get("p") if isinstance(st["r"].get("o"), dict) else None):
                    for pr in (p_ or {}).get("pr", ()):
                        if pr.get("k") == "field" and str(pr.get("n", "")).startswith("upvar:"):
                            ix.add(pr.get("i"))
        t = blk["term"]
        for a_ in (t or {}).get("args", ()):
            for pr in (a_.get("p") or {}).get("pr", ()):
                if pr.get("k") == "field" and str(pr.get("n", "")).startswith("upvar:"):
                    ix.add(pr.get("i"))
    return len(ix)


def _canon_stage(body, parent, parent_args, elem, capture):
    if body is parent:
        lib_mux.canon_args(body, parent_args)
    else:
        lib_mux.canon_args(body, ["env", elem])
        if _ncaps(body) == 1:
            lib_mux.canon_upvars(body, [capture])


def _decode(ctx):
    prog = ctx.prog
    rnew = ctx.body(MD, r"iface::query::MdnsResponse::new$")
    pnew = ctx.body(MD, r"iface::query::MdnsPeer::new$")
    PNEW_ARGS = ["packet", "record_value", "ttl"]
    # each stage is located by what it does, in the fn itself (loop form) or in an iterator-adaptor closure
    rn = _stage(prog, rnew, lambda c: bool(c.call_sites(r"iface::query::MdnsPeer::new$")), "answer filter")
    _canon_stage(rn, rnew, ["packet", "from"], "record", "packet")
    mp = rn.call_sites(r"iface::query::MdnsPeer::new$")
    ctx.floor("decode", "MdnsPeer::new call", mp, 1, exact=True)
    ptr = [bi for bi in sorted(rn.live) for info in [rn.switch_info(bi)] if info and any("PTR" in ls for ls in info[1].values()) and render(info[0]).endswith(".data)")]
    REC = render(rn.switch_info(ptr[0])[0])[len("discr("):-len(".data)")] if ptr else "record"
    for s in mp:
        eq_, _ = lib_mux.eq_edges(rn, lambda t: t.endswith("to_string(%s.name)" % REC) or t == REC + ".name", lambda t: t == "const:libp2p_mdns::SERVICE_NAME_FQDN")
        ctx.ob("decode", "only answers for the libp2p service name are followed", bool(eq_) and rn.must_pass_edges(s.bb, eq_), s.loc(), "record.name == SERVICE_NAME_FQDN")
        ctx.guarded("decode", "only PTR answers are followed", s, lambda c, r, l: l == "PTR" and r == "discr(%s.data)" % REC, "record.data is PTR")
        e = rn.site_expr(s)
        ctx.ob("decode", "the peer is looked up under the PTR target, in the same packet", render(e[2][0]) in ("^*packet", "^packet", "packet") and (REC + ".data@PTR.0") in render(e[2][1]), s.loc(), render(e)[-120:])
    sf, sn = prog.const(MD, r"^libp2p_mdns::SERVICE_NAME_FQDN$").get("s"), prog.const(MD, r"^libp2p_mdns::SERVICE_NAME$").get("s")
    ctx.ob("decode", "the decoded service name is the encoded one, fully qualified", isinstance(sf, str) and sf == (sn or "") + ".", msg="%r vs %r" % (sf, sn))
    c0 = _stage(prog, pnew, lambda c: any("TXT" in ls and render(info[0]).endswith(".data)") for bi in c.live for info in [c.switch_info(bi)] if info for ls in info[1].values()), "additional-record filter")
    _canon_stage(c0, pnew, PNEW_ARGS, "add_record", "record_value")
    txt = [bi for bi in sorted(c0.live) for info in [c0.switch_info(bi)] if info and any("TXT" in ls for ls in info[1].values()) and render(info[0]).endswith(".data)")]
    ADD = render(c0.switch_info(txt[0])[0])[len("discr("):-len(".data)")]
    TGT = ("^record_value", "^*record_value", "record_value")
    eq_, _ = lib_mux.eq_edges(c0, lambda t: t == ADD + ".name", lambda t: t in TGT)
    txt_edges = {(txt[0], t) for t, ls in c0.switch_info(txt[0])[1].items() if ls == {"TXT"}}
    # every use of the TXT payload (`X.data@TXT.0`) sits behind both tests
    uses = [s for s in c0.stmt_sites(lambda st: st["k"] == "assign") if (ADD + ".data@TXT.0") in render(c0.site_expr(s))] + \
           [s for s in c0.call_sites() if (ADD + ".data@TXT.0") in render(c0.site_expr(s))]
    ctx.floor("decode", "uses of a TXT additional", uses, 1)
    for s in uses[:2]:
        ctx.ob("decode", "only additionals owned by the PTR target are read", bool(eq_) and c0.must_pass_edges(s.bb, eq_), s.loc(), "add_record.name == record_value")
        ctx.ob("decode", "only TXT additionals are read", bool(txt_edges) and c0.must_pass_edges(s.bb, txt_edges), s.loc(), "add_record.data is TXT")
    c2 = _stage(prog, pnew, lambda c: bool(c.call_sites(r"iface::dns::decode_character_string$")), "TXT string decoder")
    _canon_stage(c2, pnew, PNEW_ARGS, "txt", "my_peer_id")
    pops = c2.call_sites(r"Multiaddr::pop$")
    ADDR = render(c2.site_expr(pops[0])[2][0]) if len(pops) == 1 else "addr"
    POP = render(c2.site_expr(pops[0])) if len(pops) == 1 else "?"
    # an address is "kept" where it is yielded (closure: Some(addr)) or stored (loop: addrs.push(addr))
    somes = [s for s in c2.agg_sites(r"^std::option::Option$", "Some") if render(c2.site_expr(s)) == "std::option::Option::Some{0: %s}" % ADDR] + \
            [s for s in c2.call_sites(r"Vec::push$") if render(c2.site_expr(s)[2][1]) == ADDR]
    ctx.floor("decode", "accepted address", somes, 1, exact=True)
    sw = [bi for bi in sorted(c2.live) if c2.switch_info(bi) and "core::slice::starts_with(" in render(c2.switch_info(bi)[0])]
    lit = None
    if sw:
        m = re.search(r', const b"([^"]*)"\)\)?$', render(c2.switch_info(sw[0])[0]))
        lit = m.group(1) if m else None
    idx = [s for s in c2.call_sites(r"core::slice::index::index$|ops::Index>::index$")]
    off = None
    if idx:
        m = re.search(r"RangeFrom::RangeFrom\{start: (\d+)\}\)$", render(c2.site_expr(idx[0])))
        off = int(m.group(1)) if m else None
    ctx.ob("decode", "prefix literal, its test and the slice offset agree", lit == "dnsaddr=" and off == len(lit or ""), mir.Site(c2, sw[0]).loc() if sw else _w(c2), "starts_with(%r), slice [%s..]; encoder writes %r" % (lit, off, "dnsaddr="))
    reps = [x for x in c2.call_sites(r"Option::(replace|insert|get_or_insert)$")]
    MY = render(c2.site_expr(reps[0])[2][0]) if reps else "^my_peer_id"
    for s in somes:
        ctx.guarded("decode", "an address is kept only if it carries the dnsaddr= prefix", s, lambda c, r, l: "core::slice::starts_with(" in r and ((l == "true" and not r.startswith("Not(")) or (l == "false" and r.startswith("Not("))), "addr.starts_with(b\"dnsaddr=\")")
        ctx.guarded("decode", "an address is kept only if its last component is /p2p/<id>", s, lambda c, r, l: l == "P2p" and r == "discr(%s@Some.0)" % POP, "addr.pop() == Some(P2p(_))")
        same, _ = lib_mux.eq_edges(c2, lambda t: t == POP + "@Some.0@P2p.0", lambda t: t == MY + "@Some.0")
        same = same | lib_mux.none_edges(c2, MY)
        ctx.ob("decode", "an address is kept only if its peer id equals the first one seen", bool(same) and c2.must_pass_edges(s.bb, same), s.loc(), "peer_id == *my_peer_id, or my_peer_id was None")
        stores = reps + [x for x in c2.stmt_sites(lambda st: st["k"] == "assign" and st["p"].get("pr") and st["r"]["k"] == "agg" and st["r"].get("variant") == "Some") if (POP + "@Some.0@P2p.0") in render(c2.site_expr(x))]
        none_e = lib_mux.none_edges(c2, MY)
        ctx.ob("decode", "the first id seen is remembered", len(stores) >= 1 and (POP + "@Some.0@P2p.0") in render(c2.site_expr(stores[0])) and
               not (s.bb in c2.reachable([t for _, t in none_e], blocked_nodes=lib.bbs(stores))), s.loc(), "my_peer_id.replace(peer_id) on the None edge before the address is kept")
        ctx.ob("decode", "the kept address is the parsed one with /p2p/<id> removed", bool(pops) and c2.dominates(pops[0].bb, s.bb), s.loc(), render(c2.site_expr(s))[-60:])
    c3 = _stage(prog, pnew, lambda c: bool(c.agg_sites(r"iface::query::MdnsPeer$")), "MdnsPeer constructor")
    aggs = c3.agg_sites(r"iface::query::MdnsPeer$")
    f3 = dict(c3.site_expr(aggs[0])[4]) if len(aggs) == 1 else {}
    pid, adr = f3.get("peer_id", ("unknown", "?")), f3.get("addrs", ("unknown", "?"))
    if c3 is not pnew:
        # `my_peer_id.map(|peer_id| MdnsPeer { addrs, peer_id, ttl })`: id = the closure's parameter, mapped over the remembered id
        maps = pnew.call_sites(r"Option::(map|and_then)$")
        ups = lib_mux.upvar_map(prog, pnew, [x for x in mir.walk(pnew.site_expr(maps[0])) if x[0] == "closure"][0])[1] if maps else {}
        src = render(ups.get(adr[1].lstrip("*"), ("unknown", "?"))) if adr[0] == "upvar" else "?"
        ok3 = pid[0] == "arg" and pid[1] == 2 and len(maps) == 1 and ("Iterator::collect(" in src or src == "addrs")
    else:
        # explicit `match my_peer_id { Some(peer_id) => Some(MdnsPeer { .. }), None => None }`
        ok3 = render(pid).endswith("@Some.0") and adr[0] in ("local", "call")
    ctx.ob("decode", "the reported peer is that id with the collected addresses", ok3, _w(c3), render(c3.site_expr(aggs[0]))[-140:] if aggs else "?")

    # ------------------------------------------------------------------ no panic while parsing
    dc = lib_mux.canon_args(ctx.body(MD, r"iface::dns::decode_character_string$"), ["from"])
    entries = [ctx.body(MD, r"iface::query::MdnsPacket::new_from_bytes$"), rnew, pnew, dc]
    inv, seen = lib.panic_inventory(prog, MD, entries, depth=2)
    lib.check_inventory(ctx, "nopanic", "packet parsing", inv, {
        "assert:bounds": (1, "from[0] after !from.is_empty()"),
        "index": (2, "from[1..len-1] after len != 1 on a non-empty slice starting and ending with a quote; addr[8..] after starts_with(8-byte literal)"),
    }, seen)
    for b, k, det, s in inv:
        if b is dc and k == "assert:bounds":
            ctx.guarded("nopanic", "from[0] only on a non-empty slice", s, lambda c, r, l: l == "false" and r == "core::slice::is_empty(from)", "!from.is_empty()")
        elif b is dc and k == "index":
            r = render(dc.site_expr(s))
            ctx.ob("nopanic", "the quoted body is from[1..len-1]", r == "core::slice::index::index(from, std::ops::Range::Range{start: 1, end: SubWithOverflow(core::slice::len(from), 1).0})", s.loc(), r[-100:])
            ctx.guarded("nopanic", "range 1..len-1 only for len >= 2", s, lambda c, rr, l: l == "false" and rr == "Eq(core::slice::len(from), 1)", "from.len() != 1")
            ctx.guarded("nopanic", "range 1..len-1 only on a non-empty slice", s, lambda c, rr, l: l == "false" and rr == "core::slice::is_empty(from)", "!from.is_empty()")
        elif k == "index":
            ctx.guarded("nopanic", "addr[8..] only behind starts_with(\"dnsaddr=\")", s, lambda c, rr, l: l == "true" and rr.startswith("core::slice::starts_with("), "starts_with(8-byte literal)")
    for cnd, msg, s in lib_mux.overflow_asserts(dc):
        ctx.guarded("nopanic", "len - 1 only for a non-empty slice", s, lambda c, rr, l: l == "false" and rr == "core::slice::is_empty(from)", "!from.is_empty()")
