"""C18 TLS certificates bind the peer id to a proof of key possession — order (K3), who (K4), guards (K1), origin (K5), sibling (K11)."""
import re

from .. import lib, mir
from .. import lib_sec as S
from ..mir import render, strip_generics

EXPLANATION = ("certificate::parse = parse_unverified then verify()? (verification dominates every Ok); P2pCertificate is constructed only in "
               "parse_unverified, which only parse calls; verify returns Ok only if validity().is_valid(), the self-signature over "
               "tbs_certificate verifies under the certificate's own key, and the extension's host key verifies P2P_SIGNING_PREFIX ++ "
               "subject public key info against the extension's signature; verify_signature returns Ok only on the success edge of "
               "ring's UnparsedPublicKey::verify over the unchanged (message, signature) with the key public_key(scheme) yields, and "
               "public_key yields a key only for the certificate's own signature scheme; peer_id() derives from that same extension key; "
               "parse_unverified rejects a duplicated libp2p extension, unknown critical extensions and a missing extension; "
               "make_libp2p_extension signs the same prefix ++ certificate public key; SHA-1 / unknown schemes map to Err.  Success tests "
               "are matched by their Ok/Some edges (`?`, match, if-let alike), values by origin, fields of the private structs by type.")
ASSUMPTIONS = ["DER parsing by x509-parser/yasna, signature primitives in ring/libp2p_identity", "byte-mutation behaviour is not executed"]
T = "libp2p_tls"

SELFTEST = [
    {"mutation": "verify_signature: `.map_err(..)?` -> `.ok()`", "caught_by": "selfsig/Ok only on the success edge of the signature verification"},
    {"mutation": "public_key: scheme mismatch test disabled", "caught_by": "selfsig/public_key yields a key only for the certificate's own signature scheme"},
    {"neutral": "neutral/sec/05 (`?` -> match/return Err); renamed `libp2p_extension`; hoisted `let currently_valid = ..`", "silent": True},
]

def oks(b):
    return S.ok_sites(b)


def field_of_type(prog, adt_pat, ty_pat, default):
    a = prog.adt(T, adt_pat)
    hits = [f["n"] for f in a["variants"][0]["fields"] if re.search(ty_pat, f.get("ty") or "")]
    return hits[0] if len(hits) == 1 else default


def callee_is(e, pat):
    return e[0] == "call" and re.search(pat, strip_generics(e[1])) is not None


def ok_of_call(e, pat):
    """e is the success payload of a call matching pat (through view conversions)"""
    e = S.peel(S.norm(e))
    return e[0] == "call" and e[1] == "ok" and callee_is(e[2][0], pat)


def msg_parts(body, msg_local):
    """ordered `msg.extend(X)` / `extend_from_slice` / `push` arguments for the buffer local"""
    out = []
    for s in body.call_sites(r"Extend>::extend$|Vec::extend_from_slice$|Vec::extend$"):
        e = body.site_expr(s)
        if S.is_local(S.peel(e[2][0]), msg_local):
            out.append((s, e[2][1]))
    return out


def check(ctx):
    prog = ctx.prog
    EXT = field_of_type(prog, r"certificate::P2pCertificate$", r"P2pExtension", "extension")
    KEY = field_of_type(prog, r"certificate::P2pExtension$", r"PublicKey$", "public_key")
    SIG = field_of_type(prog, r"certificate::P2pExtension$", r"Vec<u8>", "signature")
    CERT = field_of_type(prog, r"certificate::P2pCertificate$", r"X509Certificate", "certificate")

    def ext_part(e, part):
        e = S.peel(e)
        return e[0] == "field" and e[2] == part and S.self_field(e[1], EXT)
    p = ctx.body(T, r"^libp2p_tls::certificate::parse$")
    pu = p.call_sites(r"certificate::parse_unverified$")
    vf = p.call_sites(r"certificate::P2pCertificate::verify$")
    ctx.floor("parse", "parse_unverified / verify calls", pu + vf, 2)
    verified = set()
    for s in vf:
        verified |= S.call_outcome_edges(p, s)[0]
    for s in oks(p):
        S.guarded(ctx, "parse", "Ok only after verify() succeeded", s, verified, "certificate.verify()? passed")
        pay = dict(p.site_expr(s)[4]).get("0", ("unknown", ""))
        ctx.ob("parse", "returns the verified certificate", ok_of_call(S.expand(p, pay), r"certificate::parse_unverified$"), s.loc(), S.nrender(pay)[:200])
    for s in vf:
        a0 = p.site_expr(s)[2][0]
        ctx.ob("parse", "verify is called on the parsed certificate", ok_of_call(S.expand(p, a0), r"certificate::parse_unverified$"), s.loc(), S.nrender(p.site_expr(s))[:200])
    who = {b.npath for b in prog.bodies(T) if b.agg_sites(r"certificate::P2pCertificate$")}
    ctx.ob("who", "P2pCertificate constructed only in parse_unverified", who == {"libp2p_tls::certificate::parse_unverified"}, msg=str(sorted(who)))
    callers = {s.body.npath for s in prog.callers(T, r"certificate::parse_unverified$")}
    ctx.ob("who", "parse_unverified called only by parse", callers == {"libp2p_tls::certificate::parse"}, msg=str(sorted(callers)))
    adt = prog.adt(T, r"certificate::P2pCertificate$")
    ctx.ob("who", "P2pCertificate fields are private", all(f["vis"] not in ("pub", "crate") for f in adt["variants"][0]["fields"]), msg=str([(f["n"], f["vis"]) for f in adt["variants"][0]["fields"]]))
    # ---- verify
    v = ctx.body(T, r"certificate::P2pCertificate::verify$")
    vo = oks(v)
    ctx.floor("verify", "Ok return of verify", vo, 1)
    valid_now, _ = S.truth_edges(v, lambda c: callee_is(c, r"certificate::Validity::is_valid$") and S.has_call(c, r"TbsCertificate::validity$"))
    scheme_ok, _ = S.outcome_edges(v, lambda x: callee_is(x, r"P2pCertificate::signature_scheme$"))
    vs = v.call_sites(r"certificate::P2pCertificate::verify_signature$")
    self_signed = set()
    for s in vs:
        self_signed |= S.call_outcome_edges(v, s)[0]
    hv = v.call_sites(r"libp2p_identity::PublicKey::verify$")
    ctx.floor("verify", "host key verify", hv, 1)
    owns, _ = S.truth_edges(v, lambda c: callee_is(c, r"libp2p_identity::PublicKey::verify$") and ext_part(c[2][0], KEY))
    for s in vo:
        S.guarded(ctx, "verify", "Ok requires a currently valid certificate", s, valid_now, "validity().is_valid()")
        S.guarded(ctx, "verify", "Ok requires a supported signature scheme", s, scheme_ok, "signature_scheme()?")
        S.guarded(ctx, "verify", "Ok requires a valid self-signature", s, self_signed, "verify_signature(..)?")
        S.guarded(ctx, "verify", "Ok requires proof of host-key possession", s, owns, "user_owns_sk")
    for s in vs:
        a = v.site_expr(s)[2]
        ok = (len(a) == 4 and S.is_arg(S.peel(a[0]), 1) and ok_of_call(a[1], r"P2pCertificate::signature_scheme$") and S.has_field(a[2], "tbs_certificate") and S.has_field(a[3], "signature_value")
              and S.has(a[2], lambda x: S.self_field(x, CERT)) and S.has(a[3], lambda x: S.self_field(x, CERT)))
        ctx.ob("verify", "self-signature is over tbs_certificate", ok, s.loc(), (S.nrender(a[2]) + " | " + S.nrender(a[3]))[:260] if len(a) == 4 else "")
    for s in hv:
        a = v.site_expr(s)[2]
        ctx.ob("verify", "verified with the extension's key / signature", ext_part(a[0], KEY) and ext_part(a[2], SIG), s.loc(), str([render(x) for x in a])[:260])
        m = S.peel(a[1])
        ctx.ob("verify", "verified message is `msg`", m[0] == "local", s.loc(), render(a[1]))
        if m[0] != "local":
            continue
        ex = msg_parts(v, m[1])
        args = [x for _, x in ex]
        ok = (len(args) == 2 and S.peel(args[0])[0] == "namedconst" and S.peel(args[0])[1].endswith("certificate::P2P_SIGNING_PREFIX")
              and S.has_call(args[1], r"TbsCertificate::public_key$") and S.peel(args[1])[0] == "field" and S.peel(args[1])[2] == "raw" and S.has(args[1], lambda x: S.self_field(x, CERT)))
        ctx.ob("verify", "msg = P2P_SIGNING_PREFIX ++ subject public key info", ok, s.loc(), str([render(x) for x in args])[:260])
        if len(ex) == 2:
            lib.precedes(ctx, "verify", "prefix precedes key in msg", v, [ex[0][0].bb], [ex[1][0].bb], "extend(PREFIX) before extend(subject_pki)")
            lib.precedes(ctx, "verify", "msg complete before verification", v, [ex[1][0].bb], [s.bb], "msg built before verify")
        inits = [render(v.init_expr(m[1]))]
        ctx.ob("verify", "msg starts empty", inits == ["std::vec::Vec::new()"] and len(v.defs.get(m[1], [])) == 1, msg=str(inits))
    pre = prog.const(T, r"certificate::P2P_SIGNING_PREFIX$")
    ctx.ob("verify", "prefix constant is a 21-byte array", pre["ty"] == "[u8; 21]", msg=pre["ty"])
    pid = ctx.body(T, r"certificate::P2pCertificate::peer_id$")
    tp = pid.call_sites(r"libp2p_identity::PublicKey::to_peer_id$")
    ctx.ob("verify", "peer_id() uses the verified extension key", len(tp) == 1 and ext_part(pid.site_expr(tp[0])[2][0], KEY), "%s:%d" % (pid.file, pid.line), str([render(pid.site_expr(s)) for s in tp]))
    # ---- verify_signature: Ok only if ring verified (message, signature) under the key of this certificate for this scheme
    vsb = ctx.body(T, r"certificate::P2pCertificate::verify_signature$")
    rv = vsb.call_sites(r"ring::signature::UnparsedPublicKey::verify$|signature::UnparsedPublicKey::<.*>::verify$")
    ctx.floor("selfsig", "ring UnparsedPublicKey::verify call", rv, 1)
    ring_ok = set()
    for s in rv:
        ring_ok |= S.call_outcome_edges(vsb, s)[0]
    vso = oks(vsb)
    ctx.floor("selfsig", "Ok return of verify_signature", vso, 1)
    for s in vso:
        S.guarded(ctx, "selfsig", "Ok only on the success edge of the signature verification", s, ring_ok, "pk.verify(message, signature) is Ok")
    for s in rv:
        a = vsb.site_expr(s)[2]
        ctx.ob("selfsig", "verification is over the given (message, signature), unchanged", len(a) == 3 and S.is_arg(S.peel(a[1]), 3) and S.is_arg(S.peel(a[2]), 4), s.loc(), str([render(x) for x in a[1:]])[:160])
        k = S.peel(S.norm(S.expand(vsb, a[0])))
        ok = (k[0] == "call" and k[1] == "ok" and callee_is(k[2][0], r"P2pCertificate::public_key$") and S.is_arg(S.peel(k[2][0][2][0]), 1) and S.is_arg(S.peel(k[2][0][2][1]), 2))
        ctx.ob("selfsig", "verification key = self.public_key(signature_scheme)?", ok, s.loc(), render(k)[:200])
    pk = ctx.body(T, r"certificate::P2pCertificate::public_key$")
    same_scheme = S.rel_edges(pk, lambda e: S.is_arg(S.peel(e), 2), lambda e: ok_of_call(e, r"P2pCertificate::signature_scheme$"))["eq"]
    pko = oks(pk)
    ctx.floor("selfsig", "Ok return of public_key", pko, 1)
    for s in pko:
        S.guarded(ctx, "selfsig", "public_key yields a key only for the certificate's own signature scheme", s, same_scheme, "signature_scheme == self.signature_scheme()?")
        pay = dict(pk.site_expr(s)[4]).get("0", ("unknown", ""))
        ctx.ob("selfsig", "the key is the certificate's subject public key", S.has_field(pay, "subject_public_key") and S.has(pay, lambda x: S.self_field(x, CERT)), s.loc(), render(pay)[:200])
    # sibling: make_libp2p_extension signs the same message shape
    mk = ctx.body(T, r"certificate::make_libp2p_extension$")
    sg = mk.call_sites(r"libp2p_identity::Keypair::sign$")
    ctx.ob("sign", "floor:Keypair::sign", len(sg) == 1, nontrivial=False, msg=str(len(sg)))
    for s in sg:
        a = mk.site_expr(s)[2]
        m = S.peel(a[1])
        idk = [i for i in range(1, mk.argc + 1) if re.search(r"Keypair", mk.locals[i])]
        ctx.ob("sign", "signed with the identity key over msg", m[0] == "local" and len(idk) == 1 and S.is_arg(S.peel(a[0]), idk[0]), s.loc(), render(mk.site_expr(s))[:160])
        args = [x for _, x in msg_parts(mk, m[1])] if m[0] == "local" else []
        ok = (len(args) == 2 and S.peel(args[0])[0] == "namedconst" and S.peel(args[0])[1].endswith("certificate::P2P_SIGNING_PREFIX") and S.has_call(args[1], r"public_key_der$"))
        ctx.ob("sign", "signed message = P2P_SIGNING_PREFIX ++ certificate public key DER", ok, "%s:%d" % (mk.file, mk.line), str([render(x) for x in args])[:200])
    # ---- parse_unverified
    u = ctx.body(T, r"certificate::parse_unverified$")
    uo = oks(u)
    ctx.floor("extensions", "Ok return of parse_unverified", uo, 1)
    slot = set()            # the Option local that collects the libp2p extension: its payload is what Ok(P2pCertificate{extension: ..}) carries
    for s in uo:
        cert = S.expand(u, dict(u.site_expr(s)[4]).get("0", ("unknown", "")))
        x = S.norm(dict(cert[4]).get(EXT, ("unknown", ""))) if cert[0] == "agg" else ("unknown", "")
        good = x[0] == "call" and x[1] == "ok" and x[2][0][0] == "local"
        ctx.ob("extensions", "certificate carries the parsed extension", good, s.loc(), render(x)[:240])
        if good:
            slot.add(x[2][0][1])
    sl = next(iter(slot)) if len(slot) == 1 else -1
    present, absent = S.outcome_edges(u, lambda x: S.is_local(x, sl))
    nx = [s for s in u.call_sites(r"Iterator>::next$")]
    ctx.floor("extensions", "extension loop", nx, 1)
    _, exhausted = S.outcome_edges(u, lambda x: callee_is(x, r"Iterator>::next$"))
    for s in uo:
        S.guarded(ctx, "extensions", "Ok requires the libp2p extension", s, present, "libp2p_extension is Some (missing => BadDer)")
        S.guarded(ctx, "extensions", "Ok only after all extensions were examined", s, exhausted, "extension iterator returned None")
    st = [site for site, e in S.def_exprs(u, sl) if e[0] == "agg" and e[3] == "Some"]
    ctx.floor("extensions", "libp2p_extension = Some(..)", st, 1)
    oid_eq = S.rel_edges(u, lambda e: S.has_field(e, "oid"), lambda e: any(x[0] == "namedconst" and x[1].endswith("P2P_EXT_OID") for x in mir.walk(e)))["eq"]
    for s in st:
        ok = bool(absent) and u.must_pass_edges(s.bb, absent, 0, r"^std::cmp::impls::eq\(.*\.oid, .*P2P_EXT_OID|P2P_EXT_OID.*\.oid\)$")
        ctx.ob("extensions", "extension stored only when none was stored before", ok, s.loc(), ("guard present on all paths: " if ok else "a path reaches this site without the guard: ") + "!libp2p_extension.is_some() (duplicate => BadDer)")
        S.guarded(ctx, "extensions", "extension stored only for the libp2p OID", s, oid_eq, "oid == p2p_ext_oid")
        e = u.site_expr(s)
        ext = S.expand(u, dict(e[4]).get("0", ("unknown", "")))
        kk = dict(ext[4]).get(KEY) if ext[0] == "agg" else None
        ss = dict(ext[4]).get(SIG) if ext[0] == "agg" else None
        ok = kk is not None and ss is not None and ok_of_call(kk, r"PublicKey::try_decode_protobuf$") and S.has_call(kk, r"yasna::decode_der$") and S.has_call(ss, r"yasna::decode_der$")
        ctx.ob("extensions", "stored key is the decoded host key, signature from the same SignedKey", ok, s.loc(), S.nrender(e)[:200])
    reach_next = lambda bi: any(n.bb in u.reachable([bi]) for n in nx)
    dupe = [(b, t) for (b, t) in S.outcome_edges(u, lambda x: S.is_local(x, sl), close=False)[0] if reach_next(b)]
    ctx.ob("extensions", "floor:duplicate test inside the extension loop", len(dupe) >= 1, nontrivial=False, msg=str(sorted(dupe)))
    for _, t in dupe:
        rr = u.reachable([t])
        errs = [x for x in S.ret_sites(u, S.is_err_agg) if x.bb in rr]
        ctx.ob("extensions", "duplicate libp2p extension => Err", len(errs) >= 1 and not (set(x.bb for x in uo) & u.reachable([t], blocked_nodes=[e.bb for e in errs])), msg="second occurrence of the extension is rejected")
    crit, _ = S.truth_edges(u, lambda c: c[0] == "field" and c[2] == "critical", close=False)
    ctx.ob("extensions", "floor:critical edge", len(crit) == 1, nontrivial=False, msg=str(crit))
    for _, t in crit:
        rr = u.reachable([t])
        ok = any("UnsupportedCriticalExtension" in render(u.site_expr(x)) for x in S.ret_sites(u, S.is_err_agg) if x.bb in rr) and not (set(x.bb for x in uo) & rr)
        ctx.ob("extensions", "unknown critical extension => Err", ok, msg="critical unknown extension aborts parsing")
    # ---- schemes
    for fn in ("public_key", "signature_scheme"):
        b = ctx.body(T, r"certificate::P2pCertificate::%s$" % fn)
        ok_variants = set(re.findall(r"SignatureScheme::(\w+)\{\}", " ".join(render(b.site_expr(s)) for s in oks(b))))
        ctx.ob("schemes", "%s never accepts SHA-1 schemes" % fn, not any("SHA1" in x for x in ok_variants), "%s:%d" % (b.file, b.line), "schemes returned in Ok: %s" % sorted(ok_variants))
    legacy = lib.arm_entry(pk, r"^discr\(", "ECDSA_SHA1_Legacy") + lib.arm_entry(pk, r"^discr\(", "RSA_PKCS1_SHA1")
    for _, t in legacy:
        rr = pk.reachable([t])
        ctx.ob("schemes", "SHA-1 scheme arm returns Err", not (set(x.bb for x in oks(pk)) & rr), msg="legacy SHA-1 arm cannot reach Ok")
    ctx.ob("schemes", "floor:SHA-1 arms", len(legacy) >= 1, nontrivial=False, msg=str(legacy))
