"""C18 TLS certificates bind the peer id to a proof of key possession — order (K3), who (K4), guards (K1), origin (K5), sibling (K11)."""
import re

from .. import lib, mir
from ..mir import render

EXPLANATION = ("certificate::parse = parse_unverified then verify()? (verification dominates every Ok); P2pCertificate is constructed only in "
               "parse_unverified, which only parse calls; verify returns Ok only if validity().is_valid(), the self-signature over "
               "tbs_certificate verifies under the certificate's own key, and the extension's host key verifies P2P_SIGNING_PREFIX ++ "
               "subject public key info against the extension's signature; peer_id() derives from that same extension key; "
               "parse_unverified rejects a duplicated libp2p extension, unknown critical extensions and a missing extension; "
               "make_libp2p_extension signs the same prefix ++ certificate public key; SHA-1 / unknown schemes map to Err.")
ASSUMPTIONS = ["DER parsing by x509-parser/yasna, signature primitives in ring/libp2p_identity", "byte-mutation behaviour is not executed"]
T = "libp2p_tls"


def oks(b):
    return [mir.Site(b, x[1], x[2]) for x in b.defs[0] if x[0] == "stmt" and render(b.rvalue_expr(x[3])).startswith("std::result::Result::Ok{")]


def check(ctx):
    prog = ctx.prog
    p = ctx.body(T, r"^libp2p_tls::certificate::parse$")
    pu = p.call_sites(r"certificate::parse_unverified$")
    vf = p.call_sites(r"certificate::P2pCertificate::verify$")
    ctx.floor("parse", "parse_unverified / verify calls", pu + vf, 2)
    for s in oks(p):
        ctx.guarded("parse", "Ok only after verify() succeeded", s, lambda c, r, l: l == "Continue" and "P2pCertificate::verify(" in r, "certificate.verify()? passed")
        r = render(p.site_expr(s))
        ctx.ob("parse", "returns the verified certificate", "parse_unverified(" in r and "@Continue.0" in r, s.loc(), r[:200])
    for s in vf:
        ctx.ob("parse", "verify is called on the parsed certificate", "parse_unverified(" in render(p.site_expr(s)), s.loc(), render(p.site_expr(s))[:200])
    who = {b.npath for b in prog.bodies(T) if b.agg_sites(r"certificate::P2pCertificate$")}
    ctx.ob("who", "P2pCertificate constructed only in parse_unverified", who == {"libp2p_tls::certificate::parse_unverified"}, msg=str(sorted(who)))
    callers = {s.body.npath for s in prog.callers(T, r"certificate::parse_unverified$")}
    ctx.ob("who", "parse_unverified called only by parse", callers == {"libp2p_tls::certificate::parse"}, msg=str(sorted(callers)))
    adt = prog.adt(T, r"certificate::P2pCertificate$")
    ctx.ob("who", "P2pCertificate fields are private", all(f["vis"] not in ("pub", "crate") for f in adt["variants"][0]["fields"]), msg=str([(f["n"], f["vis"]) for f in adt["variants"][0]["fields"]]))
    # ---- verify
    v = ctx.body(T, r"certificate::P2pCertificate::verify$")
    vo = oks(v)
    ctx.floor("verify", "Ok return of verify", vo, 1)
    for s in vo:
        ctx.guarded("verify", "Ok requires a currently valid certificate", s, lambda c, r, l: l == "true" and r.startswith("x509_parser::certificate::Validity::is_valid(x509_parser::certificate::TbsCertificate::validity("), "validity().is_valid()")
        ctx.guarded("verify", "Ok requires a supported signature scheme", s, lambda c, r, l: l == "Continue" and "P2pCertificate::signature_scheme(self)" in r and "verify_signature" not in r, "signature_scheme()?")
        ctx.guarded("verify", "Ok requires a valid self-signature", s, lambda c, r, l: l == "Continue" and "P2pCertificate::verify_signature(self" in r, "verify_signature(..)?")
        ctx.guarded("verify", "Ok requires proof of host-key possession", s, lambda c, r, l: l == "true" and r.startswith("libp2p_identity::PublicKey::verify(self.extension.public_key, "), "user_owns_sk")
    vs = v.call_sites(r"certificate::P2pCertificate::verify_signature$")
    for s in vs:
        e = v.site_expr(s)
        a = [render(x) for x in e[2]]
        ctx.ob("verify", "self-signature is over tbs_certificate", "tbs_certificate" in a[2] and "signature_value" in a[3], s.loc(), (a[2] + " | " + a[3])[:260])
    hv = v.call_sites(r"libp2p_identity::PublicKey::verify$")
    ctx.floor("verify", "host key verify", hv, 1)
    ex = [s for s in v.call_sites(r"Extend>::extend$") if render(v.site_expr(s)[2][0]) == "msg"]
    for s in hv:
        e = v.site_expr(s)
        a = [render(x) for x in e[2]]
        ctx.ob("verify", "verified with the extension's key / signature", a[0] == "self.extension.public_key" and a[2].endswith("(self.extension.signature)"), s.loc(), str(a)[:260])
        ctx.ob("verify", "verified message is `msg`", a[1].endswith("(msg)"), s.loc(), a[1])
        args = [render(v.site_expr(x)[2][1]) for x in ex]
        ok = len(args) == 2 and args[0] == "const:libp2p_tls::certificate::P2P_SIGNING_PREFIX" and "TbsCertificate::public_key(" in args[1] and args[1].endswith(".raw")
        ctx.ob("verify", "msg = P2P_SIGNING_PREFIX ++ subject public key info", ok, s.loc(), str(args)[:260])
        if len(ex) == 2:
            lib.precedes(ctx, "verify", "prefix precedes key in msg", v, [ex[0].bb], [ex[1].bb], "extend(PREFIX) before extend(subject_pki)")
            lib.precedes(ctx, "verify", "msg complete before verification", v, [ex[1].bb], [s.bb], "msg built before verify")
    inits = [render(v.init_expr(k)) for k, n in v.names.items() if n == "msg"]
    ctx.ob("verify", "msg starts empty", inits == ["std::vec::Vec::new()"], msg=str(inits))
    pre = prog.const(T, r"certificate::P2P_SIGNING_PREFIX$")
    ctx.ob("verify", "prefix constant is a 21-byte array", pre["ty"] == "[u8; 21]", msg=pre["ty"])
    pid = ctx.body(T, r"certificate::P2pCertificate::peer_id$")
    tp = pid.call_sites(r"libp2p_identity::PublicKey::to_peer_id$")
    ctx.ob("verify", "peer_id() uses the verified extension key", len(tp) == 1 and render(pid.site_expr(tp[0])) == "libp2p_identity::PublicKey::to_peer_id(self.extension.public_key)", "%s:%d" % (pid.file, pid.line), str([render(pid.site_expr(s)) for s in tp]))
    # sibling: make_libp2p_extension signs the same message shape
    mk = ctx.body(T, r"certificate::make_libp2p_extension$")
    ex2 = [s for s in mk.call_sites(r"Extend>::extend$") if render(mk.site_expr(s)[2][0]) == "msg"]
    args = [render(mk.site_expr(x)[2][1]) for x in ex2]
    ok = len(args) == 2 and args[0] == "const:libp2p_tls::certificate::P2P_SIGNING_PREFIX" and "public_key_der(" in args[1]
    ctx.ob("sign", "signed message = P2P_SIGNING_PREFIX ++ certificate public key DER", ok, "%s:%d" % (mk.file, mk.line), str(args)[:200])
    sg = mk.call_sites(r"libp2p_identity::Keypair::sign$")
    ctx.ob("sign", "signed with the identity key over msg", len(sg) == 1 and render(mk.site_expr(sg[0])[2][1]).endswith("(msg)") and render(mk.site_expr(sg[0])[2][0]) == "identity_keypair", sg[0].loc() if sg else "", str([render(mk.site_expr(s))[:120] for s in sg]))
    # ---- parse_unverified
    u = ctx.body(T, r"certificate::parse_unverified$")
    for s in oks(u):
        ctx.guarded("extensions", "Ok requires the libp2p extension", s, lambda c, r, l: l == "Continue" and "ok_or(libp2p_extension, webpki::Error::BadDer{})" in r, "libp2p_extension.ok_or(BadDer)?")
        r = render(u.site_expr(s))
        ctx.ob("extensions", "certificate carries the parsed extension", "extension: <std::result::Result as std::ops::Try>::branch(std::option::Option::ok_or(libp2p_extension" in r, s.loc(), r[:240])
    # every extension is examined: Ok is reachable only after the extension iterator is exhausted (no early loop exit)
    nx = [s for s in u.call_sites(r"Iterator>::next$")]
    ctx.floor("extensions", "extension loop", nx, 1)
    for s in oks(u):
        ctx.guarded("extensions", "Ok only after all extensions were examined", s,
                    lambda c, r, l: l == "None" and r.startswith("discr(") and "Iterator>::next(" in r, "extension iterator returned None")
    dup = [s for s in u.agg_sites(r"webpki::Error$|webpki::error::Error$", "BadDer") if s.stmt["p"]["l"] == 0 or True]
    st = [mir.Site(u, d[1], d[2]) for k, n in u.names.items() if n == "libp2p_extension" for d in u.defs.get(k, []) if d[0] == "stmt" and "Some{" in render(u.rvalue_expr(d[3]))]
    ctx.floor("extensions", "libp2p_extension = Some(..)", st, 1)
    for s in st:
        ctx.guarded("extensions", "extension stored only when none was stored before", s, lambda c, r, l: l == "false" and r == "std::option::Option::is_some(libp2p_extension)", "!libp2p_extension.is_some() (duplicate => BadDer)",
                    correlate=r"^std::cmp::impls::eq\(.*@Some\.0\.oid, .*P2P_EXT_OID")
        ctx.guarded("extensions", "extension stored only for the libp2p OID", s, lambda c, r, l: l == "true" and "P2P_EXT_OID" in r and "eq(" in r, "oid == p2p_ext_oid")
        r = render(u.site_expr(s))
        ctx.ob("extensions", "stored key is the decoded host key, signature from the same SignedKey", "try_decode_protobuf(" in r or "@Continue.0" in r, s.loc(), r[:200])
    dupe = lib.switch_edges_on(u, r"^std::option::Option::is_some\(libp2p_extension\)$", {"true"})
    for _, t in dupe:
        rr = u.reachable([t])
        errs = [mir.Site(u, d[1], d[2]) for d in u.defs[0] if d[0] == "stmt" and d[1] in rr and "Err{0: webpki" in render(u.rvalue_expr(d[3]))]
        ctx.ob("extensions", "duplicate libp2p extension => Err", len(errs) >= 1 and not (set(x.bb for x in oks(u)) & u.reachable([t], blocked_nodes=[e.bb for e in errs])), msg="second occurrence of the extension is rejected")
    crit = lib.switch_edges_on(u, r"@Some\.0\.critical$", {"true"})
    ctx.ob("extensions", "floor:critical edge", len(crit) == 1, nontrivial=False, msg=str(crit))
    for _, t in crit:
        rr = u.reachable([t])
        ok = any("UnsupportedCriticalExtension" in render(u.rvalue_expr(d[3])) for d in u.defs[0] if d[0] == "stmt" and d[1] in rr) and not (set(x.bb for x in oks(u)) & rr)
        ctx.ob("extensions", "unknown critical extension => Err", ok, msg="critical unknown extension aborts parsing")
    # ---- schemes
    for fn in ("public_key", "signature_scheme"):
        b = ctx.body(T, r"certificate::P2pCertificate::%s$" % fn)
        txt = " ".join(render(b.site_expr(mir.Site(b, d[1], d[2]))) for d in b.defs[0] if d[0] == "stmt")
        ok_variants = set(re.findall(r"SignatureScheme::(\w+)\{\}", " ".join(render(b.site_expr(s)) for s in oks(b))))
        ctx.ob("schemes", "%s never accepts SHA-1 schemes" % fn, not any("SHA1" in x for x in ok_variants), "%s:%d" % (b.file, b.line), "schemes returned in Ok: %s" % sorted(ok_variants))
    pk = ctx.body(T, r"certificate::P2pCertificate::public_key$")
    legacy = lib.arm_entry(pk, r"^discr\(", "ECDSA_SHA1_Legacy") + lib.arm_entry(pk, r"^discr\(", "RSA_PKCS1_SHA1")
    for _, t in legacy:
        rr = pk.reachable([t])
        ctx.ob("schemes", "SHA-1 scheme arm returns Err", not (set(x.bb for x in oks(pk)) & rr), msg="legacy SHA-1 arm cannot reach Ok")
    ctx.ob("schemes", "floor:SHA-1 arms", len(legacy) >= 1, nontrivial=False, msg=str(legacy))
