"""C03 connection ids never reused — structural clauses (K4 WHO, K12 TYPE, K5 ORIGIN)."""
import re

from .. import mir
from ..facts import PACKAGES

EXPLANATION = ("Ownership/typing analysis over resolved MIR: the id counter is a non-mut atomic static touched only by "
               "ConnectionId::next (a single fetch_add(1) whose result is the id); ConnectionId's field is private and "
               "its constructor is used only in next/new_unchecked; new_unchecked has no non-test caller in any analysed "
               "crate; DialOpts (which carries a pre-allocated id) is built only with ConnectionId::next() and is not Clone.")
ASSUMPTIONS = ["usize counter does not wrap (2^64 allocations)",
               "third-party code does not call the public test helper ConnectionId::new_unchecked"]

SW = "libp2p_swarm"


def check(ctx):
    prog = ctx.prog
    # K12 the static
    st = prog.const(SW, r"connection::NEXT_CONNECTION_ID$")
    ctx.ob("static-type", "NEXT_CONNECTION_ID", st["kind"] == "static" and st.get("mut") is False
           and "Atomic<usize>" in st["ty"], msg="static is non-mut Atomic<usize>: %s mut=%s" % (st["ty"], st.get("mut")))
    ctx.ob("static-init", "NEXT_CONNECTION_ID", isinstance(st.get("init"), int),
           msg="initialiser evaluated to %r" % st.get("init"))
    # K4: who touches the static
    users = set()
    for b in prog.bodies(SW):
        for bi in b.live:
            for s in b.blocks[bi]["stmts"]:
                if "NEXT_CONNECTION_ID" in str(s):
                    users.add(b.npath)
            if "NEXT_CONNECTION_ID" in str(b.blocks[bi]["term"]):
                users.add(b.npath)
    ctx.ob("static-who", "NEXT_CONNECTION_ID", users == {"libp2p_swarm::connection::ConnectionId::next"},
           msg="bodies referencing the counter: %s" % sorted(users))
    # next(): single fetch_add(1) feeding the aggregate
    nxt = ctx.body(SW, r"connection::ConnectionId::next$")
    calls = nxt.call_sites()
    fa = nxt.call_sites(r"atomic::Atomic::fetch_add$")
    ok = len(calls) == 1 and len(fa) == 1
    if ok:
        e = nxt.site_expr(fa[0])
        ok = e[2][0][0] == "static" and e[2][1][0] == "const" and e[2][1][1] == 1
    ctx.ob("next-shape", "fetch_add(1)", ok, nxt.file + ":%d" % nxt.line,
           "next() is exactly one call: fetch_add(static NEXT_CONNECTION_ID, 1)")
    aggs = nxt.agg_sites(r"connection::ConnectionId$")
    ok = len(aggs) == 1
    if ok:
        e = nxt.site_expr(aggs[0])
        ok = e[4][0][1][0] == "call" and "fetch_add" in e[4][0][1][1]
    ctx.ob("next-origin", "id=fetch_add result", ok, nxt.file + ":%d" % nxt.line,
           "the constructed ConnectionId wraps the fetch_add result")
    ctx.ob("next-vis", "ConnectionId::next", nxt.vis != "pub", msg="ConnectionId::next visibility is %s" % nxt.vis)
    # constructor use across all analysed crates
    ctor_users = set()
    unchecked_callers = []
    next_callers = []
    for crate in sorted(prog.fact_paths):
        for b in prog.bodies(crate):
            for s in b.agg_sites(r"^libp2p_swarm::connection::ConnectionId$"):
                ctor_users.add(b.npath)
            for s in b.call_sites(r"connection::ConnectionId::new_unchecked$"):
                unchecked_callers.append(s)
            for s in b.call_sites(r"connection::ConnectionId::next$"):
                next_callers.append(s)
    ctx.ob("ctor-who", "ConnectionId(..)", ctor_users <= {"libp2p_swarm::connection::ConnectionId::next",
                                                        "libp2p_swarm::connection::ConnectionId::new_unchecked"}
           and "libp2p_swarm::connection::ConnectionId::next" in ctor_users,
           msg="bodies constructing ConnectionId: %s" % sorted(ctor_users))
    ctx.ob("unchecked-callers", "new_unchecked", len(unchecked_callers) == 0,
           msg="non-test callers of ConnectionId::new_unchecked in %d crates: %s" %
           (len(prog.fact_paths), [repr(s) for s in unchecked_callers]))
    # positive control for the zero-count rule: the matcher does find `next` callers with the same query shape
    ctx.floor("next-callers", "ConnectionId::next call sites", next_callers, 4)
    allowed = {"libp2p_swarm::Swarm::handle_transport_event", "libp2p_swarm::dial_opts::WithPeerId::build",
               "libp2p_swarm::dial_opts::WithPeerIdWithAddresses::build",
               "libp2p_swarm::dial_opts::WithoutPeerIdWithAddress::build"}
    for s in next_callers:
        ctx.ob("next-callers", s.body.short, s.body.npath in allowed, s.loc(),
               "ConnectionId::next() called from %s" % s.body.npath)
    # field privacy
    adt = prog.adt(SW, r"^libp2p_swarm::connection::ConnectionId$")
    f = adt["variants"][0]["fields"][0]
    ctx.ob("field-private", "ConnectionId.0", f["vis"] != "pub" and f["vis"] != "crate",
           msg="field visibility: %s" % f["vis"])
    # DialOpts.connection_id only from next(); DialOpts not Clone
    do = prog.adt(SW, r"dial_opts::DialOpts$")
    fvis = {x["n"]: x["vis"] for x in do["variants"][0]["fields"]}
    ctx.ob("dialopts-field-private", "DialOpts.connection_id", fvis.get("connection_id") not in ("pub", "crate", None),
           msg="DialOpts.connection_id visibility: %s" % fvis.get("connection_id"))
    n = 0
    for b in prog.bodies(SW):
        for s in b.agg_sites(r"dial_opts::DialOpts$"):
            e = b.site_expr(s)
            val = dict(e[4]).get("connection_id")
            n += 1
            ctx.ob("dialopts-origin", b.short, val is not None and val[0] == "call" and
                   re.search(r"ConnectionId::next$", mir.strip_generics(val[1])) is not None, s.loc(),
                   "DialOpts.connection_id = %s" % (mir.render(val) if val else None))
    ctx.ob("dialopts-origin", "floor:constructions", n >= 3, msg="%d DialOpts constructions" % n, nontrivial=False)
    clones = [i for i in prog.impls(SW, r"clone::Clone$", r"dial_opts::DialOpts$")]
    ctx.ob("dialopts-not-clone", "DialOpts", len(clones) == 0, msg="impl Clone for DialOpts: %d" % len(clones))
    # ids handed to the pool originate from next()/DialOpts
    hte = ctx.body(SW, r"^libp2p_swarm::Swarm::handle_transport_event$")
    for s in hte.call_sites(r"pool::Pool::add_incoming$"):
        e = hte.site_expr(s)
        ok = any(c for a in e[2] for c in mir.calls_in(a, r"ConnectionId::next$"))
        ctx.ob("pool-id-origin", "add_incoming", ok, s.loc(), "id passed to add_incoming comes from ConnectionId::next()")
    dial = ctx.body(SW, r"^libp2p_swarm::Swarm::dial$")
    sites = dial.call_sites(r"pool::Pool::add_outgoing$")
    ctx.floor("pool-id-origin", "add_outgoing in dial", sites, 1)
    for s in sites:
        e = dial.site_expr(s)
        ok = any(c for a in e[2] for c in mir.calls_in(a, r"DialOpts::connection_id$"))
        ctx.ob("pool-id-origin", "add_outgoing", ok, s.loc(), "id passed to add_outgoing comes from DialOpts::connection_id()")


MUTANTS = [
    {"name": "load+store instead of fetch_add", "file": "swarm/src/connection.rs",
     "find": "Self(NEXT_CONNECTION_ID.fetch_add(1, Ordering::SeqCst))",
     "replace": "{ let v = NEXT_CONNECTION_ID.load(Ordering::SeqCst); NEXT_CONNECTION_ID.store(v + 1, Ordering::SeqCst); Self(v) }",
     "expect": r".", "why": "two threads can read the same value: ids repeat under concurrency only"},
    {"name": "fetch_add(0)", "file": "swarm/src/connection.rs",
     "find": "NEXT_CONNECTION_ID.fetch_add(1, Ordering::SeqCst)", "replace": "NEXT_CONNECTION_ID.fetch_add(0, Ordering::SeqCst)",
     "expect": r".", "why": "counter never advances"},
    {"name": "id masked to 16 bits", "file": "swarm/src/connection.rs",
     "find": "Self(NEXT_CONNECTION_ID.fetch_add(1, Ordering::SeqCst))", "replace": "Self(NEXT_CONNECTION_ID.fetch_add(1, Ordering::SeqCst) & 0xffff)",
     "expect": r".", "why": "ids wrap after 65536 allocations"},
]
