"""C21 signatures, signed envelopes and peer records are sound — guards (K1), sibling agreement (K11), origin (K5), dispatch table (K7)."""
import re

from .. import lib, mir
from ..mir import render

EXPLANATION = ("SignedEnvelope::payload_and_signing_key returns Ok only after payload-type equality and verify(domain) == true; new and verify "
               "both go through signature_payload(domain, payload_type, payload) with their own envelope's fields, and signature_payload "
               "appends length-prefixed domain, type and payload in that order; PeerRecord::from_signed_envelope_impl returns Ok only when "
               "the record's peer id equals the signing key's peer id and uses the payload/key returned by the envelope check; the public "
               "constructor/parser pairs use the same (domain, payload type) constants (legacy with legacy, interop with interop); "
               "PublicKey::verify / Keypair::sign dispatch each key variant to its own module.")
ASSUMPTIONS = ["unforgeability of the signature schemes; byte-mutation behaviour is not executed"]
CONFIGS = [{"name": "identity-all-keys", "packages": ["libp2p-identity"], "features": "ed25519,rsa,secp256k1,ecdsa,peerid,rand"}]
C = "libp2p_core"
I = "libp2p_identity"


def oks(b):
    return [mir.Site(b, x[1], x[2]) for x in b.defs[0] if x[0] == "stmt" and render(b.rvalue_expr(x[3])).startswith("std::result::Result::Ok{")]


def check_identity(ctx):
    prog = ctx.prog
    # dispatch tables
    for fn, kind, field in (("keypair::PublicKey::verify", "PublicKey", "publickey"), ("keypair::Keypair::sign", "Keypair|SecretKey", "keypair")):
        b = ctx.body(I, fn + "$")
        n = 0
        for s in b.call_sites(r"^libp2p_identity::(ed25519|rsa|secp256k1|ecdsa)::"):
            r = render(b.site_expr(s))
            mod = re.match(r"^libp2p_identity::(\w+)::", mir.strip_generics(b.call_name(s.term))).group(1)
            if not re.search(r"::(verify|sign)$", mir.strip_generics(b.call_name(s.term))):
                continue
            v = re.search(r"self\.%s@(\w+)\.0" % field, r)
            n += 1
            ok = v is not None and {"Ed25519": "ed25519", "Rsa": "rsa", "Secp256k1": "secp256k1", "Ecdsa": "ecdsa"}.get(v.group(1)) == mod
            ctx.ob("dispatch", "%s: variant %s handled by module %s" % (fn.split("::")[-1], v.group(1) if v else "?", mod), ok, s.loc(), r[:160])
            if fn.endswith("verify"):
                ctx.ob("dispatch", "verify passes (msg, sig) through unchanged (%s)" % mod, r.endswith(", msg, sig)"), s.loc(), r[-60:])
        ctx.ob("dispatch", "floor:%s arms" % fn.split("::")[-1], n >= 1, nontrivial=False, msg="%d arms" % n)


def check(ctx):
    prog = ctx.prog
    check_identity(ctx)
    if ctx.config != "default":
        return
    SE = r"signed_envelope::SignedEnvelope::"
    ps = ctx.body(C, SE + r"payload_and_signing_key$")
    for s in oks(ps):
        ctx.guarded("envelope", "Ok only for the expected payload type", s, lambda c, r, l: l == "false" and r.startswith("std::cmp::PartialEq::ne(self.payload_type, expected_payload_type)") or
                    (l == "false" and "ne(" in r and "self.payload_type" in r and "expected_payload_type" in r), "payload_type == expected")
        ctx.guarded("envelope", "Ok only with a valid signature for the given domain", s,
                    lambda c, r, l: (l == "true" and r == "libp2p_core::signed_envelope::SignedEnvelope::verify(self, domain_separation)") or
                    (l == "false" and r == "Not(libp2p_core::signed_envelope::SignedEnvelope::verify(self, domain_separation))"), "self.verify(domain)")
        r = render(ps.site_expr(s))
        ctx.ob("envelope", "returns this envelope's payload and key", r == "std::result::Result::Ok{0: tuple{0: <std::vec::Vec as std::ops::Deref>::deref(self.payload), 1: self.key}}", s.loc(), r[:200])
    ctx.floor("envelope", "Ok return of payload_and_signing_key", oks(ps), 1)
    v = ctx.body(C, SE + r"verify$")
    sp = v.call_sites(r"signed_envelope::signature_payload$")
    kv = v.call_sites(r"libp2p_identity::PublicKey::verify$")
    ok = len(sp) == 1 and render(v.site_expr(sp[0])).startswith("libp2p_core::signed_envelope::signature_payload(domain_separation, ") and "self.payload_type" in render(v.site_expr(sp[0])) and "self.payload)" in render(v.site_expr(sp[0]))
    ctx.ob("envelope", "verify hashes (domain, own payload_type, own payload)", ok, "%s:%d" % (v.file, v.line), render(v.site_expr(sp[0]))[:240] if sp else "")
    ok = len(kv) == 1 and re.match(r"^libp2p_identity::PublicKey::verify\(self\.key, .*signature_payload\(.*\), .*\(self\.signature\)\)$", render(v.site_expr(kv[0]))) is not None
    ctx.ob("envelope", "verify uses the envelope's own key and signature", ok, kv[0].loc() if kv else "", render(v.site_expr(kv[0]))[:260] if kv else "")
    r0 = [x for x in v.defs[0]]
    ctx.ob("envelope", "verify returns the signature check result", len(r0) == 1 and r0[0][0] == "call" and kv and r0[0][1] == kv[0].bb, msg="result = key.verify(..)")
    n = ctx.body(C, SE + r"new$")
    sp2 = n.call_sites(r"signed_envelope::signature_payload$")
    sg = n.call_sites(r"libp2p_identity::Keypair::sign$")
    ok = len(sp2) == 1 and re.match(r"^libp2p_core::signed_envelope::signature_payload\(domain_separation, .*\(payload_type\), .*\(payload\)\)$", render(n.site_expr(sp2[0]))) is not None
    ctx.ob("envelope", "new signs signature_payload(domain, payload_type, payload) — same construction as verify", ok, "%s:%d" % (n.file, n.line), render(n.site_expr(sp2[0]))[:240] if sp2 else "")
    ok = len(sg) == 1 and render(n.site_expr(sg[0])).startswith("libp2p_identity::Keypair::sign(key, ") and "signature_payload(" in render(n.site_expr(sg[0]))
    ctx.ob("envelope", "signature is over that buffer with the given key", ok, sg[0].loc() if sg else "", render(n.site_expr(sg[0]))[:200] if sg else "")
    for s in oks(n):
        r = render(n.site_expr(s))
        ctx.ob("envelope", "stored fields are the signed ones", "key: libp2p_identity::Keypair::public(key)" in r and "payload_type: payload_type" in r and "payload: payload" in r and "signature: " in r and "Keypair::sign(" in r, s.loc(), r[:300])
    spb = ctx.body(C, r"signed_envelope::signature_payload$")
    ex = [s for s in spb.call_sites(r"Vec::extend_from_slice$")]
    args = [render(spb.site_expr(s)[2][1]) for s in ex]
    want = ["usize(std::string::String::len(domain_separation)", "as_bytes(domain_separation)", "usize(core::slice::len(payload_type)", "payload_type", "usize(core::slice::len(payload)", "payload"]
    ok = len(args) == 6 and all((w in a) if i % 2 == 0 else (a.endswith(w) or a == w or w in a) for i, (w, a) in enumerate(zip(want, args)))
    ctx.ob("envelope", "signed buffer = len|domain|len|type|len|payload in this order", ok, "%s:%d" % (spb.file, spb.line), str([a[-60:] for a in args]))
    for a, b2 in zip(ex, ex[1:]):
        lib.precedes(ctx, "envelope", "buffer order", spb, [a.bb], [b2.bb], "extend_from_slice calls are sequential")
    fd = ctx.body(C, SE + r"from_protobuf_encoding$")
    for s in oks(fd):
        r = render(fd.site_expr(s))
        ctx.ob("envelope", "decoding maps each wire field to its own field", re.search(r"payload_type: .*\.payload_type, payload: .*\.payload, signature: .*\.signature", r) is not None and "try_decode_protobuf(" in r and ".public_key" in r, s.loc(), r[:300])
    # ---- peer record
    PR = r"peer_record::PeerRecord::"
    fi = ctx.body(C, PR + r"from_signed_envelope_impl$")
    for s in oks(fi):
        ctx.guarded("record", "Ok only if record.peer_id == signer's peer id", s,
                    lambda c, r, l: l == "false" and r.startswith("std::cmp::PartialEq::ne(") and "PeerId::from_bytes(" in r and "to_peer_id(" in r, "peer_id == signing_key.to_peer_id()")
        ctx.guarded("record", "Ok only if the envelope check passed", s, lambda c, r, l: l == "Continue" and "payload_and_signing_key(envelope, " in r and "PeerRecord::decode" not in r.split("payload_and_signing_key")[0], "payload_and_signing_key(..)?")
    ctx.floor("record", "Ok return of from_signed_envelope_impl", oks(fi), 1)
    cs = fi.call_sites(SE + r"payload_and_signing_key$")
    ok = len(cs) == 1 and re.match(r"^libp2p_core::signed_envelope::SignedEnvelope::payload_and_signing_key\(envelope, <std::string::String as std::convert::From>::from\(domain\), payload_type\)$", render(fi.site_expr(cs[0]))) is not None
    ctx.ob("record", "envelope is checked with the given domain and payload type", ok, cs[0].loc() if cs else "", render(fi.site_expr(cs[0]))[:200] if cs else "")
    ne = [bi for bi in fi.live if fi.switch_info(bi) and render(fi.switch_info(bi)[0]).startswith("std::cmp::PartialEq::ne(")]
    mir.RENDER_MAX[0] = 30
    for bi in ne:
        cond = fi.switch_info(bi)[0]
        a, b2 = render(cond[2][0]), render(cond[2][1])
        ctx.ob("record", "compared key is the envelope's verified signing key; id is decoded from the verified payload",
               "payload_and_signing_key(" in b2 and "@Continue.0.1" in b2 and "PeerRecord as prost::Message>::decode(" in a.replace("proto::", "") or ("@Continue.0.1" in b2 and "decode(" in a and "@Continue.0.0" in a),
               "%s:%d" % (fi.file, fi.blocks[bi]["term"].get("l", 0)), (a[-200:] + " != " + b2[-200:]))
    mir.RENDER_MAX[0] = 14
    pairs = {}
    for fn in ("from_signed_envelope", "from_signed_envelope_interop", "new", "new_interop"):
        b = ctx.body(C, PR + fn + "$")
        cs = b.call_sites(PR + r"(from_signed_envelope_impl|new_impl)$")
        if len(cs) == 1:
            e = b.site_expr(cs[0])
            consts = re.findall(r"const:libp2p_core::peer_record::(\w+)", render(e))
            pairs[fn] = tuple(consts)
    ctx.ob("record", "legacy pair: new and from_signed_envelope use the same (domain, payload type)", pairs.get("new") == pairs.get("from_signed_envelope") == ("LEGACY_DOMAIN_SEP", "LEGACY_PAYLOAD_TYPE"), msg=str(pairs))
    ctx.ob("record", "interop pair: new_interop and from_signed_envelope_interop use the same (domain, payload type)", pairs.get("new_interop") == pairs.get("from_signed_envelope_interop") == ("STANDARD_DOMAIN_SEP", "STANDARD_PAYLOAD_TYPE"), msg=str(pairs))
    vals = {k: prog.const(C, r"peer_record::%s$" % k).get("s") for k in ("LEGACY_DOMAIN_SEP", "LEGACY_PAYLOAD_TYPE", "STANDARD_DOMAIN_SEP")}
    ctx.ob("record", "legacy and interop domains differ", vals["LEGACY_DOMAIN_SEP"] and vals["STANDARD_DOMAIN_SEP"] and vals["LEGACY_DOMAIN_SEP"] != vals["STANDARD_DOMAIN_SEP"], msg=str(vals))
    ni = ctx.body(C, PR + r"new_impl$")
    cs = ni.call_sites(SE + r"new$")
    ok = len(cs) == 1 and re.match(r"^libp2p_core::signed_envelope::SignedEnvelope::new\(key, <std::string::String as std::convert::From>::from\(domain\), .*to_vec\(payload_type\), ", render(ni.site_expr(cs[0]))) is not None
    ctx.ob("record", "new_impl signs with the given key, domain and payload type", ok, cs[0].loc() if cs else "", render(ni.site_expr(cs[0]))[:240] if cs else "")
    pr = [s for s in ni.agg_sites(r"proto::.*PeerRecord$")]
    ok = len(pr) == 1 and re.search(r"peer_id: \w+::PeerId::to_bytes\(libp2p_identity::PublicKey::to_peer_id\(libp2p_identity::Keypair::public\(key\)\)\)", render(ni.site_expr(pr[0]))) is not None
    ctx.ob("record", "signed record names the signer's own peer id", ok, pr[0].loc() if pr else "", render(ni.site_expr(pr[0]))[:240] if pr else "")
