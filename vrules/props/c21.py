"""C21 signatures, signed envelopes and peer records are sound — guards (K1), sibling agreement (K11), origin (K5), dispatch table (K7)."""
import re

from .. import lib, mir
from .. import lib_sec as S
from ..mir import render, strip_generics

EXPLANATION = ("SignedEnvelope::payload_and_signing_key returns Ok only after payload-type equality and verify(domain) == true; new and verify "
               "both go through signature_payload(domain, payload_type, payload) with their own envelope's fields, and signature_payload "
               "appends length-prefixed domain, type and payload in that order; PeerRecord::from_signed_envelope_impl returns Ok only when "
               "the record's peer id equals the signing key's peer id and uses the payload/key returned by the envelope check; the public "
               "constructor/parser pairs use the same (domain, payload type) constants (legacy with legacy, interop with interop); "
               "PublicKey::verify / Keypair::sign dispatch each key variant to its own module.")
ASSUMPTIONS = ["unforgeability of the signature schemes; byte-mutation behaviour is not executed"]
CONFIGS = [{"name": "identity-all-keys", "packages": ["libp2p-identity"], "features": "ed25519,rsa,secp256k1,ecdsa,peerid,rand"}]
C = "libp2p_core"
I = "libp2p_identity"

SELFTEST = [
    {"mutation": "ed25519::PublicKey::verify: `.and_then(..)` -> `.map(..)`", "caught_by": "leafverify/ed25519::PublicKey::verify is true only if the library verified (msg, sig) under the key"},
    {"neutral": "neutral/sec/08; ed25519 verify as `match Signature::try_from(sig) { Ok(s) => self.0.verify(msg, &s).is_ok(), Err(_) => false }`; `!(a == b)` for `a != b`; renamed parameters", "silent": True},
]

def oks(b):
    return S.ok_sites(b)


def callee_is(e, pat):
    return e[0] == "call" and re.search(pat, strip_generics(e[1])) is not None


LIBVERIFY = r"::(verify|verify_strict|verify_prehash|verify_digest)$"
PARAM = "closure-param-%d"


def _closure_of(prog, body, call):
    cls = [a for a in call[2] if a[0] == "closure"]
    if len(cls) != 1:
        return None, {}
    return S.closure_env(prog, body, cls[0])


def _in_closure(cl, e, env):
    """closure-body expression in the parent's terms: captured variables replaced by what was captured, the closure's own
    parameters marked so that they cannot be confused with the parent's parameters"""
    def f(x):
        if x[0] == "arg":
            return ("unknown", PARAM % x[1])
        return x
    return S.subst_upvars(S.emap(e, f), env)


def ok_sound(prog, body, r, why, env=None, in_closure=None, depth=0):
    """Result-valued expression `r` is Ok only if an external signature verification over (key of self, msg, sig) returned Ok."""
    if depth > 4 or r[0] != "call":
        why.append("not a verification result: %s" % render(r)[:80])
        return False
    n = strip_generics(r[1])
    if re.search(LIBVERIFY, n) and not n.startswith("libp2p_identity::"):
        args = [(_in_closure(in_closure, a, env) if in_closure is not None else a) for a in r[2]]
        has_key = any(S.has(a, lambda x: x[0] == "arg" and x[1] == 1) for a in args)
        has_msg = any(S.has(a, lambda x: x[0] == "arg" and x[1] == 2) for a in args)
        has_sig = any(S.has(a, lambda x: (x[0] == "arg" and x[1] == 3) or (x[0] == "unknown" and x[1] == PARAM % 2)) for a in args)
        if not (has_key and has_msg and has_sig):
            why.append("verification operands are not (self's key, msg, sig): %s" % render(r)[:120])
        return has_key and has_msg and has_sig
    if re.search(r"Result::and_then$", n):
        if not S.has(r[2][0], lambda x: x[0] == "arg" and x[1] == 3):
            why.append("parsed value does not come from `sig`")
            return False
        cl, cenv = _closure_of(prog, body, r)
        if cl is None:
            why.append("and_then without a closure")
            return False
        rets = [cl.site_expr(s) for s in S.ret_sites(cl)]
        return bool(rets) and all(ok_sound(prog, cl, x, why, cenv, cl, depth + 1) for x in rets)
    why.append("`%s` does not propagate a verification failure" % n.split("::")[-1])
    return False


def bool_sound(prog, body, e, why, env=None, in_closure=None, depth=0):
    """bool-valued expression `e` is true only if an external signature verification returned Ok."""
    if depth > 4:
        return False
    if e[0] == "const":
        if e[1] in (0, False):
            return True
        why.append("constant true result")
        return False
    if e[0] == "local":
        ds = S.def_exprs(body, e[1])
        return bool(ds) and all(bool_sound(prog, body, x, why, env, in_closure, depth + 1) for _, x in ds)
    if e[0] != "call":
        why.append("result is not derived from a verification: %s" % render(e)[:80])
        return False
    n = strip_generics(e[1])
    if re.search(r"Result::is_ok$", n):
        return ok_sound(prog, body, e[2][0], why, env, in_closure, depth + 1)
    if re.search(r"Result::is_ok_and$|Option::is_some_and$", n) or (re.search(r"(Result|Option)::map_or$", n) and len(e[2]) == 3 and S.cval(e[2][1]) == 0):
        if not S.has(e[2][0], lambda x: x[0] == "arg" and x[1] == 3):
            why.append("parsed value does not come from `sig`")
            return False
        cl, cenv = _closure_of(prog, body, e)
        if cl is None:
            return False
        rets = [cl.site_expr(s) for s in S.ret_sites(cl)]
        return bool(rets) and all(bool_sound(prog, cl, x, why, cenv, cl, depth + 1) for x in rets)
    if n.startswith("libp2p_identity::") and in_closure is None:
        # one level into a crate-local helper (secp256k1: verify -> verify_hash): operands stay (self, f(msg), sig)
        h = [b for b in prog.bodies(body.crate) if b.npath == n]
        a = e[2]
        if len(h) == 1 and len(a) == 3 and S.is_arg(S.peel(a[0]), 1) and S.has(a[1], lambda x: x[0] == "arg" and x[1] == 2) and S.is_arg(S.peel(a[2]), 3) and depth < 2:
            return leaf_sound(prog, h[0], why, depth + 1)
        why.append("helper %s is not called with (self, msg, sig)" % n.split("::")[-1])
        return False
    why.append("`%s` is not a verification outcome" % n.split("::")[-1])
    return False


def leaf_sound(prog, body, why, depth=0):
    rets = [body.site_expr(s) for s in S.ret_sites(body)]
    return bool(rets) and all(bool_sound(prog, body, x, why, None, None, depth) for x in rets)


def check_identity(ctx):
    prog = ctx.prog
    # dispatch tables
    for fn, kind, field in (("keypair::PublicKey::verify", "PublicKey", "publickey"), ("keypair::Keypair::sign", "Keypair|SecretKey", "keypair")):
        b = ctx.body(I, fn + "$")
        n = 0
        for s in b.call_sites(r"^libp2p_identity::(ed25519|rsa|secp256k1|ecdsa)::"):
            e = b.site_expr(s)
            r = render(e)
            mod = re.match(r"^libp2p_identity::(\w+)::", mir.strip_generics(b.call_name(s.term))).group(1)
            if not re.search(r"::(verify|sign)$", mir.strip_generics(b.call_name(s.term))):
                continue
            v = None
            for x in mir.walk(e[2][0]):
                if x[0] == "downcast" and S.has(x[1], lambda y: y[0] == "arg" and y[1] == 1):
                    v = x[2]
            n += 1
            ok = v is not None and {"Ed25519": "ed25519", "Rsa": "rsa", "Secp256k1": "secp256k1", "Ecdsa": "ecdsa"}.get(v) == mod
            ctx.ob("dispatch", "%s: variant %s handled by module %s" % (fn.split("::")[-1], v or "?", mod), ok, s.loc(), r[:160])
            if fn.endswith("verify"):
                ctx.ob("dispatch", "verify passes (msg, sig) through unchanged (%s)" % mod, len(e[2]) == 3 and S.is_arg(S.peel(e[2][1]), 2) and S.is_arg(S.peel(e[2][2]), 3), s.loc(), r[-60:])
        ctx.ob("dispatch", "floor:%s arms" % fn.split("::")[-1], n >= 1, nontrivial=False, msg="%d arms" % n)
    # leaf verification of every compiled-in key type: `true` only on the Ok edge of the library's verification of (msg, sig)
    leaves = prog.find(I, r"^libp2p_identity::(ed25519|rsa|secp256k1|ecdsa)::PublicKey::verify$")
    ctx.floor("leafverify", "key-type verify functions", leaves, 1)
    for b in leaves:
        ctx.use(b)
        why = []
        ok = leaf_sound(prog, b, why)
        mod = b.npath.split("::")[1]
        ctx.ob("leafverify", "%s::PublicKey::verify is true only if the library verified (msg, sig) under the key" % mod, ok, "%s:%d" % (b.file, b.line),
               "every returned value is `false` or the Ok-ness of the external verification of (self's key, msg, parsed sig)" if ok else "; ".join(why)[:300])


def check(ctx):
    prog = ctx.prog
    check_identity(ctx)
    if ctx.config != "default":
        return
    SE = r"signed_envelope::SignedEnvelope::"
    ps = S.canon_args(ctx.body(C, SE + r"payload_and_signing_key$"), ["self", "domain_separation", "expected_payload_type"])
    same_type = S.rel_edges(ps, lambda e: S.self_field(e, "payload_type"), lambda e: S.is_arg(S.peel(e), 3))["eq"]
    sig_ok, _ = S.truth_edges(ps, lambda c: callee_is(c, r"signed_envelope::SignedEnvelope::verify$") and S.is_arg(S.peel(c[2][0]), 1) and S.is_arg(S.peel(c[2][1]), 2))
    for s in oks(ps):
        S.guarded(ctx, "envelope", "Ok only for the expected payload type", s, same_type, "payload_type == expected")
        S.guarded(ctx, "envelope", "Ok only with a valid signature for the given domain", s, sig_ok, "self.verify(domain)")
        r = render(ps.site_expr(s))
        ctx.ob("envelope", "returns this envelope's payload and key", r == "std::result::Result::Ok{0: tuple{0: <std::vec::Vec as std::ops::Deref>::deref(self.payload), 1: self.key}}", s.loc(), r[:200])
    ctx.floor("envelope", "Ok return of payload_and_signing_key", oks(ps), 1)
    v = S.canon_args(ctx.body(C, SE + r"verify$"), ["self", "domain_separation"])
    sp = v.call_sites(r"signed_envelope::signature_payload$")
    kv = v.call_sites(r"libp2p_identity::PublicKey::verify$")
    ok = len(sp) == 1 and render(v.site_expr(sp[0])).startswith("libp2p_core::signed_envelope::signature_payload(domain_separation, ") and "self.payload_type" in render(v.site_expr(sp[0])) and "self.payload)" in render(v.site_expr(sp[0]))
    ctx.ob("envelope", "verify hashes (domain, own payload_type, own payload)", ok, "%s:%d" % (v.file, v.line), render(v.site_expr(sp[0]))[:240] if sp else "")
    ok = len(kv) == 1 and re.match(r"^libp2p_identity::PublicKey::verify\(self\.key, .*signature_payload\(.*\), .*\(self\.signature\)\)$", render(v.site_expr(kv[0]))) is not None
    ctx.ob("envelope", "verify uses the envelope's own key and signature", ok, kv[0].loc() if kv else "", render(v.site_expr(kv[0]))[:260] if kv else "")
    r0 = [x for x in v.defs[0]]
    ctx.ob("envelope", "verify returns the signature check result", len(r0) == 1 and r0[0][0] == "call" and kv and r0[0][1] == kv[0].bb, msg="result = key.verify(..)")
    n = S.canon_args(ctx.body(C, SE + r"new$"), ["key", "domain_separation", "payload_type", "payload"])
    sp2 = n.call_sites(r"signed_envelope::signature_payload$")
    sg = n.call_sites(r"libp2p_identity::Keypair::sign$")
    ok = len(sp2) == 1 and re.match(r"^libp2p_core::signed_envelope::signature_payload\(domain_separation, .*\(payload_type\), .*\(payload\)\)$", render(n.site_expr(sp2[0]))) is not None
    ctx.ob("envelope", "new signs signature_payload(domain, payload_type, payload) — same construction as verify", ok, "%s:%d" % (n.file, n.line), render(n.site_expr(sp2[0]))[:240] if sp2 else "")
    ok = len(sg) == 1 and render(n.site_expr(sg[0])).startswith("libp2p_identity::Keypair::sign(key, ") and "signature_payload(" in render(n.site_expr(sg[0]))
    ctx.ob("envelope", "signature is over that buffer with the given key", ok, sg[0].loc() if sg else "", render(n.site_expr(sg[0]))[:200] if sg else "")
    for s in oks(n):
        r = render(n.site_expr(s))
        ctx.ob("envelope", "stored fields are the signed ones", "key: libp2p_identity::Keypair::public(key)" in r and "payload_type: payload_type" in r and "payload: payload" in r and "signature: " in r and "Keypair::sign(" in r, s.loc(), r[:300])
    spb = S.canon_args(ctx.body(C, r"signed_envelope::signature_payload$"), ["domain_separation", "payload_type", "payload"])
    ex = [s for s in spb.call_sites(r"Vec::extend_from_slice$")]
    args = [render(spb.site_expr(s)[2][1]) for s in ex]
    want = ["usize(std::string::String::len(domain_separation)", "as_bytes(domain_separation)", "usize(core::slice::len(payload_type)", "payload_type", "usize(core::slice::len(payload)", "payload"]
    ok = len(args) == 6 and all((w in a) if i % 2 == 0 else (a.endswith(w) or a == w or w in a) for i, (w, a) in enumerate(zip(want, args)))
    ctx.ob("envelope", "signed buffer = len|domain|len|type|len|payload in this order", ok, "%s:%d" % (spb.file, spb.line), str([a[-60:] for a in args]))
    for a, b2 in zip(ex, ex[1:]):
        lib.precedes(ctx, "envelope", "buffer order", spb, [a.bb], [b2.bb], "extend_from_slice calls are sequential")
    fd = ctx.body(C, SE + r"from_protobuf_encoding$")
    for s in oks(fd):
        r = render(fd.site_expr(s))
        ctx.ob("envelope", "decoding maps each wire field to its own field", re.search(r"payload_type: .*\.payload_type, payload: .*\.payload, signature: .*\.signature", r) is not None and "try_decode_protobuf(" in r and ".public_key" in r, s.loc(), r[:300])
    # ---- peer record
    PR = r"peer_record::PeerRecord::"
    fi = S.canon_args(ctx.body(C, PR + r"from_signed_envelope_impl$"), ["envelope", "domain", "payload_type"])

    def checked(e, idx):        # component idx of the (payload, signing key) pair returned by the envelope check
        return S.has(S.norm(e), lambda x: x[0] == "field" and x[2] == idx and callee_is(x[1], r"^ok$") and callee_is(x[1][2][0], r"SignedEnvelope::payload_and_signing_key$"))
    rec_id = lambda e: S.has_call(e, r"PeerId::from_bytes$") and S.has_field(e, "peer_id") and checked(e, "0") and not S.has_call(e, r"PublicKey::to_peer_id$")
    signer_id = lambda e: callee_is(S.peel(e), r"PublicKey::to_peer_id$") and checked(e, "1")
    ids = S.rel_edges(fi, rec_id, signer_id)
    env_ok = set()
    for x in fi.call_sites(SE + r"payload_and_signing_key$"):
        env_ok |= S.call_outcome_edges(fi, x)[0]
    for s in oks(fi):
        S.guarded(ctx, "record", "Ok only if record.peer_id == signer's peer id", s, ids["eq"], "peer_id == signing_key.to_peer_id()")
        S.guarded(ctx, "record", "Ok only if the envelope check passed", s, env_ok, "payload_and_signing_key(..)?")
    ctx.floor("record", "Ok return of from_signed_envelope_impl", oks(fi), 1)
    cs = fi.call_sites(SE + r"payload_and_signing_key$")
    ok = len(cs) == 1 and re.match(r"^libp2p_core::signed_envelope::SignedEnvelope::payload_and_signing_key\(envelope, <std::string::String as std::convert::From>::from\(domain\), payload_type\)$", render(fi.site_expr(cs[0]))) is not None
    ctx.ob("record", "envelope is checked with the given domain and payload type", ok, cs[0].loc() if cs else "", render(fi.site_expr(cs[0]))[:200] if cs else "")
    cmps = [bi for bi in fi.live if fi.switch_info(bi) and S.cmp_of(fi.switch_info(bi)[0]) and any(rec_id(x) for x in S.cmp_of(fi.switch_info(bi)[0])[1:]) and any(signer_id(x) for x in S.cmp_of(fi.switch_info(bi)[0])[1:])]
    ctx.ob("record", "compared key is the envelope's verified signing key; id is decoded from the verified payload", len(cmps) >= 1,
           "%s:%d" % (fi.file, fi.blocks[cmps[0]]["term"].get("l", 0)) if cmps else "", "PeerId::from_bytes(decode(checked payload).peer_id) vs (checked signing key).to_peer_id()")
    pairs = {}
    for fn in ("from_signed_envelope", "from_signed_envelope_interop", "new", "new_interop"):
        b = ctx.body(C, PR + fn + "$")
        cs = b.call_sites(PR + r"(from_signed_envelope_impl|new_impl)$")
        if len(cs) == 1:
            e = b.site_expr(cs[0])
            consts = re.findall(r"const:libp2p_core::peer_record::(\w+)", render(e))
            pairs[fn] = tuple(consts)
    ctx.ob("record", "legacy pair: new and from_signed_envelope use the same (domain, payload type)", pairs.get("new") == pairs.get("from_signed_envelope") == ("LEGACY_DOMAIN_SEP", "LEGACY_PAYLOAD_TYPE"), msg=str(pairs))
    ctx.ob("record", "interop pair: new_interop and from_signed_envelope_interop use the same (domain, payload type)", pairs.get("new_interop") == pairs.get("from_signed_envelope_interop") == ("STANDARD_DOMAIN_SEP", "STANDARD_PAYLOAD_TYPE"), msg=str(pairs))
    vals = {k: prog.const(C, r"peer_record::%s$" % k).get("s") for k in ("LEGACY_DOMAIN_SEP", "LEGACY_PAYLOAD_TYPE", "STANDARD_DOMAIN_SEP")}
    ctx.ob("record", "legacy and interop domains differ", vals["LEGACY_DOMAIN_SEP"] and vals["STANDARD_DOMAIN_SEP"] and vals["LEGACY_DOMAIN_SEP"] != vals["STANDARD_DOMAIN_SEP"], msg=str(vals))
    ni = S.canon_args(ctx.body(C, PR + r"new_impl$"), ["key", "addresses", "domain", "payload_type"])
    cs = ni.call_sites(SE + r"new$")
    ok = len(cs) == 1 and re.match(r"^libp2p_core::signed_envelope::SignedEnvelope::new\(key, <std::string::String as std::convert::From>::from\(domain\), .*to_vec\(payload_type\), ", render(ni.site_expr(cs[0]))) is not None
    ctx.ob("record", "new_impl signs with the given key, domain and payload type", ok, cs[0].loc() if cs else "", render(ni.site_expr(cs[0]))[:240] if cs else "")
    pr = [s for s in ni.agg_sites(r"proto::.*PeerRecord$")]
    ok = len(pr) == 1 and re.search(r"peer_id: \w+::PeerId::to_bytes\(libp2p_identity::PublicKey::to_peer_id\(libp2p_identity::Keypair::public\(key\)\)\)", render(ni.site_expr(pr[0]))) is not None
    ctx.ob("record", "signed record names the signer's own peer id", ok, pr[0].loc() if pr else "", render(ni.site_expr(pr[0]))[:240] if pr else "")
