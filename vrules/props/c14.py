"""C14 protocol negotiation agrees and is transparent to application data — FSM extraction (K8) + guards (K1)."""
import re

from .. import lib, mir
from .. import lib_sec as S
from ..mir import render, strip_generics

EXPLANATION = ("The transition relations of DialerSelectFuture::poll, ListenerSelectFuture::poll and Negotiated::poll are extracted from "
               "their `match mem::replace(state, Poison)` loops (arm -> successor states on continue, state restored before every "
               "Poll::Pending, exit kinds) and compared with the reference tables; a state restored on Pending must be the arm's own "
               "variant rebuilt from the arm's own fields (nothing forgotten while waiting); state carried to the next arm keeps the "
               "selected protocol. Guards: the dialer completes only on a confirmation equal to its proposal (or lazily only for its last "
               "proposal under V1Lazy); the listener confirms only a name found in its own list and returns Ok only after a flushed "
               "confirmation; NotAvailable advances to the next proposal. Transparency of early application writes: every AsyncWrite "
               "method of LengthDelimitedReader (and the Sink::poll_flush/poll_close of LengthDelimited it delegates to) touches the "
               "underlying stream only on the Ready(Ok) edge of poll_write_buffer, so buffered negotiation frames can never be overtaken. "
               "Values are followed to their origin (arm fields, received message, captured variables), not matched by variable names.")
ASSUMPTIONS = ["byte-split / readiness schedules are not executed", "data transparency of Negotiated's AsyncRead half after completion is not decided",
               "MessageIO / LengthDelimited framing is C15"]
MS = "multistream_select"

DIALER = {
    "SendHeader": {"next": {"SendProtocol"}, "exits": {"Pending", "Ready(Err)", "residual"}},
    "SendProtocol": {"next": {"FlushProtocol"}, "exits": {"Pending", "Ready(Err)", "residual", "Ready(Ok)"}},
    "FlushProtocol": {"next": {"AwaitProtocol"}, "exits": {"Pending", "residual"}},
    "AwaitProtocol": {"next": {"AwaitProtocol", "SendProtocol"}, "exits": {"Pending", "Ready(Err)", "residual", "Ready(Ok)"}},
    "Done": {"next": set(), "exits": {"panic"}},
}
LISTENER = {
    "RecvHeader": {"next": {"SendHeader"}, "exits": {"Pending", "Ready(Err)"}},
    "SendHeader": {"next": {"Flush"}, "exits": {"Pending", "Ready(Err)"}},
    "RecvMessage": {"next": {"SendMessage"}, "exits": {"Pending", "Ready(Err)"}},
    "SendMessage": {"next": {"Flush"}, "exits": {"Pending", "Ready(Err)"}},
    "Flush": {"next": {"RecvMessage"}, "exits": {"Pending", "Ready(Err)", "Ready(Ok)"}},
    "Done": {"next": set(), "exits": {"panic"}},
}

SELFTEST = [
    {"mutation": "seeded/C14b: poll_write_vectored uses `poll_write_buffer(..)?` (Pending silently dropped)", "caught_by": "transparent/LengthDelimitedReader::poll_write_vectored: the underlying stream is touched only after the frame buffer was written out"},
    {"mutation": "seeded/C14: listener Flush restores protocol: None on Pending", "caught_by": "fsm/listener/Flush: Pending restores the same state with the arm's own fields"},
    {"neutral": "neutral/sec/01 (if-let -> match), renamed `message` local, renamed arm bindings", "silent": True},
]

def store_fields(body, site):
    """field -> expression of a `*state = State::V{..}` store, with the arm's pattern bindings (`io`, `protocol`, .. whatever
    they are called) replaced by what they were bound to (`<replaced state>@Arm.field`)."""
    e = body.rvalue_expr(site.stmt["r"])
    return {f: S.expand(body, x) for f, x in e[4]} if e[0] == "agg" else {}


def arm_field(e, arm, field):
    """e is the arm's own field: `<mem::replace(state, Poison)>@arm.field` (through view conversions)"""
    e = S.peel(e)
    return e[0] == "field" and e[2] == field and e[1][0] == "downcast" and e[1][2] == arm and S.has_call(e[1][1], r"mem::replace$")


def check_fsm(ctx, name, body, rel, table, keep_fields):
    ctx.use(body)
    ctx.ob("fsm", "%s: arms" % name, set(rel) >= set(table), "%s:%d" % (body.file, body.line), "arms found: %s" % sorted(rel))
    for arm, want in table.items():
        rec = rel.get(arm)
        if rec is None:
            continue
        nxt = {v for v, _, _ in rec["next"]}
        ctx.ob("fsm", "%s/%s: successor states" % (name, arm), nxt == want["next"], "%s:%d" % (body.file, body.line),
               "continue-edges store %s, reference %s" % (sorted(nxt), sorted(want["next"])))
        ctx.ob("fsm", "%s/%s: exit kinds" % (name, arm), rec["exits"] <= want["exits"] and ("Pending" in rec["exits"]) == ("Pending" in want["exits"])
               and ("Ready(Ok)" in rec["exits"]) == ("Ready(Ok)" in want["exits"]), "%s:%d" % (body.file, body.line),
               "exits %s, reference %s" % (sorted(rec["exits"]), sorted(want["exits"])))
        ctx.ob("fsm", "%s/%s: state restored before every Pending" % (name, arm), not rec["pending_unrestored"], "%s:%d" % (body.file, body.line),
               "a Poll::Pending exit is reachable with the poison state left in place" if rec["pending_unrestored"] else "every Pending exit re-assigns the state")
        ctx.ob("fsm", "%s/%s: state assigned before looping" % (name, arm), not rec["continue_unstored"], "%s:%d" % (body.file, body.line),
               "loop continues with the poison state" if rec["continue_unstored"] else "every continue re-assigns the state")
        for v, fields, site in rec["pending"]:
            ok = v == arm
            detail = []
            for f, val in store_fields(body, site).items():
                if not arm_field(val, arm, f):
                    ok = False
                    detail.append("%s: %s" % (f, render(val)[:80]))
            ctx.ob("fsm", "%s/%s: Pending restores the same state with the arm's own fields" % (name, arm), ok, site.loc(),
                   "restored State::%s{%s}%s" % (v, ", ".join(fields), (" — field(s) not preserved: " + "; ".join(detail)) if detail else ""))
        # fields carried over to the successor
        for v, fields, site in rec["next"]:
            sf = store_fields(body, site)
            for f in keep_fields.get((arm, v), ()):
                ctx.ob("fsm", "%s/%s->%s keeps %s" % (name, arm, v, f), f in sf and arm_field(sf[f], arm, f), site.loc(), "%s: %s" % (f, render(sf.get(f, ("unknown", "missing")))[:100]))


def ready_results(body, kind):
    """Sites `_0 = Poll::Ready(Ok(..))` / `Poll::Ready(Err(..))` of a poll fn."""
    out = []
    for s in S.ret_sites(body):
        e = body.site_expr(s)
        if e[0] == "agg" and e[3] == "Ready":
            inner = dict(e[4]).get("0")
            if inner and inner[0] == "agg" and inner[3] == kind:
                out.append((s, inner))
    return out


def write_through(ctx):
    """Application bytes written before / around the end of the negotiation never overtake buffered negotiation frames."""
    prog = ctx.prog
    RAW = r"^futures::(io::)?AsyncWrite::poll_(write|write_vectored|flush|close)$"
    meths = prog.find(MS, r"<length_delimited::LengthDelimitedReader as futures::AsyncWrite>::poll_(write|write_vectored|flush|close)$")
    ctx.floor("transparent", "AsyncWrite methods of LengthDelimitedReader", meths, 4)

    def check_body(b, label):
        ctx.use(b)
        raw = [s for s in b.call_sites() if re.search(RAW, strip_generics(b.call_name(s.term)))]
        pwb = b.call_sites(r"length_delimited::LengthDelimited::poll_write_buffer$")
        good = set()
        for s in pwb:
            good |= S.call_outcome_edges(b, s)[0]
        for s in raw:
            S.guarded(ctx, "transparent", "%s: the underlying stream is touched only after the frame buffer was written out" % label, s, good,
                      "poll_write_buffer(..) == Ready(Ok(())) on every path (Pending and Err return)")
        return raw
    for b in meths:
        nm = b.npath.split("::")[-1]
        raw = check_body(b, "LengthDelimitedReader::" + nm)
        deleg = []
        for s in b.call_sites(r"<length_delimited::LengthDelimited as futures::Sink>::poll_(flush|close|ready)$"):
            h = S.crate_callee(prog, b, s)
            if h is not None:
                deleg += check_body(h, "LengthDelimited::" + h.npath.split("::")[-1])
        ctx.floor("transparent", "%s reaches the underlying stream" % nm, raw + deleg, 1)


def check(ctx):
    prog = ctx.prog
    d = S.canon_this(S.canon_args(ctx.body(MS, r"DialerSelectFuture as futures::Future>::poll$"), ["self", "cx"]))
    V = S.view(d)
    rel = lib.fsm_extract(d, r"dialer_select::State$")
    check_fsm(ctx, "dialer", d, rel, DIALER, {("SendProtocol", "FlushProtocol"): ["protocol"], ("FlushProtocol", "AwaitProtocol"): ["protocol"],
                                              ("AwaitProtocol", "AwaitProtocol"): ["protocol"]})
    # new proposals come from protocols.next()
    for arm in ("SendHeader", "AwaitProtocol"):
        for v, fields, site in rel[arm]["next"]:
            if v == "SendProtocol":
                x = S.peel(S.norm(S.recv_norm(d)(store_fields(d, site).get("protocol", ("unknown", "")))))
                ok = (x[0] == "call" and x[1] == "ok" and x[2][0][0] == "call" and re.search(r"Iterator>?::next$", strip_generics(x[2][0][1])) is not None
                      and S.self_field(x[2][0][2][0], "protocols"))
                ctx.ob("dialer", "%s->SendProtocol proposes protocols.next()" % arm, ok, site.loc(), render(x)[:140])
    # completion guards
    comp = d.call_sites(r"negotiated::Negotiated::completed$")
    ctx.floor("dialer", "Negotiated::completed", comp, 1)
    confirmed = S.rel_edges(d, lambda e: S.has(e, lambda x: x[0] == "downcast" and x[2] == "Protocol") and S.has_call(e, r"Stream>::poll_next$|poll_next_unpin$"),
                            lambda e: arm_field(S.expand(d, e), "AwaitProtocol", "protocol"))["eq"]
    for s in comp:
        S.guarded(ctx, "dialer", "complete only on confirmation of the proposed protocol", s, confirmed, "p.as_ref() == protocol.as_ref()")
        ctx.guarded("dialer", "complete only on a Protocol message", s, lambda c, r, l: l == "Protocol" and r.startswith("discr("), "msg is Message::Protocol")
    exp = d.call_sites(r"negotiated::Negotiated::expecting$")
    ctx.floor("dialer", "Negotiated::expecting", exp, 1)
    _, no_more = S.outcome_edges(d, lambda v: v[0] == "call" and re.search(r"Peekable::peek$", strip_generics(v[1])) is not None)
    for s in exp:
        S.guarded(ctx, "dialer", "lazy completion only for the last proposal", s, no_more, "protocols.peek().is_none()")
        S.vguarded(ctx, "dialer", "lazy completion only under V1Lazy", s, lambda c, r, l: l == "V1Lazy" and r == "discr(self.version)", "version == V1Lazy", V)
        a = d.site_expr(s)[2]
        x = S.norm(S.expand(d, a[1])) if len(a) > 1 else ("unknown", "")
        ok = x[0] == "call" and x[1] == "ok" and S.has_call(x, r"Protocol as std::convert::TryFrom>::try_from$") and S.has(x, lambda y: arm_field(y, "SendProtocol", "protocol"))
        ctx.ob("dialer", "lazy stream expects the proposed protocol", ok, s.loc(), render(x)[:200])
    # the Ok results return the arm's protocol
    for s, inner in ready_results(d, "Ok"):
        tup = dict(inner[4]).get("0")
        first = dict(tup[4]).get("0") if tup and tup[0] == "agg" else None
        arms = [arm for arm in ("SendProtocol", "AwaitProtocol") if first is not None and arm_field(S.expand(d, first), arm, "protocol")]
        ctx.ob("dialer", "%s: Ok returns the negotiated name" % (arms[0] if arms else "?"), len(arms) == 1, s.loc(), V(d.site_expr(s))[:200])
    # ---- listener
    l = S.canon_this(S.canon_args(ctx.body(MS, r"ListenerSelectFuture as futures::Future>::poll$"), ["self", "cx"]))
    VL = S.view(l)
    rnl = S.recv_norm(l)
    rel = lib.fsm_extract(l, r"listener_select::State$")
    check_fsm(ctx, "listener", l, rel, LISTENER, {("SendMessage", "Flush"): ["protocol"]})
    comp = l.call_sites(r"negotiated::Negotiated::completed$")
    ctx.floor("listener", "Negotiated::completed", comp, 1)
    flushed = set()
    for s in l.call_sites(r"Sink>::poll_flush$"):
        flushed |= S.call_outcome_edges(l, s)[0]
    selected, _ = S.outcome_edges(l, lambda v: arm_field(v, "Flush", "protocol"))
    for s in comp:
        S.guarded(ctx, "listener", "Ok only after the confirmation was flushed", s, flushed, "poll_flush == Ready(Ok)")
        S.guarded(ctx, "listener", "Ok only when a protocol was selected", s, selected, "protocol is Some")
    # selection: find_map over own list with equality
    fm = l.call_sites(r"Iterator>::find_map$|Iterator::find_map$")
    ctx.floor("listener", "find_map over protocols", fm, 1)
    for s in fm:
        e = l.site_expr(s)
        ctx.ob("listener", "searches its own protocol list", S.has(rnl(e[2][0]), lambda x: S.self_field(x, "protocols")), s.loc(), VL(e[2][0])[:160])
        cls = [a for a in e[2] if a[0] == "closure"]
        cl, env = S.closure_env(prog, l, cls[0]) if cls else (None, {})
        somes = cl.agg_sites(r"^std::option::Option$", "Some") if cl else []
        ctx.floor("listener", "find_map closure Some", somes, 1)
        if cl is None:
            continue

        def proposal(x):      # the name received from the dialer: payload of the Message::Protocol that was read
            x = S.subst_upvars(x, env)
            return S.has(x, lambda y: y[0] == "downcast" and y[2] == "Protocol") and S.has_call(x, r"Stream>::poll_next$|poll_next_unpin$")

        def entry(x, idx=None):        # a component of the list entry (the closure's parameter)
            x = S.peel(x)
            return x[0] == "field" and (idx is None or x[2] == idx) and S.peel(x[1])[0] == "arg" and S.peel(x[1])[1] == 2
        equal = S.rel_edges(cl, proposal, lambda x: entry(x))["eq"]
        for x in somes:
            S.guarded(ctx, "listener", "a name is selected only if it equals the proposal", x, equal, "&p == proto")
            pay = dict(cl.site_expr(x)[4]).get("0")
            ctx.ob("listener", "selected name is the matching entry's name", pay is not None and entry(pay), x.loc(), render(cl.site_expr(x))[:120])
    # RecvMessage -> SendMessage: confirmation message iff protocol found
    msg_locals = set()
    for v, fields, site in rel["RecvMessage"]["next"]:
        raw = dict(l.rvalue_expr(site.stmt["r"])[4])
        pr, ms = raw.get("protocol", ("unknown", "")), raw.get("message", ("unknown", ""))
        if pr[0] == "agg" and pr[3] == "None":
            ctx.ob("listener", "ls answer carries no selection", ms[0] == "agg" and ms[3] == "Protocols", site.loc(), render(ms)[:80])
        else:
            ctx.ob("listener", "selection is the find_map result", pr[0] == "call" and re.search(r"Iterator>?::find_map$", strip_generics(pr[1])) is not None, site.loc(), render(pr)[:100])
            if ms[0] == "local":
                msg_locals.add(ms[1])
    msgs = []
    for k in sorted(msg_locals):
        for site, e in S.def_exprs(l, k):
            if e[0] == "agg" and re.search(r"protocol::Message$", strip_generics(e[2])) and e[3] in ("Protocol", "NotAvailable"):
                msgs.append((site, e))
    ctx.floor("listener", "confirm / reject message constructions", msgs, 2)
    found, not_found = S.outcome_edges(l, lambda v: v[0] == "call" and re.search(r"Iterator>?::find_map$", strip_generics(v[1])) is not None)
    for site, e in msgs:
        if e[3] == "Protocol":
            S.guarded(ctx, "listener", "confirmation only when a protocol was found", site, found, "protocol.is_some()")
            pay = S.peel(dict(e[4]).get("0", ("unknown", "")))
            ok = pay[0] == "field" and pay[1][0] == "downcast" and pay[1][2] == "Protocol" and S.has_call(pay, r"Stream>::poll_next$|poll_next_unpin$")
            ctx.ob("listener", "confirmation echoes the proposal", ok, site.loc(), VL(e)[:120])
        else:
            S.guarded(ctx, "listener", "rejection only when none was found", site, not_found, "protocol.is_none()")
    # ---- Negotiated::poll
    n = S.canon_this(S.canon_args(ctx.body(MS, r"negotiated::Negotiated::poll$"), ["self", "cx"]))
    rel = lib.fsm_extract(n, r"negotiated::State$")
    rec = rel.get("Expecting")
    ctx.ob("fsm", "negotiated: Expecting arm", rec is not None, msg=str(sorted(rel)))
    if rec:
        ctx.ob("fsm", "negotiated/Expecting: successor states", {v for v, _, _ in rec["next"]} == {"Expecting"}, msg=str([v for v, _, _ in rec["next"]]))
        ctx.ob("fsm", "negotiated/Expecting: state restored before Pending", not rec["pending_unrestored"], msg="pending restores: %s" % [v for v, _, _ in rec["pending"]])
        for v, fields, site in rec["pending"]:
            ok = v == "Expecting" and all(arm_field(val, "Expecting", f) for f, val in store_fields(n, site).items())
            ctx.ob("fsm", "negotiated/Expecting: Pending restores the same state", ok, site.loc(), str(fields)[:200])
        okst = rec.get("on", {}).get("Ready(Ok)", [])
        ctx.ob("fsm", "negotiated/Expecting: Ok only after switching to Completed", [v for v, _, _ in okst] == ["Completed"], msg=str([v for v, _, _ in okst]))
        agreed = S.rel_edges(n, lambda e: S.has(e, lambda x: x[0] == "downcast" and x[2] == "Protocol") and S.has_call(e, r"Stream>::poll_next$|poll_next_unpin$"),
                             lambda e: arm_field(S.expand(n, e), "Expecting", "protocol"))["eq"]
        for v, fields, site in okst:
            if site is not None:
                S.guarded(ctx, "negotiated", "completed only on confirmation of the expected protocol", site, agreed, "p.as_ref() == protocol.as_ref()")
        for v, fields, site in rec["next"]:
            sf = store_fields(n, site)
            h = sf.get("header", ("unknown", ""))
            ctx.ob("negotiated", "header consumed once", h[0] == "agg" and h[3] == "None" and "protocol" in sf and arm_field(sf["protocol"], "Expecting", "protocol"), site.loc(), str(fields)[:160])
    others = [a for a in rel if a != "Expecting"]
    for a in others:
        ctx.ob("fsm", "negotiated/%s: no progress from other states" % a, rel[a]["exits"] <= {"panic"}, msg=str(sorted(rel[a]["exits"])))
    write_through(ctx)
