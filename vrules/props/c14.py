"""C14 protocol negotiation agrees and is transparent to application data — FSM extraction (K8) + guards (K1)."""
import re

from .. import lib, mir
from ..mir import render

EXPLANATION = ("The transition relations of DialerSelectFuture::poll, ListenerSelectFuture::poll and Negotiated::poll are extracted from "
               "their `match mem::replace(state, Poison)` loops (arm -> successor states on continue, state restored before every "
               "Poll::Pending, exit kinds) and compared with the reference tables; a state restored on Pending must be the arm's own "
               "variant rebuilt from the arm's own fields (nothing forgotten while waiting); state carried to the next arm keeps the "
               "selected protocol. Guards: the dialer completes only on a confirmation equal to its proposal (or lazily only for its last "
               "proposal under V1Lazy); the listener confirms only a name found in its own list and returns Ok only after a flushed "
               "confirmation; NotAvailable advances to the next proposal.")
ASSUMPTIONS = ["byte-split / readiness schedules are not executed", "data transparency of Negotiated's AsyncRead/AsyncWrite halves after completion is not decided",
               "MessageIO / LengthDelimited framing is C15"]
MS = "multistream_select"

DIALER = {
    "SendHeader": {"next": {"SendProtocol"}, "exits": {"Pending", "Ready(Err)", "residual"}},
    "SendProtocol": {"next": {"FlushProtocol"}, "exits": {"Pending", "Ready(Err)", "residual", "Ready(Ok)"}},
    "FlushProtocol": {"next": {"AwaitProtocol"}, "exits": {"Pending", "residual"}},
    "AwaitProtocol": {"next": {"AwaitProtocol", "SendProtocol"}, "exits": {"Pending", "Ready(Err)", "residual", "Ready(Ok)"}},
    "Done": {"next": set(), "exits": {"panic"}},
}
LISTENER = {
    "RecvHeader": {"next": {"SendHeader"}, "exits": {"Pending", "Ready(Err)"}},
    "SendHeader": {"next": {"Flush"}, "exits": {"Pending", "Ready(Err)"}},
    "RecvMessage": {"next": {"SendMessage"}, "exits": {"Pending", "Ready(Err)"}},
    "SendMessage": {"next": {"Flush"}, "exits": {"Pending", "Ready(Err)"}},
    "Flush": {"next": {"RecvMessage"}, "exits": {"Pending", "Ready(Err)", "Ready(Ok)"}},
    "Done": {"next": set(), "exits": {"panic"}},
}


def check_fsm(ctx, name, body, rel, table, keep_fields):
    ctx.use(body)
    ctx.ob("fsm", "%s: arms" % name, set(rel) >= set(table), "%s:%d" % (body.file, body.line), "arms found: %s" % sorted(rel))
    for arm, want in table.items():
        rec = rel.get(arm)
        if rec is None:
            continue
        nxt = {v for v, _, _ in rec["next"]}
        ctx.ob("fsm", "%s/%s: successor states" % (name, arm), nxt == want["next"], "%s:%d" % (body.file, body.line),
               "continue-edges store %s, reference %s" % (sorted(nxt), sorted(want["next"])))
        ctx.ob("fsm", "%s/%s: exit kinds" % (name, arm), rec["exits"] <= want["exits"] and ("Pending" in rec["exits"]) == ("Pending" in want["exits"])
               and ("Ready(Ok)" in rec["exits"]) == ("Ready(Ok)" in want["exits"]), "%s:%d" % (body.file, body.line),
               "exits %s, reference %s" % (sorted(rec["exits"]), sorted(want["exits"])))
        ctx.ob("fsm", "%s/%s: state restored before every Pending" % (name, arm), not rec["pending_unrestored"], "%s:%d" % (body.file, body.line),
               "a Poll::Pending exit is reachable with the poison state left in place" if rec["pending_unrestored"] else "every Pending exit re-assigns the state")
        ctx.ob("fsm", "%s/%s: state assigned before looping" % (name, arm), not rec["continue_unstored"], "%s:%d" % (body.file, body.line),
               "loop continues with the poison state" if rec["continue_unstored"] else "every continue re-assigns the state")
        for v, fields, site in rec["pending"]:
            ok = v == arm
            detail = []
            for f, val in fields.items():
                good = val == f or val.endswith("@%s.%s" % (arm, f))
                if f == "io":
                    good = val == "io"
                if not good:
                    ok = False
                    detail.append("%s: %s" % (f, val[:80]))
            ctx.ob("fsm", "%s/%s: Pending restores the same state with the arm's own fields" % (name, arm), ok, site.loc(),
                   "restored State::%s{%s}%s" % (v, ", ".join(fields), (" — field(s) not preserved: " + "; ".join(detail)) if detail else ""))
        # fields carried over to the successor
        for v, fields, site in rec["next"]:
            for f in keep_fields.get((arm, v), ()):
                val = fields.get(f, "")
                ctx.ob("fsm", "%s/%s->%s keeps %s" % (name, arm, v, f), val.endswith("@%s.%s" % (arm, f)) or val == f, site.loc(), "%s: %s" % (f, val[:100]))


def check(ctx):
    prog = ctx.prog
    d = ctx.body(MS, r"DialerSelectFuture as futures::Future>::poll$")
    rel = lib.fsm_extract(d, r"dialer_select::State$")
    check_fsm(ctx, "dialer", d, rel, DIALER, {("SendProtocol", "FlushProtocol"): ["protocol"], ("FlushProtocol", "AwaitProtocol"): ["protocol"],
                                              ("AwaitProtocol", "AwaitProtocol"): ["protocol"]})
    # new proposals come from protocols.next()
    for arm in ("SendHeader", "AwaitProtocol"):
        for v, fields, site in rel[arm]["next"]:
            if v == "SendProtocol":
                ctx.ob("dialer", "%s->SendProtocol proposes protocols.next()" % arm, "Try>::branch(std::option::Option::ok_or(<std::iter::Peekable as std::iter::Iterator>::next(" in fields.get("protocol", ""),
                       site.loc(), fields.get("protocol", "")[:140])
    # completion guards
    comp = d.call_sites(r"negotiated::Negotiated::completed$")
    ctx.floor("dialer", "Negotiated::completed", comp, 1)
    for s in comp:
        ctx.guarded("dialer", "complete only on confirmation of the proposed protocol", s,
                    lambda c, r, l: l == "true" and re.search(r"PartialEq.*::eq\(.*as_ref\(.*\), .*as_ref\(.*@AwaitProtocol\.protocol\)\)$", r) is not None or
                    (l == "true" and "::eq(" in r and "@AwaitProtocol.protocol" in r and "@Protocol.0" in r),
                    "p.as_ref() == protocol.as_ref()")
        ctx.guarded("dialer", "complete only on a Protocol message", s, lambda c, r, l: l == "Protocol" and r.startswith("discr("), "msg is Message::Protocol")
    exp = d.call_sites(r"negotiated::Negotiated::expecting$")
    ctx.floor("dialer", "Negotiated::expecting", exp, 1)
    for s in exp:
        ctx.guarded("dialer", "lazy completion only for the last proposal", s,
                    lambda c, r, l: l == "false" and r.startswith("std::option::Option::is_some(std::iter::Peekable::peek("), "protocols.peek().is_none()")
        ctx.guarded("dialer", "lazy completion only under V1Lazy", s, lambda c, r, l: l == "V1Lazy" and r == "discr(this.version)", "version == V1Lazy")
        e = render(d.site_expr(s))
        ctx.ob("dialer", "lazy stream expects the proposed protocol", re.search(r"Negotiated::expecting\(.*into_reader\(io\), .*@Continue\.0|Negotiated::expecting\(.*, p, ", e) is not None or ", p," in e, s.loc(), e[:200])
    # the Ok results return the arm's protocol
    for arm in ("SendProtocol", "AwaitProtocol"):
        for d0 in d.defs[0]:
            if d0[0] != "stmt":
                continue
            r = render(d.rvalue_expr(d0[3]))
            if r.startswith("std::task::Poll::Ready{0: std::result::Result::Ok") and ("@%s.protocol" % arm) in r:
                ctx.ob("dialer", "%s: Ok returns the negotiated name" % arm, r.startswith("std::task::Poll::Ready{0: std::result::Result::Ok{0: tuple{0: ") and ("@%s.protocol, 1: " % arm) in r,
                       mir.Site(d, d0[1], d0[2]).loc(), r[:200])
    # ---- listener
    l = ctx.body(MS, r"ListenerSelectFuture as futures::Future>::poll$")
    rel = lib.fsm_extract(l, r"listener_select::State$")
    check_fsm(ctx, "listener", l, rel, LISTENER, {("SendMessage", "Flush"): ["protocol"]})
    comp = l.call_sites(r"negotiated::Negotiated::completed$")
    ctx.floor("listener", "Negotiated::completed", comp, 1)
    for s in comp:
        ctx.guarded("listener", "Ok only after the confirmation was flushed", s,
                    lambda c, r, ll: ll == "Ok" and "poll_flush(" in r and r.endswith("@Ready.0)"), "poll_flush == Ready(Ok)")
        ctx.guarded("listener", "Ok only when a protocol was selected", s, lambda c, r, ll: ll == "Some" and r.endswith("@Flush.protocol)"), "protocol is Some")
    # selection: find_map over own list with equality
    fm = l.call_sites(r"Iterator>::find_map$|Iterator::find_map$")
    ctx.floor("listener", "find_map over protocols", fm, 1)
    for s in fm:
        e = l.site_expr(s)
        ctx.ob("listener", "searches its own protocol list", "this.protocols" in render(e[2][0]), s.loc(), render(e[2][0])[:160])
        cl = lib.closure_of(prog, l, e)
        somes = cl.agg_sites(r"^std::option::Option$", "Some") if cl else []
        ctx.floor("listener", "find_map closure Some", somes, 1)
        for x in somes:
            ctx.guarded("listener", "a name is selected only if it equals the proposal", x, lambda c, r, ll: ll == "true" and "::eq(" in r and "^p" in r, "&p == proto")
            ctx.ob("listener", "selected name is the matching entry's name", "clone(" in render(cl.site_expr(x)) and ".0" in render(cl.site_expr(x)), x.loc(), render(cl.site_expr(x))[:120])
    # RecvMessage -> SendMessage: confirmation message iff protocol found
    for v, fields, site in rel["RecvMessage"]["next"]:
        if fields.get("protocol", "").startswith("std::option::Option::None"):
            ctx.ob("listener", "ls answer carries no selection", "Message::Protocols{" in fields.get("message", ""), site.loc(), fields.get("message", "")[:80])
        else:
            ctx.ob("listener", "selection is the find_map result", "find_map(" in fields.get("protocol", ""), site.loc(), fields.get("protocol", "")[:100])
    lm = [k for k, v in l.names.items() if v == "message"]
    msgs = []
    for k in lm:
        for d0 in l.defs.get(k, []):
            if d0[0] == "stmt":
                site = mir.Site(l, d0[1], d0[2])
                r = render(l.site_expr(site))
                if r.startswith("multistream_select::protocol::Message::Protocol{") or r.startswith("multistream_select::protocol::Message::NotAvailable"):
                    msgs.append((site, r))
    ctx.floor("listener", "confirm / reject message constructions", msgs, 2)
    for site, r in msgs:
        if "Message::Protocol{" in r:
            ctx.guarded("listener", "confirmation only when a protocol was found", site, lambda c, rr, ll: ll == "true" and rr.startswith("std::option::Option::is_some("), "protocol.is_some()")
            ctx.ob("listener", "confirmation echoes the proposal", "clone(" in r and "@Protocol.0" in r or "clone(p)" in r, site.loc(), r[:120])
        else:
            ctx.guarded("listener", "rejection only when none was found", site, lambda c, rr, ll: ll == "false" and rr.startswith("std::option::Option::is_some("), "protocol.is_none()")
    # ---- Negotiated::poll
    n = ctx.body(MS, r"negotiated::Negotiated::poll$")
    rel = lib.fsm_extract(n, r"negotiated::State$")
    rec = rel.get("Expecting")
    ctx.ob("fsm", "negotiated: Expecting arm", rec is not None, msg=str(sorted(rel)))
    if rec:
        ctx.ob("fsm", "negotiated/Expecting: successor states", {v for v, _, _ in rec["next"]} == {"Expecting"}, msg=str([v for v, _, _ in rec["next"]]))
        ctx.ob("fsm", "negotiated/Expecting: state restored before Pending", not rec["pending_unrestored"], msg="pending restores: %s" % [v for v, _, _ in rec["pending"]])
        for v, fields, site in rec["pending"]:
            ok = v == "Expecting" and all(val == f or val.endswith("@Expecting." + f) for f, val in fields.items())
            ctx.ob("fsm", "negotiated/Expecting: Pending restores the same state", ok, site.loc(), str(fields)[:200])
        okst = rec.get("on", {}).get("Ready(Ok)", [])
        ctx.ob("fsm", "negotiated/Expecting: Ok only after switching to Completed", [v for v, _, _ in okst] == ["Completed"], msg=str([v for v, _, _ in okst]))
        for v, fields, site in okst:
            if site is not None:
                ctx.guarded("negotiated", "completed only on confirmation of the expected protocol", site,
                            lambda c, r, ll: ll == "true" and "::eq(" in r and "@Expecting.protocol" in r, "p.as_ref() == protocol.as_ref()")
        for v, fields, site in rec["next"]:
            ctx.ob("negotiated", "header consumed once", fields.get("header", "").startswith("std::option::Option::None") and fields.get("protocol", "").endswith("@Expecting.protocol"), site.loc(), str(fields)[:160])
    others = [a for a in rel if a != "Expecting"]
    for a in others:
        ctx.ob("fsm", "negotiated/%s: no progress from other states" % a, rel[a]["exits"] <= {"panic"}, msg=str(sorted(rel[a]["exits"])))
