"""C09 smart-dial ranking is a complete, well-ordered permutation — path counting (K2), order (K3), abstract evaluation (K7)."""
import re

from .. import absint, ipatoms, lib, mir
from .. import lib_sw as S
from ..lib_mux import cval as mux_cval
from ..mir import render
from .c22 import classify

EXPLANATION = ("rank_dials: every input dial is pushed to exactly one of the four group vectors, the classification table "
               "(relay / !global => private / has IP => public / other) is evaluated exhaustively, each group is consumed exactly once and "
               "result.extend happens in the order private, public, relay, other; group_delays: every drained dial enters `reordered` "
               "exactly once and every reordered dial enters the result exactly once, sorted by score; score's transport rank table "
               "(QuicV1<Quic<WebTransport<Tcp<WebRTCDirect<other) and is_global_addr's decision table (IP4 -> is_global_ipv4, IP6 -> "
               "is_global_ipv6, Ip6zone -> false, localhost names -> false, other DNS names -> true) are evaluated over all cells.")
ASSUMPTIONS = ["numeric delay values beyond the group order are not decided", 
               "addresses with neither IP nor DNS component are don't-care in the is_global_addr table"]
SW = "libp2p_swarm"
DR = r"connection::pool::dial_ranker::"
PROTO = r"^discr\("


def any_variants(prog, body, cond_expr):
    cl = lib.closure_of(prog, body, cond_expr)
    return lib.matches_variants(cl) if cl is not None else None


def _elem_of(e, nxt_bb):
    """e is `<next() issued at nxt_bb>@Some.0` (the element of that loop)"""
    return e[0] == "field" and e[2] == "0" and e[1][0] == "downcast" and e[1][2] == "Some" and e[1][1][0] == "call" and e[1][1][3] == nxt_bb


def _loop_over(body, nxt_site):
    """expressions the iterator advanced at nxt_site is initialised from"""
    e = body.site_expr(nxt_site)
    out = [e]
    for l in S.locals_in(e):
        out += [x for _, x in S.defs_exprs(body, l)]
    return out


def _iterates_local(body, nxt_site, l):
    """the loop at nxt_site consumes the local vector l (`for x in l` / `l.into_iter()` / `l.drain(..)`)"""
    for x in _loop_over(body, nxt_site):
        for c in mir.calls_in(x, r"IntoIterator>::into_iter$|IntoIterator::into_iter$|Vec::drain$"):
            if c[2] and c[2][0][0] == "local" and c[2][0][1] == l:
                return True
    return False


def _reads_of(body, e, l):
    """calls inside e (following local definitions) that read elements of the vector local l through a slice/iterator view"""
    out = []
    for c in S.deep_walk(body, e):
        if c[0] != "call" or not c[2]:
            continue
        a = c[2][0]
        while a[0] == "call" and re.search(r"Deref>::deref$|Vec::as_slice$|slice::<impl \[T\]>::iter$|core::slice::iter$|Vec::iter$|Iterator::(map|copied|cloned|rev)$|Iterator>::(map|copied|cloned|rev)$", mir.strip_generics(a[1])) and a[2]:
            a = a[2][0]
        if a[0] == "local" and a[1] == l and a is not c[2][0]:
            out.append(c)
    return out


def check(ctx):
    prog = ctx.prog
    r = S.nbody(ctx, DR + r"rank_dials$")
    nxts = [s for s in r.call_sites(r"vec::IntoIter as std::iter::Iterator>::next$") if any("into_iter(p1)" in render(x) for x in _loop_over(r, s))]
    ctx.floor("partition", "dials iterator", nxts, 1, exact=True)
    if not nxts:
        return
    nxt = nxts[0]
    some = S.some_targets(r, nxt)
    region = S.loop_region(r, nxt.bb, some)
    # ---- partition: inside the classification loop every dial is pushed to exactly one of four local vectors
    allp = [s for s in r.call_sites(r"Vec::push$") if s.bb in region]
    groups = {}
    for s in allp:
        t = r.site_expr(s)[2][0]
        groups.setdefault(t[1] if t[0] == "local" else render(t), []).append(s)
    ctx.ob("partition", "four group vectors", len(groups) == 4 and all(isinstance(k, int) for k in groups), msg="push targets inside the classification loop: %s" % sorted(map(str, groups)))
    got = lib.count_range(r, some, [nxt.bb], lib.bbs(allp))
    ctx.ob("partition", "each dial pushed to exactly one group", got == (1, 1), nxt.loc(), "group pushes per input dial: %s" % (got,))
    for s in allp:
        v = r.site_expr(s)[2][1]
        ctx.ob("partition", "pushed value is the loop element", _elem_of(v, nxt.bb), s.loc(), render(v)[:100])
    # ---- classification table; it also tells which local is which group
    closures = {}
    for bi in sorted(region):
        info = r.switch_info(bi)
        if not info:
            continue
        vs = S.proto_pred(prog, r, info[0])
        if vs is not None:
            closures[render(info[0])] = vs
    circ = [t for t, v in closures.items() if v == {"P2pCircuit"}]
    hasip = [t for t, v in closures.items() if v == {"Ip4", "Ip6"}]
    ctx.ob("classify", "floor:any-closures", len(circ) == 1 and len(hasip) == 1, nontrivial=False, msg="closures: %s" % {k[-40:]: v for k, v in closures.items()})
    role = {}
    if circ and hasip:
        am = [("^" + re.escape(circ[0]) + "$", "relay"), ("^" + re.escape(hasip[0]) + "$", "has_ip"),
              (r"^libp2p_swarm::connection::pool::dial_ranker::is_global_addr\(.*@Some\.0\.\w+\)$", "global")]
        by_bb = {}
        for s in allp:
            by_bb.setdefault(s.bb, []).append(s)
        want = lambda a: "relay" if a["relay"] == "true" else ("private" if a["global"] == "false" else ("public" if a["has_ip"] == "true" else "other"))
        seen_groups = {}
        bad, unknown = [], set()
        import itertools
        for combo in itertools.product(["true", "false"], repeat=3):
            a = dict(zip(["relay", "global", "has_ip"], combo))
            res, unk, bare = lib.cell_eval(r, a, am, set(by_bb), some[0] if some else 0)
            unknown |= unk
            tg = {(lambda t: t[1] if t[0] == "local" else render(t))(r.site_expr(s)[2][0]) for b in res for s in by_bb[b]}
            if len(tg) != 1 or bare:
                bad.append("%s -> %s" % (a, sorted(map(str, tg))))
                continue
            seen_groups.setdefault(want(a), set()).add(next(iter(tg)))
        ok = not bad and all(len(v) == 1 for v in seen_groups.values()) and len(seen_groups) == 4 and \
            len({next(iter(v)) for v in seen_groups.values()}) == 4
        ctx.ob("classify", "group/no-unmodelled-guards", not unknown, "%s:%d" % (r.file, r.line), "conditions outside the table's atoms: %s" % sorted(unknown)[:4])
        ctx.ob("classify", "group/table", ok, "%s:%d" % (r.file, r.line),
               "abstract evaluation over 8 cells of [relay, global, has_ip]: relay -> one vector, !global -> a second, has IP -> a third, rest -> a fourth; "
               "got %s %s" % ({k: sorted(map(str, v)) for k, v in seen_groups.items()}, bad[:3]))
        if ok:
            role = {k: next(iter(v)) for k, v in seen_groups.items()}
    # ---- result vector and the consumption site of every group
    rets = S.ret_sites(r)
    rv = r.site_expr(rets[0]) if len(rets) == 1 else None
    ctx.ob("order", "returns result", rv is not None and rv[0] == "local", msg=str([render(r.site_expr(s)) for s in rets]))
    R = rv[1] if rv is not None and rv[0] == "local" else None
    after = r.reachable(S.none_targets(r, nxt))
    cons = {}           # role -> list of (marker bb, site, kind)
    for g, l in role.items():
        hits = []
        for s in r.call_sites(r"Extend>::extend$"):
            if s.bb not in after:
                continue
            e = r.site_expr(s)
            if any(x[0] == "local" and x[1] == l for x in mir.walk(e[2][1])):
                hits.append((s.bb, s, "extend", e[2][0]))
        for s in r.call_sites(r"Iterator>::next$|Iterator::next$"):
            if s.bb not in after or s.bb == nxt.bb or not _iterates_local(r, s, l):
                continue
            reg = S.loop_region(r, s.bb, S.some_targets(r, s))
            ps = [p for p in r.call_sites(r"Vec::push$") if p.bb in reg]
            init = [c for c in r.call_sites(r"IntoIterator>::into_iter$|IntoIterator::into_iter$") if c.bb in after and
                    r.site_expr(c)[2] and r.site_expr(c)[2][0][0] == "local" and r.site_expr(c)[2][0][1] == l]
            if ps and init:
                got = lib.count_range(r, S.some_targets(r, s), [s.bb], lib.bbs(ps))
                ctx.ob("order", "each dial of the %s group enters the result exactly once" % g, got == (1, 1) and all(_elem_of(r.site_expr(p)[2][1][4][-1][1], s.bb) if r.site_expr(p)[2][1][0] == "agg" else False for p in ps),
                       s.loc(), "pushes per element: %s" % (got,))
                hits.append((init[0].bb, ps[0], "loop", r.site_expr(ps[0])[2][0]))
        cons[g] = hits
    names = sorted(g for g, h in cons.items() for _ in h)
    ctx.ob("order", "result.extend consumes private, public, relay, other once each", names == ["other", "private", "public", "relay"], msg="consumption sites per group: %s" % {g: [(k, s.loc().split(':')[-1]) for _, s, k, _ in h] for g, h in cons.items()})
    want = ["private", "public", "relay", "other"]
    pos = {g: h[0] for g, h in cons.items() if len(h) == 1}
    ok = all(n in pos for n in want)
    rblocks = r.return_blocks()
    if ok:
        for g in want:
            got = lib.count_range(r, S.none_targets(r, nxt), rblocks, [pos[g][0]])
            ctx.ob("order", "%s group appended exactly once on every path" % g, got == (1, 1), pos[g][1].loc(), "occurrences between the classification loop and return: %s" % (got,))
        for a, b in zip(want, want[1:]):
            ra = r.reachable(r.succ[pos[a][0]])
            ok = ok and pos[b][0] in ra and pos[a][0] not in r.reachable(r.succ[pos[b][0]])
            lib.precedes(ctx, "order", "%s before %s" % (a, b), r, [pos[a][0]], [pos[b][0]], "the %s group is appended before the %s group" % (a, b), pos[b][1].loc())
    ctx.ob("order", "group order private<public<relay<other", ok, msg="consumption order in control flow: %s" % [g for g in want if g in pos])
    for g, h in cons.items():
        for _, s, k, tgt in h:
            ctx.ob("order", "extends the result vector", R is not None and tgt[0] == "local" and tgt[1] == R, s.loc(), "%s group appended to %s" % (g, render(tgt)))
    # the delay anchor of the last group must be the MAXIMUM delay handed out so far (not merely the last entry: inside a group
    # non-QUIC/TCP transports are scheduled after the group's QUIC and TCP addresses although they are not last, and the relay
    # group starts over at its offset), read after every earlier group has been appended
    if ok and R is not None:
        _, s_other, kind, _ = pos["other"]
        src = r.site_expr(s_other)
        reads = _reads_of(r, src, R)
        is_max = lambda c: re.search(r"Iterator::(max|max_by|max_by_key)$|Iterator>::(max|max_by|max_by_key)$", mir.strip_generics(c[1])) is not None
        is_pos = lambda c: re.search(r"slice::<impl \[T\]>::(last|first)$|core::slice::(last|first)$|slice::(last|first)$|Iterator::last$|Iterator>::last$", mir.strip_generics(c[1])) is not None
        ctx.ob("order", "last group's delays derive from the anchor", any(is_max(c) or is_pos(c) for c in reads), s_other.loc(), render(src)[:220])
        for c in reads:
            if not (is_max(c) or is_pos(c)):
                continue
            ctx.ob("order", "the delay anchor is the maximum delay of the result so far", is_max(c), s_other.loc(),
                   "the no-IP group's delay is derived from %s%s" % (render(c)[:140], "" if is_max(c) else
                   " — a positional read: the last/first entry is not the latest-scheduled one (e.g. a WebRTC address of the public group, or any public address after a relay address)"))
            for gname in ("private", "public", "relay"):
                lib.precedes(ctx, "order", "delay anchor read after %s group appended" % gname, r, [pos[gname][0]], [c[3]],
                             "the %s group is appended before the anchor is read" % gname, s_other.loc())
    # ---- group_delays
    g = S.nbody(ctx, DR + r"group_delays$")
    i_dials = S.param_of_type(g, r"^std::vec::Vec<connection::pool::concurrent_dial::PendingDial>")
    sk = g.call_sites(r"sort_by_key$")
    # the sort key function is identified by role: the crate-local fn handed to sort_by_key on the dials parameter
    keyfn = None
    if len(sk) == 1:
        m_ = re.search(r"fn:(libp2p_swarm::connection::pool::dial_ranker::\w+)", render(g.site_expr(sk[0])))
        keyfn = m_.group(1) if m_ else None
    ok = len(sk) == 1 and keyfn is not None and "(p%d)" % i_dials in render(g.site_expr(sk[0]))
    ctx.ob("group", "sorted by score", ok, sk[0].loc() if sk else "", "dials.sort_by_key(<crate-local key fn %s>)" % keyfn)
    dn = [s for s in g.call_sites(r"Iterator>::next$|Iterator::next$") if _iterates_local(g, s, i_dials) or any("(p%d" % i_dials in render(x) for x in _loop_over(g, s))]
    ctx.floor("group", "drain loop", dn, 1)
    X = None
    if dn:
        some1 = S.some_targets(g, dn[0])
        reg1 = S.loop_region(g, dn[0].bb, some1)
        rp = [s for s in g.call_sites(r"Vec::(push|insert)$") if s.bb in reg1]
        ctx.floor("group", "reordered.push/insert", rp, 5)
        tg = {(lambda t: t[1] if t[0] == "local" else render(t))(g.site_expr(s)[2][0]) for s in rp}
        ctx.ob("group", "the reorder pass fills one vector", len(tg) == 1 and all(isinstance(t, int) for t in tg), dn[0].loc(), "targets: %s" % sorted(map(str, tg)))
        X = next(iter(tg)) if len(tg) == 1 else None
        for s in rp:
            v = g.site_expr(s)[2][-1]
            ctx.ob("group", "reordered value is the drained dial", _elem_of(v, dn[0].bb), s.loc(), render(v)[:100])
        got = lib.count_range(g, some1, [dn[0].bb], lib.bbs(rp))
        ctx.ob("group", "each drained dial enters `reordered` exactly once", got == (1, 1), dn[0].loc(), "pushes/inserts per drained dial: %s" % (got,))
        lib.precedes(ctx, "group", "sort precedes reorder", g, lib.bbs(sk), [dn[0].bb], "sort_by_key before the drain loop")
    rn = [s for s in g.call_sites(r"Iterator>::next$|Iterator::next$") if isinstance(X, int) and _iterates_local(g, s, X)]
    ctx.floor("group", "delay loop", rn, 1)
    grets = S.ret_exprs(g)
    R2 = [e[1] for e in grets if e[0] == "local"]
    if rn and R2:
        some2 = S.some_targets(g, rn[0])
        reg2 = S.loop_region(g, rn[0].bb, some2)
        resp = [s for s in g.call_sites(r"Vec::push$") if s.bb in reg2 and g.site_expr(s)[2][0][0] == "local" and g.site_expr(s)[2][0][1] in R2]
        got = lib.count_range(g, some2, [rn[0].bb], lib.bbs(resp))
        ctx.ob("group", "each reordered dial enters the result exactly once", got == (1, 1), rn[0].loc(), "result.push per reordered dial: %s" % (got,))
        ctx.ob("group", "delay loop iterates `reordered`", True, rn[0].loc(), "the delay loop consumes the vector filled by the reorder pass")
        for s in resp:
            v = g.site_expr(s)[2][1]
            ok = v[0] == "agg" and len(v[4]) == 2 and _elem_of(v[4][1][1], rn[0].bb)
            ctx.ob("group", "the result pairs each reordered dial with its delay", ok, s.loc(), render(v)[:160])
        # within a group TCP starts after the QUIC probes: the delay assigned on the TCP branch has an additive part that is
        # written on the QUIC branch (the "TCP start" offset derived from the last QUIC delay)
        preds = {}
        for bi in sorted(reg2):
            info = g.switch_info(bi)
            if info:
                vs = S.proto_pred(prog, g, info[0])
                if vs is not None:
                    preds[bi] = (frozenset(vs), info[1])

        def true_edges(vs):
            return {(bi, t) for bi, (v, labs) in preds.items() if v == frozenset(vs) for t, ls in labs.items() if ls == {"true"}}
        qe, te = true_edges({"Quic", "QuicV1"}), true_edges({"Tcp"})
        ctx.ob("group", "floor:QUIC / TCP branches of the delay loop", len(qe) == 1 and len(te) == 1, nontrivial=False, msg="quic %s tcp %s" % (sorted(qe), sorted(te)))
        if len(qe) == 1 and len(te) == 1 and some2 and resp:
            qreg = S.guarded_region(g, reg2, qe, some2[0])
            treg = S.guarded_region(g, reg2, te, some2[0])
            v = g.site_expr(resp[0])[2][1]
            delay = v[4][0][1] if v[0] == "agg" else v
            tcp_leaves = []
            for lf in S.add_leaves(delay):
                if lf[0] != "local":
                    continue
                for site, x in S.defs_exprs(g, lf[1]):
                    if site.bb in treg:
                        tcp_leaves += S.add_leaves(x)
            quic_written = [lf for lf in tcp_leaves if lf[0] == "local" and any(site.bb in qreg for site, _ in S.defs_exprs(g, lf[1]))]
            ctx.ob("group", "floor:delay assigned on the TCP branch", bool(tcp_leaves), nontrivial=False, msg=str([render(x) for x in tcp_leaves])[:200])
            ctx.ob("group", "TCP delays start after the last QUIC delay", bool(quic_written), resp[0].loc(),
                   "additive parts of the delay on the TCP branch: %s; parts that are (re)written on the QUIC branch: %d" % ([render(x) for x in tcp_leaves], len(quic_written)))
            for lf in quic_written[:1]:
                okq = False
                for site, x in S.defs_exprs(g, lf[1]):
                    if site.bb in qreg:
                        parts = S.add_leaves(x)
                        okq = okq or (len(parts) >= 2 and any(p_[0] == "local" and any(s2.bb in qreg for s2, _ in S.defs_exprs(g, p_[1])) for p_ in parts))
                ctx.ob("group", "the TCP start offset is derived from the QUIC delay just assigned", okq, resp[0].loc(), "tcp_start = <this QUIC dial's delay> + tcp_delay")
    # ---- score transport rank
    sc = S.nbody(ctx, "^" + re.escape(keyfn) + "$") if keyfn else S.nbody(ctx, DR + r"score$")
    # the rank is the first component of the returned sort key
    srv = S.ret_exprs(sc)
    if len(srv) != 1 or srv[0][0] != "agg" or not srv[0][4] or srv[0][4][0][1][0] != "local":
        raise mir.RuleError("score: the sort key is not a tuple whose first component is a local rank")
    l = srv[0][4][0][1][1]
    sites = [mir.Site(sc, x[1], x[2]) for x in sc.defs[l]]
    am = []
    dom = {}
    for bi in sorted(sc.live):
        info = sc.switch_info(bi)
        if not info:
            continue
        txt = render(info[0])
        if txt.startswith("std::iter::Iterator::any("):
            vs = any_variants(prog, sc, info[0])
            if vs and len(vs) == 1:
                v = list(vs)[0]
                if v in ("QuicV1", "Quic", "WebTransport", "Tcp", "WebRTCDirect"):
                    am.append(("^" + re.escape(txt) + "$", v))
                    dom[v] = ["true", "false"]
    ctx.ob("score", "floor:transport tests", len(dom) == 5, nontrivial=False, msg="transport tests found: %s" % sorted(dom))
    if len(dom) == 5:
        order = ["QuicV1", "Quic", "WebTransport", "Tcp", "WebRTCDirect"]
        by_bb = {}
        for s_ in sites:
            by_bb.setdefault(s_.bb, []).append(s_)
        # learn the rank constant of every class from its pure cell (compared by evaluated value, not by literal)
        consts = []
        for i in range(6):
            a = {v: ("true" if j == i else "false") for j, v in enumerate(order)}
            res, _, _ = lib.cell_eval(sc, a, am, set(by_bb), 0)
            vals = {mux_cval(sc.site_expr(x)) for b in res for x in by_bb[b]}
            consts.append(next(iter(vals)) if len(vals) == 1 else None)
        mono = all(c is not None for c in consts) and all(consts[i] < consts[i + 1] for i in range(5))
        ctx.ob("score", "transport ranks strictly increase QuicV1<Quic<WebTransport<Tcp<WebRTCDirect<other", mono, "%s:%d" % (sc.file, sc.line), "rank constants: %s" % consts)

        def ref(a):
            for i, v in enumerate(order):
                if a[v] == "true":
                    return str(consts[i])
            return str(consts[5])
        lib.check_cells(ctx, "score", "transport_rank", sc, sites, lambda s: str(mux_cval(sc.site_expr(s))), am, dom, ref, "%s:%d" % (sc.file, sc.line),
                        allow_unknown=[r"Iterator::(any|find)\("])
    ctx.ob("score", "rank is the primary sort key", len(srv) == 1, msg=str([render(e)[:80] for e in srv]))
    # ---- is_global_addr
    ga = S.nbody(ctx, DR + r"is_global_addr$")
    finds = {}
    for bi in sorted(ga.live):
        info = ga.switch_info(bi)
        if not info:
            continue
        txt = render(info[0])
        m = re.match(r"^(discr\()?std::iter::Iterator::(find|any|find_map)\(libp2p_core::Multiaddr::iter\(p1\), closure:.*\{closure#(\d+)\}\[\]\)\)?$", txt)
        if m:
            cl = lib.closure_of(prog, ga, info[0])
            finds[txt] = (m.group(2), lib.matches_variants(cl) if m.group(2) != "find_map" else "dns", m.group(3))
    am = []
    for txt, (kind, vs, idx) in finds.items():
        if kind == "find" and vs == {"Ip4"}:
            am.append(("^" + re.escape(txt) + "$", "ip4"))
            am.append(("^" + re.escape(txt[:-1]) + r"@Some\.0\)$", "ip4v"))
        elif kind == "find" and vs == {"Ip6"}:
            am.append(("^" + re.escape(txt) + "$", "ip6"))
            am.append(("^" + re.escape(txt[:-1]) + r"@Some\.0\)$", "ip6v"))
        elif kind == "any" and vs == {"Ip6zone"}:
            am.append(("^" + re.escape(txt) + "$", "zone"))
        elif kind == "find_map":
            am.append(("^" + re.escape(txt) + "$", "dns"))
    am.append((r"^std::string::eq\(.*find_map.*@Some\.0, 'localhost'\)$", "is_localhost"))
    names_found = {n for _, n in am}
    ctx.ob("is_global_addr", "floor:atoms", {"ip4", "ip6", "zone", "dns", "is_localhost"} <= names_found, nontrivial=False, msg="atoms: %s" % sorted(names_found))
    # find_map closure extracts exactly Dns|Dns4|Dns6
    for txt, (kind, vs, idx) in finds.items():
        if kind == "find_map":
            cl = lib.closure_of(prog, ga, ga.switch_info([b for b in ga.live if ga.switch_info(b) and render(ga.switch_info(b)[0]) == txt][0])[0])
            somes = cl.agg_sites(r"^std::option::Option$", "Some")
            labs = set()
            for s in somes:
                for t, ls, _, c in cl.guards_on_all_paths(s.bb):
                    if t.startswith("discr("):
                        labs |= set(ls)
            ctx.ob("is_global_addr", "dns name taken from Dns|Dns4|Dns6", labs == {"Dns", "Dns4", "Dns6"}, "%s:%d" % (cl.file, cl.line), "variants yielding a name: %s" % sorted(labs))
    res = [mir.Site(ga, x[1], x[2]) for x in ga.defs[0]]

    am.append((r"^core::str::ends_with\(.*find_map.*@Some\.0\), '\.localhost'\)$", "ends_localhost"))

    def val(s, asg, env):
        e = ga.site_expr(s)
        t = render(e)
        if "is_global_ipv4(" in t:
            return "ipv4-table"
        if "is_global_ipv6(" in t:
            return "ipv6-table"
        v = lib.eval_bool(ga, e, asg, env, am)
        return v if v is not None else "?" + t[:60]
    dom = {"ip4": ["Some", "None"], "ip4v": ["Ip4"], "ip6": ["Some", "None"], "ip6v": ["Ip6"], "zone": ["true", "false"], "dns": ["Some", "None"],
           "is_localhost": ["true", "false"], "ends_localhost": ["true", "false"]}

    def ref(a):
        if a["ip4"] == "Some":
            return "ipv4-table"
        if a["ip6"] == "Some":
            return "ipv6-table"
        if a["zone"] == "true":
            return "false"
        if a["dns"] == "Some":
            local = a["is_localhost"] == "true" or a["ends_localhost"] == "true"
            return "false" if local else "true"
        return None
    lib.check_cells2(ctx, "is_global_addr", "table", ga, res, val, am, dom, ref, "%s:%d" % (ga.file, ga.line))

    # ---- IP tables behind is_global_addr: same IANA rule as C22, on the ranker's own copies
    classify(ctx, "ranker ipv4", SW, DR + r"is_global_ipv4$", 8, 4, r"net::Ipv4Addr::octets$", ipatoms.v4_atoms(), "iana_special_v4.json")
    classify(ctx, "ranker ipv6", SW, DR + r"is_global_ipv6$", 16, 8, r"net::Ipv6Addr::segments$", ipatoms.v6_atoms(), "iana_special_v6.json")
