"""C09 smart-dial ranking is a complete, well-ordered permutation — path counting (K2), order (K3), abstract evaluation (K7)."""
import re

from .. import absint, ipatoms, lib, mir
from ..mir import render
from .c22 import classify

EXPLANATION = ("rank_dials: every input dial is pushed to exactly one of the four group vectors, the classification table "
               "(relay / !global => private / has IP => public / other) is evaluated exhaustively, each group is consumed exactly once and "
               "result.extend happens in the order private, public, relay, other; group_delays: every drained dial enters `reordered` "
               "exactly once and every reordered dial enters the result exactly once, sorted by score; score's transport rank table "
               "(QuicV1<Quic<WebTransport<Tcp<WebRTCDirect<other) and is_global_addr's decision table (IP4 -> is_global_ipv4, IP6 -> "
               "is_global_ipv6, Ip6zone -> false, localhost names -> false, other DNS names -> true) are evaluated over all cells.")
ASSUMPTIONS = ["numeric delay values beyond the group order are not decided", 
               "addresses with neither IP nor DNS component are don't-care in the is_global_addr table"]
SW = "libp2p_swarm"
DR = r"connection::pool::dial_ranker::"
PROTO = r"^discr\("


def any_variants(prog, body, cond_expr):
    cl = lib.closure_of(prog, body, cond_expr)
    return lib.matches_variants(cl) if cl is not None else None


def check(ctx):
    prog = ctx.prog
    r = ctx.body(SW, DR + r"rank_dials$")
    nxt = r.call_sites(r"vec::IntoIter as std::iter::Iterator>::next$")
    ctx.floor("partition", "dials iterator", nxt, 1)
    groups = {}
    for s in r.call_sites(r"Vec::push$"):
        e = r.site_expr(s)
        groups.setdefault(render(e[2][0]), []).append(s)
    ctx.ob("partition", "four group vectors", set(groups) == {"relay", "public", "private", "other"}, msg="push targets: %s" % sorted(groups))
    allp = [s for v in groups.values() for s in v]
    if nxt:
        some = [t for _, t in lib.switch_edges_on_site(r, nxt[0], {"Some"})]
        got = lib.count_range(r, some, [nxt[0].bb], lib.bbs(allp))
        ctx.ob("partition", "each dial pushed to exactly one group", got == (1, 1), nxt[0].loc(), "group pushes per input dial: %s" % (got,))
        for s in allp:
            e = render(r.site_expr(s)[2][1])
            ctx.ob("partition", "pushed value is the loop element", e.endswith("Iterator>::next(iter)@Some.0"), s.loc(), e[:100])
    # classification table
    atoms = []
    closures = {}
    for bi in sorted(r.live):
        info = r.switch_info(bi)
        if not info:
            continue
        txt = render(info[0])
        if txt.startswith("std::iter::Iterator::any(libp2p_core::Multiaddr::iter("):
            vs = any_variants(prog, r, info[0])
            closures[txt] = vs
    circ = [t for t, v in closures.items() if v == {"P2pCircuit"}]
    hasip = [t for t, v in closures.items() if v == {"Ip4", "Ip6"}]
    ctx.ob("classify", "floor:any-closures", len(circ) == 1 and len(hasip) == 1, nontrivial=False, msg="closures: %s" % {k[-40:]: v for k, v in closures.items()})
    if circ and hasip:
        am = [("^" + re.escape(circ[0]) + "$", "relay"), ("^" + re.escape(hasip[0]) + "$", "has_ip"),
              (r"^libp2p_swarm::connection::pool::dial_ranker::is_global_addr\(.*@Some\.0\.addr\)$", "global")]
        lib.check_cells(ctx, "classify", "group", r, allp, lambda s: render(r.site_expr(s)[2][0]), am,
                        {"relay": ["true", "false"], "global": ["true", "false"], "has_ip": ["true", "false"]},
                        lambda a: "relay" if a["relay"] == "true" else ("private" if a["global"] == "false" else ("public" if a["has_ip"] == "true" else "other")),
                        "%s:%d" % (r.file, r.line), start=some[0] if nxt and some else 0)
    # extend order + each group consumed once
    ext = r.call_sites(r"Extend>::extend$")
    order = []
    for s in ext:
        e = render(r.site_expr(s))
        m = re.search(r"group_delays\((\w+),", e)
        if m:
            order.append((s, m.group(1)))
        elif "IntoIterator>::into_iter(other)" in e:
            order.append((s, "other"))
        else:
            order.append((s, "?"))
    names = [n for _, n in order]
    ctx.ob("order", "result.extend consumes private, public, relay, other once each", sorted(names) == ["other", "private", "public", "relay"], msg=str(names))
    want = ["private", "public", "relay", "other"]
    pos = {n: s for s, n in order}
    ok = all(n in pos for n in want)
    if ok:
        for a, b in zip(want, want[1:]):
            ra = r.reachable(r.succ[pos[a].bb])
            ok = ok and pos[b].bb in ra and pos[a].bb not in r.reachable(r.succ[pos[b].bb])
            lib.precedes(ctx, "order", "%s before %s" % (a, b), r, [pos[a].bb], [pos[b].bb], "result.extend(%s) precedes result.extend(%s)" % (a, b), pos[b].loc())
    ctx.ob("order", "group order private<public<relay<other", ok, msg="extend order in control flow: %s" % names)
    for s in ext:
        ctx.ob("order", "extends the result vector", render(r.site_expr(s)[2][0]) == "result", s.loc(), render(r.site_expr(s)[2][0]))
    # the delay anchor of the last group (`result.last()`) must be read after every earlier group has been appended; the
    # last group's delay is derived from that anchor
    lasts = [s for s in r.call_sites(r"core::slice::<impl \[T\]>::last$|core::slice::last$|slice::<impl \[T\]>::last$")]
    if ok and lasts:
        for s in lasts:
            for gname in ("private", "public", "relay"):
                lib.precedes(ctx, "order", "delay anchor read after %s group appended" % gname, r, [pos[gname].bb], [s.bb],
                             "result.extend(%s) precedes result.last()" % gname, s.loc())
        e = render(r.site_expr(pos["other"]))
        ctx.ob("order", "last group's delays derive from the anchor", "slice::last(" in e, pos["other"].loc(), e[:220])
    else:
        ctx.note("rank_dials: no result.last() anchor found; anchor-order rule not applicable")
    rets = [mir.Site(r, x[1], x[2]) for x in r.defs[0]]
    ctx.ob("order", "returns result", len(rets) == 1 and render(r.site_expr(rets[0])) == "result", msg=str([render(r.site_expr(s)) for s in rets]))
    # ---- group_delays
    g = ctx.body(SW, DR + r"group_delays$")
    sk = g.call_sites(r"sort_by_key$")
    ok = len(sk) == 1 and "fn:libp2p_swarm::connection::pool::dial_ranker::score" in render(g.site_expr(sk[0]))
    ctx.ob("group", "sorted by score", ok, sk[0].loc() if sk else "", "dials.sort_by_key(score)")
    dn = g.call_sites(r"vec::Drain as std::iter::Iterator>::next$")
    ctx.floor("group", "drain loop", dn, 1)
    rp = [s for s in g.call_sites(r"Vec::(push|insert)$") if render(g.site_expr(s)[2][0]) == "reordered"]
    ctx.floor("group", "reordered.push/insert", rp, 5)
    if dn:
        some = [t for _, t in lib.switch_edges_on_site(g, dn[0], {"Some"})]
        got = lib.count_range(g, some, [dn[0].bb], lib.bbs(rp))
        ctx.ob("group", "each drained dial enters `reordered` exactly once", got == (1, 1), dn[0].loc(), "pushes/inserts per drained dial: %s" % (got,))
        lib.precedes(ctx, "group", "sort precedes reorder", g, lib.bbs(sk), [dn[0].bb], "sort_by_key before the drain loop")
    rn = [s for s in g.call_sites(r"vec::IntoIter as std::iter::Iterator>::next$")]
    ctx.floor("group", "delay loop", rn, 1)
    resp = [s for s in g.call_sites(r"Vec::push$") if render(g.site_expr(s)[2][0]) == "result"]
    if rn:
        some = [t for _, t in lib.switch_edges_on_site(g, rn[0], {"Some"})]
        got = lib.count_range(g, some, [rn[0].bb], lib.bbs(resp))
        ctx.ob("group", "each reordered dial enters the result exactly once", got == (1, 1), rn[0].loc(), "result.push per reordered dial: %s" % (got,))
        its = []
        for l in [k for k, v in g.names.items() if v == "iter"]:
            its += [render(g.rvalue_expr(d[3]) if d[0] == "stmt" else g.call_expr(d[3], d[1])) for d in g.defs[l]]
        ctx.ob("group", "delay loop iterates `reordered`", any("into_iter(reordered)" in x for x in its), rn[0].loc(), str(its)[:200])
    # ---- score transport rank
    sc = ctx.body(SW, DR + r"score$")
    l = lib.local_by_name(sc, "transport_rank")
    sites = [mir.Site(sc, x[1], x[2]) for x in sc.defs[l]]
    am = []
    dom = {}
    for bi in sorted(sc.live):
        info = sc.switch_info(bi)
        if not info:
            continue
        txt = render(info[0])
        if txt.startswith("std::iter::Iterator::any("):
            vs = any_variants(prog, sc, info[0])
            if vs and len(vs) == 1:
                v = list(vs)[0]
                if v in ("QuicV1", "Quic", "WebTransport", "Tcp", "WebRTCDirect"):
                    am.append(("^" + re.escape(txt) + "$", v))
                    dom[v] = ["true", "false"]
    ctx.ob("score", "floor:transport tests", len(dom) == 5, nontrivial=False, msg="transport tests found: %s" % sorted(dom))
    if len(dom) == 5:
        def ref(a):
            for i, v in enumerate(["QuicV1", "Quic", "WebTransport", "Tcp", "WebRTCDirect"]):
                if a[v] == "true":
                    return str(i)
            return "5"
        lib.check_cells(ctx, "score", "transport_rank", sc, sites, lambda s: render(sc.site_expr(s)), am, dom, ref, "%s:%d" % (sc.file, sc.line),
                        allow_unknown=[r"Iterator::(any|find)\("])
    rv = [mir.Site(sc, x[1], x[2]) for x in sc.defs[0]]
    ok = len(rv) == 1 and render(sc.site_expr(rv[0])).startswith("tuple{0: transport_rank, 1: ")
    ctx.ob("score", "rank is the primary sort key", ok, msg=str([render(sc.site_expr(s))[:80] for s in rv]))
    # ---- is_global_addr
    ga = ctx.body(SW, DR + r"is_global_addr$")
    finds = {}
    for bi in sorted(ga.live):
        info = ga.switch_info(bi)
        if not info:
            continue
        txt = render(info[0])
        m = re.match(r"^(discr\()?std::iter::Iterator::(find|any|find_map)\(libp2p_core::Multiaddr::iter\(a\), closure:.*\{closure#(\d)\}\[\]\)\)?$", txt)
        if m:
            cl = lib.closure_of(prog, ga, info[0])
            finds[txt] = (m.group(2), lib.matches_variants(cl) if m.group(2) != "find_map" else "dns", m.group(3))
    am = []
    for txt, (kind, vs, idx) in finds.items():
        if kind == "find" and vs == {"Ip4"}:
            am.append(("^" + re.escape(txt) + "$", "ip4"))
            am.append(("^" + re.escape(txt[:-1]) + r"@Some\.0\)$", "ip4v"))
        elif kind == "find" and vs == {"Ip6"}:
            am.append(("^" + re.escape(txt) + "$", "ip6"))
            am.append(("^" + re.escape(txt[:-1]) + r"@Some\.0\)$", "ip6v"))
        elif kind == "any" and vs == {"Ip6zone"}:
            am.append(("^" + re.escape(txt) + "$", "zone"))
        elif kind == "find_map":
            am.append(("^" + re.escape(txt) + "$", "dns"))
    am.append((r"^std::string::eq\(.*find_map.*@Some\.0, 'localhost'\)$", "is_localhost"))
    names_found = {n for _, n in am}
    ctx.ob("is_global_addr", "floor:atoms", {"ip4", "ip6", "zone", "dns", "is_localhost"} <= names_found, nontrivial=False, msg="atoms: %s" % sorted(names_found))
    # find_map closure extracts exactly Dns|Dns4|Dns6
    for txt, (kind, vs, idx) in finds.items():
        if kind == "find_map":
            cl = lib.closure_of(prog, ga, ga.switch_info([b for b in ga.live if ga.switch_info(b) and render(ga.switch_info(b)[0]) == txt][0])[0])
            somes = cl.agg_sites(r"^std::option::Option$", "Some")
            labs = set()
            for s in somes:
                for t, ls, _, c in cl.guards_on_all_paths(s.bb):
                    if t.startswith("discr("):
                        labs |= set(ls)
            ctx.ob("is_global_addr", "dns name taken from Dns|Dns4|Dns6", labs == {"Dns", "Dns4", "Dns6"}, "%s:%d" % (cl.file, cl.line), "variants yielding a name: %s" % sorted(labs))
    res = [mir.Site(ga, x[1], x[2]) for x in ga.defs[0]]

    am.append((r"^core::str::ends_with\(.*find_map.*@Some\.0\), '\.localhost'\)$", "ends_localhost"))

    def val(s, asg, env):
        e = ga.site_expr(s)
        t = render(e)
        if "is_global_ipv4(" in t:
            return "ipv4-table"
        if "is_global_ipv6(" in t:
            return "ipv6-table"
        v = lib.eval_bool(ga, e, asg, env, am)
        return v if v is not None else "?" + t[:60]
    dom = {"ip4": ["Some", "None"], "ip4v": ["Ip4"], "ip6": ["Some", "None"], "ip6v": ["Ip6"], "zone": ["true", "false"], "dns": ["Some", "None"],
           "is_localhost": ["true", "false"], "ends_localhost": ["true", "false"]}

    def ref(a):
        if a["ip4"] == "Some":
            return "ipv4-table"
        if a["ip6"] == "Some":
            return "ipv6-table"
        if a["zone"] == "true":
            return "false"
        if a["dns"] == "Some":
            local = a["is_localhost"] == "true" or a["ends_localhost"] == "true"
            return "false" if local else "true"
        return None
    lib.check_cells2(ctx, "is_global_addr", "table", ga, res, val, am, dom, ref, "%s:%d" % (ga.file, ga.line))

    # ---- IP tables behind is_global_addr: same IANA rule as C22, on the ranker's own copies
    classify(ctx, "ranker ipv4", SW, DR + r"is_global_ipv4$", 8, 4, r"net::Ipv4Addr::octets$", ipatoms.v4_atoms(), "iana_special_v4.json")
    classify(ctx, "ranker ipv6", SW, DR + r"is_global_ipv6$", 16, 8, r"net::Ipv6Addr::segments$", ipatoms.v6_atoms(), "iana_special_v6.json")
