"""C02 counters and peer views agree with the event history — pairing / ownership rules (K2, K3, K4, K7)."""
import re

from .. import lib, mir
from ..mir import render

EXPLANATION = ("Who-may-write analysis of the four ConnectionCounters fields, decision tables of the inc/dec helpers "
               "(variant -> field, +1/-1), and path pairing in Pool::{add_outgoing,add_incoming,spawn_connection,poll}: "
               "each pending/established map insert is paired with exactly one inc on every path, each successful remove "
               "with exactly one dec before any return; outer established entry removed iff inner map became empty; "
               "num_established/other_established computed from the pre-insert view.")
ASSUMPTIONS = ["equality with an external event history follows from the pairing only under C01's exactly-once clauses",
               "u32 counters do not overflow"]
SW = "libp2p_swarm"
CC = r"connection::pool::ConnectionCounters"
FIELDS = ["pending_incoming", "pending_outgoing", "established_incoming", "established_outgoing"]
HELPERS = {
    "inc_pending": {"Dialer": ("pending_outgoing", "Add"), "Listener": ("pending_incoming", "Add")},
    "inc_pending_incoming": {None: ("pending_incoming", "Add")},
    "dec_pending": {"Dialer": ("pending_outgoing", "Sub"), "Listener": ("pending_incoming", "Sub")},
    "inc_established": {"Dialer": ("established_outgoing", "Add"), "Listener": ("established_incoming", "Add")},
    "dec_established": {"Dialer": ("established_outgoing", "Sub"), "Listener": ("established_incoming", "Sub")},
}


def helper_table(body):
    """{label or None: (field, op)} extracted from the MIR of one helper; every write must be +/-1."""
    table = {}
    for f in FIELDS:
        for s in body.field_write_sites(f, CC):
            e = body.site_expr(s)
            # (Add|Sub)WithOverflow(self.f, 1).0
            r = render(e)
            m = re.match(r"^(Add|Sub)WithOverflow\(self\.%s, 1\)\.0$" % f, r)
            op = m.group(1) if m else "?" + r
            gs = body.guards_on_all_paths(s.bb)
            labs = [l for (_, ls, _, c) in gs if render(c).startswith("discr(endpoint") for l in ls]
            if not labs:
                labs = [None]
            for l in labs:
                table[l] = (f, op)
    return table


def check(ctx):
    prog = ctx.prog
    # ---- K4 who writes the counters
    writers = {}
    for b in prog.bodies(SW):
        for f in FIELDS:
            for s in b.field_write_sites(f, CC):
                writers.setdefault(b.npath, set()).add(f)
    allowed = {"libp2p_swarm::connection::pool::ConnectionCounters::" + h for h in HELPERS}
    extra = set(writers) - allowed
    ctx.ob("who-writes", "ConnectionCounters fields", not extra,
           msg="bodies writing counter fields: %s" % sorted(writers))
    news = [b for b in prog.bodies(SW) if b.agg_sites(CC + "$")]
    ctx.ob("who-constructs", "ConnectionCounters", {b.npath for b in news} <=
           {"libp2p_swarm::connection::pool::ConnectionCounters::new",
            "libp2p_swarm::<connection::pool::ConnectionCounters as std::clone::Clone>::clone"},
           msg="bodies constructing ConnectionCounters: %s" % [b.npath for b in news])
    # ---- K7 helper tables
    for h, want in HELPERS.items():
        b = ctx.body(SW, CC + "::" + h + "$")
        got = helper_table(b)
        ctx.ob("helper-table", h, got == want, "%s:%d" % (b.file, b.line), "variant->(field,op): %s (expected %s)" % (got, want))
        ctx.ob("helper-vis", h, b.vis not in ("pub", "crate"), msg="visibility %s" % b.vis)
    # ---- K4 who calls the helpers
    callers = {}
    for b in prog.bodies(SW):
        for s in b.call_sites(CC + r"::(inc|dec)_"):
            callers.setdefault(b.npath, []).append(s)
    want_callers = {"libp2p_swarm::connection::pool::Pool::add_outgoing", "libp2p_swarm::connection::pool::Pool::add_incoming",
                    "libp2p_swarm::connection::pool::Pool::spawn_connection", "libp2p_swarm::connection::pool::Pool::poll"}
    ctx.ob("who-calls", "inc/dec helpers", set(callers) == want_callers, msg="callers: %s" % sorted(callers))
    ctx.floor("who-calls", "helper call sites", [s for v in callers.values() for s in v], 6)

    # ---- pairing: add_outgoing / add_incoming
    for fn, inc in (("add_outgoing", "inc_pending$"), ("add_incoming", "inc_pending_incoming$")):
        b = ctx.body(SW, r"pool::Pool::%s$" % fn)
        ins = [s for s in b.call_sites(r"HashMap::insert$") if re.search(r"self\.pending\b", render(b.site_expr(s)))]
        incs = b.call_sites(CC + "::" + inc)
        ctx.floor("pending-insert", fn + " pending.insert", ins, 1, exact=True)
        ctx.floor("pending-insert", fn + " inc", incs, 1, exact=True)
        rets = b.return_blocks()
        lib.exactly_once(ctx, "pending-insert-paired", fn + "/inc", b, [0], rets, lib.bbs(incs), "one " + inc, "%s:%d" % (b.file, b.line))
        lib.exactly_once(ctx, "pending-insert-paired", fn + "/insert", b, [0], rets, lib.bbs(ins), "one pending.insert", "%s:%d" % (b.file, b.line))
        if fn == "add_outgoing" and ins and incs:
            # endpoint passed to inc is the endpoint stored
            ie = b.site_expr(incs[0])[2][1]
            se = b.site_expr(ins[0])
            stored = None
            for x in mir.walk(se):
                if x[0] == "agg" and x[2].endswith("PendingConnection"):
                    stored = dict(x[4]).get("endpoint")
            ctx.ob("endpoint-same", fn, stored is not None and render(stored) == render(ie), ins[0].loc(),
                   "inc_pending(%s) vs stored endpoint %s" % (render(ie)[:80], render(stored)[:80] if stored else None))
    # ---- spawn_connection: established insert paired with inc_established
    b = ctx.body(SW, r"pool::Pool::spawn_connection$")
    ins = [s for s in b.call_sites(r"HashMap::insert$") if "self.established" in render(b.site_expr(s))]
    incs = b.call_sites(CC + "::inc_established$")
    ctx.floor("established-insert", "spawn_connection conns.insert", ins, 1, exact=True)
    rets = b.return_blocks()
    lib.exactly_once(ctx, "established-insert-paired", "spawn_connection/inc", b, [0], rets, lib.bbs(incs), "one inc_established", "%s:%d" % (b.file, b.line))
    lib.exactly_once(ctx, "established-insert-paired", "spawn_connection/insert", b, [0], rets, lib.bbs(ins), "one established insert", "%s:%d" % (b.file, b.line))
    if ins and incs:
        ie = render(b.site_expr(incs[0])[2][1])
        ctx.ob("endpoint-same", "spawn_connection", ie == "endpoint" and re.search(r"endpoint: <libp2p_core::ConnectedPoint as std::clone::Clone>::clone\(endpoint\)", render(b.site_expr(ins[0]))) is not None,
               ins[0].loc(), "inc_established(endpoint) and EstablishedConnection{endpoint: endpoint.clone()}")
        e = render(b.site_expr(ins[0]))
        ctx.ob("established-key", "spawn_connection", "entry(self.established, obtained_peer_id)" in e.replace("std::collections::hash_map::", "").replace("std::collections::HashMap::", ""),
               ins[0].loc(), "insert goes into established.entry(obtained_peer_id).or_default()")

    # ---- Pool::poll: removes paired with decs
    p = ctx.body(SW, r"pool::Pool::poll$")
    rets = p.return_blocks()
    prem = [s for s in p.call_sites(r"HashMap::remove$") if re.match(r"^std::collections::HashMap::remove\(self\.pending,", render(p.site_expr(s)))]
    ctx.floor("pending-remove", "Pool::poll pending.remove", prem, 2)
    decs = p.call_sites(CC + "::dec_pending$")
    ctx.floor("pending-remove", "Pool::poll dec_pending", decs, 2)
    for i, s in enumerate(prem):
        none_edges = lib.switch_edges_on_site(p, s, {"None"}, r"^discr\(std::collections::HashMap::remove\(self\.pending")
        arm = "ConnectionEstablished" if "ConnectionEstablished.id" in render(p.site_expr(s)) else "PendingFailed"
        lib.exactly_once(ctx, "pending-remove-paired", arm, p, p.succ[s.bb], rets, lib.bbs(decs),
                         "dec_pending after pending.remove returned an entry", s.loc(), excuse_edges=none_edges,
                         reset_bbs=lib.bbs(prem))
        # the endpoint passed to dec is the removed entry's endpoint
        mine = [d for d in decs if any(c[3] == s.bb for c in mir.calls_in(p.site_expr(d)[2][1], r"HashMap::remove$"))]
        ctx.ob("endpoint-same", "poll/" + arm, len(mine) == 1 and render(p.site_expr(mine[0])[2][1]).endswith(".endpoint"),
               s.loc(), "dec_pending argument is the removed PendingConnection.endpoint")
    erem = [s for s in p.call_sites(r"HashMap::remove$") if re.search(r"^std::collections::HashMap::remove\(std::option::Option::expect\(std::collections::HashMap::get_mut\(self\.established", render(p.site_expr(s)))]
    ctx.floor("established-remove", "Pool::poll connections.remove", erem, 1, exact=True)
    edecs = p.call_sites(CC + "::dec_established$")
    for s in erem:
        lib.exactly_once(ctx, "established-remove-paired", "Closed", p, p.succ[s.bb], rets, lib.bbs(edecs),
                         "dec_established after established connection removed", s.loc())
        mine = [d for d in edecs if any(c[3] == s.bb for c in mir.calls_in(p.site_expr(d)[2][1], r"HashMap::remove$"))]
        ctx.ob("endpoint-same", "poll/Closed", len(mine) == 1 and render(p.site_expr(mine[0])[2][1]).endswith(".endpoint"),
               s.loc(), "dec_established argument is the removed EstablishedConnection.endpoint")
    # outer entry removed iff inner map empty: the outer remove is guarded by is_empty(remaining) true, and every
    # path from inner remove to return passes the is_empty test
    orem = [s for s in p.call_sites(r"HashMap::remove$") if re.match(r"^std::collections::HashMap::remove\(self\.established,", render(p.site_expr(s)))]
    ctx.floor("outer-remove", "Pool::poll established.remove(peer)", orem, 1, exact=True)
    for s in orem:
        ctx.guarded("outer-remove", "guarded-by-is_empty", s,
                    lambda c, r, l: l == "true" and r.startswith("std::vec::Vec::is_empty(") and "HashMap::keys" in r,
                    "established.remove(peer) only when no connection remains")
    if erem:
        tests = [bi for bi in p.live if (p.switch_info(bi) or (None,))[0] is not None and
                 render(p.switch_info(bi)[0]).startswith("std::vec::Vec::is_empty(") and "HashMap::keys" in render(p.switch_info(bi)[0])]
        ctx.passes("outer-remove", "is_empty-tested-after-inner-remove", p, p.succ[erem[0].bb], rets, tests,
                   "emptiness test of the inner map after removing a connection", erem[0].loc())
        # the false edge must not skip dropping when empty: on true edge the remove is mandatory
        for t in tests:
            cond, labs = p.switch_info(t)
            true_t = [tgt for tgt, ls in labs.items() if "true" in ls]
            ctx.passes("outer-remove", "empty=>outer-removed", p, true_t, rets, lib.bbs(orem),
                       "established.remove(peer) on the empty edge", "%s:%d" % (p.file, p.blocks[t]["term"].get("l", 0)))
        # remaining ids collected after the removal
        keys = p.call_sites(r"HashMap::keys$")
        lib.precedes(ctx, "remaining-after-remove", "Closed", p, lib.bbs(erem), lib.bbs(keys),
                     "remaining_established_connection_ids collected after connections.remove(id)", erem[0].loc())
    # is_connected / num_peers defined on the outer map
    for fn, pat in (("is_connected", r"HashMap::contains_key\(self\.established"), ("num_peers", r"HashMap::len\(self\.established")):
        b = ctx.body(SW, r"pool::Pool::%s$" % fn)
        txt = " ".join(render(b.site_expr(s)) for s in b.call_sites())
        ctx.ob("view-def", fn, re.search(pat, txt) is not None, "%s:%d" % (b.file, b.line), "%s reads the outer established map" % fn)
    # ---- handle_pool_event: pre-insert view
    h = ctx.body(SW, r"^libp2p_swarm::Swarm::handle_pool_event$")
    it = h.call_sites(r"pool::Pool::iter_established_connections_of_peer$")
    sp = h.call_sites(r"pool::Pool::spawn_connection$")
    ctx.floor("pre-insert-view", "spawn_connection in handle_pool_event", sp, 1, exact=True)
    lib.precedes(ctx, "pre-insert-view", "other_established before spawn", h, lib.bbs(it), lib.bbs(sp),
                 "iter_established_connections_of_peer evaluated before spawn_connection", sp[0].loc() if sp else "")
    ne = [s for s in h.call_sites(r"NonZero::new$|NonZeroU32::new$")]
    ok = False
    for s in ne:
        r = render(h.site_expr(s))
        if re.search(r"AddWithOverflow\(std::vec::Vec::len\(.*iter_established_connections_of_peer.*\), 1\)\.0", r):
            ok = True
    ctx.ob("pre-insert-view", "num_established=len+1", ok, ne[0].loc() if ne else "", "num_established = other_established.len() + 1")
