"""C02 counters and peer views agree with the event history — pairing / ownership rules (K2, K3, K4, K7)."""
import re

from .. import lib, mir
from .. import lib_sw as S
from ..mir import render

EXPLANATION = ("Who-may-write analysis of the four ConnectionCounters fields, decision tables of the inc/dec helpers "
               "(variant -> field, +1/-1), and path pairing in Pool::{add_outgoing,add_incoming,spawn_connection,poll}: "
               "each pending/established map insert is paired with exactly one inc on every path, each successful remove "
               "with exactly one dec before any return; outer established entry removed iff inner map became empty; "
               "num_established/other_established computed from the pre-insert view; who-may-mutate: the pending map is structurally "
               "changed only by add_outgoing/add_incoming (insert) and poll (remove), the outer established map only by "
               "spawn_connection (entry) and poll (remove), the per-peer inner maps only by spawn_connection (insert) and poll "
               "(remove) — every other function may read them or reach into existing entries.  Private fields and the private "
               "counter helpers are identified by role (types, public getters, what they write), not by name.")
ASSUMPTIONS = ["equality with an external event history follows from the pairing only under C01's exactly-once clauses",
               "u32 counters do not overflow"]
SW = "libp2p_swarm"
CC = r"connection::pool::ConnectionCounters"
POOL = r"connection::pool::Pool$"
ROLES = ["pending_incoming", "pending_outgoing", "established_incoming", "established_outgoing"]


def counter_fields(ctx):
    """role -> current field name, read off the public getters num_<role>()"""
    out = {}
    for r_ in ROLES:
        b = ctx.body(SW, CC + "::num_" + r_ + "$")
        rs = S.ret_exprs(b)
        if len(rs) != 1 or rs[0][0] != "field" or rs[0][1][0] != "arg":
            raise mir.RuleError("ConnectionCounters::num_%s does not return a field of self" % r_)
        out[r_] = rs[0][2]
    return out


def helper_table(body, F):
    """{label or None: (role, op)} extracted from the MIR of one helper; every write must be +/-1."""
    table = {}
    for role_, f in F.items():
        for s in body.field_write_sites(f, CC):
            e = body.site_expr(s)
            # (Add|Sub)WithOverflow(self.f, 1).0
            r = render(e)
            m = re.match(r"^(Add|Sub)WithOverflow\(self\.%s, 1\)\.0$" % re.escape(f), r)
            op = m.group(1) if m else "?" + r
            gs = body.guards_on_all_paths(s.bb)
            labs = [l for (_, ls, _, c) in gs if c[0] == "discr" and c[1][0] == "arg" and c[1][1] == 2 for l in ls]
            if not labs:
                labs = [None]
            for l in labs:
                table[l] = (role_, op)
    return table


SHAPES = {
    "inc_pending": {"Dialer": ("pending_outgoing", "Add"), "Listener": ("pending_incoming", "Add")},
    "inc_pending_incoming": {None: ("pending_incoming", "Add")},
    "inc_pending_outgoing": {None: ("pending_outgoing", "Add")},
    "dec_pending": {"Dialer": ("pending_outgoing", "Sub"), "Listener": ("pending_incoming", "Sub")},
    "inc_established": {"Dialer": ("established_outgoing", "Add"), "Listener": ("established_incoming", "Add")},
    "dec_established": {"Dialer": ("established_outgoing", "Sub"), "Listener": ("established_incoming", "Sub")},
}


def check(ctx):
    prog = ctx.prog
    F = counter_fields(ctx)
    pend = S.role(prog, "pool.pending")
    est = S.role(prog, "pool.established")
    f_pend_ep = S.role(prog, "pending.endpoint")
    f_est_ep = S.role(prog, "established.endpoint")
    # ---- K4 who writes the counters; K7 what every writer does
    writers = {}
    for b in prog.bodies(SW):
        for f in F.values():
            if b.field_write_sites(f, CC):
                writers[b.npath] = b
    kinds = {}
    for path, b in sorted(writers.items()):
        ctx.use(b)
        got = helper_table(b, F)
        kind = [k for k, v in SHAPES.items() if v == got]
        ctx.ob("helper-table", kind[0] if kind else "writer " + b.short.split("::")[-1], bool(kind), "%s:%d" % (b.file, b.line),
               "variant->(counter,op) of %s: %s (must be one of the inc/dec shapes: Dialer->*_outgoing, Listener->*_incoming, +1 / -1)" % (b.short, got))
        inside = re.search(CC + r"::\w+$", path) is not None and b.kind not in ("closure", "coroutine")
        ctx.ob("who-writes", "ConnectionCounters fields written by " + (kind[0] if kind else b.short.split("::")[-1]), inside, "%s:%d" % (b.file, b.line),
               "counter fields are written in %s" % path)
        ctx.ob("helper-vis", kind[0] if kind else b.short.split("::")[-1], b.vis not in ("pub", "crate"), msg="visibility %s" % b.vis)
        if kind:
            kinds.setdefault(kind[0], []).append(b)
    for need in ("dec_pending", "inc_established", "dec_established"):
        ctx.ob("helper-table", "floor:" + need, len(kinds.get(need, [])) == 1, nontrivial=False, msg="%d helper(s) of shape %s" % (len(kinds.get(need, [])), need))
    ctx.ob("helper-table", "floor:inc_pending", bool(kinds.get("inc_pending")) or (bool(kinds.get("inc_pending_incoming")) and bool(kinds.get("inc_pending_outgoing"))),
           nontrivial=False, msg="pending increments: %s" % sorted(k for k in kinds if k.startswith("inc_pending")))
    news = [b for b in prog.bodies(SW) if b.agg_sites(CC + "$")]
    ctx.ob("who-constructs", "ConnectionCounters", {b.npath for b in news} <=
           {"libp2p_swarm::connection::pool::ConnectionCounters::new",
            "libp2p_swarm::<connection::pool::ConnectionCounters as std::clone::Clone>::clone"},
           msg="bodies constructing ConnectionCounters: %s" % [b.npath for b in news])

    def pat(*ks):
        ps = [re.escape(b.npath) + "$" for k in ks for b in kinds.get(k, [])]
        return "|".join(ps) if ps else r"^\b$"
    # ---- K4 who calls the helpers
    callers = {}
    for b in prog.bodies(SW):
        for s in b.call_sites(pat(*SHAPES)):
            callers.setdefault(b.npath, []).append(s)
    want_callers = {"libp2p_swarm::connection::pool::Pool::add_outgoing", "libp2p_swarm::connection::pool::Pool::add_incoming",
                    "libp2p_swarm::connection::pool::Pool::spawn_connection", "libp2p_swarm::connection::pool::Pool::poll"}
    ctx.ob("who-calls", "inc/dec helpers", set(callers) == want_callers, msg="callers: %s" % sorted(callers))
    ctx.floor("who-calls", "helper call sites", [s for v in callers.values() for s in v], 6)
    # ---- K4 who may structurally change the books
    S.check_mutators(ctx, "who-mutates", "Pool.pending", prog, pend, POOL,
                     {"::Pool::add_outgoing": {"insert"}, "::Pool::add_incoming": {"insert"}, "::Pool::poll": {"remove"}}, floor=4)
    S.check_mutators(ctx, "who-mutates", "Pool.established", prog, est, POOL,
                     {"::Pool::spawn_connection": {"entry"}, "::Pool::poll": {"remove"}}, floor=2)
    inner = []
    for b in prog.bodies(SW):
        for s in b.call_sites(r"HashMap::(insert|remove|remove_entry|clear|retain|drain|entry|extend|extract_if)$"):
            e = b.site_expr(s)
            recv = e[2][0] if e[2] else None
            if recv is None or recv[0] not in ("call", "field", "downcast"):
                continue
            if recv[0] == "field" and recv[2] == est:
                continue        # the outer map itself: covered above
            if not any(x[0] == "field" and x[2] == est and re.search(POOL, mir.strip_generics(x[3] or "")) for x in mir.walk(recv)):
                continue
            inner.append((b, s, mir.strip_generics(b.call_name(s.term)).split("::")[-1]))
    for b, s, meth in inner:
        ok = (b.npath.endswith("::Pool::spawn_connection") and meth == "insert") or (b.npath.endswith("::Pool::poll") and meth == "remove")
        ctx.ob("who-mutates", "per-peer connection map: %s in %s" % (meth, b.short), ok, s.loc(),
               "the inner map of an established peer is structurally changed by %s" % b.short)
    ctx.ob("who-mutates", "floor:per-peer connection map mutation sites", len(inner) >= 2, nontrivial=False, msg="%d site(s)" % len(inner))

    # ---- pairing: add_outgoing / add_incoming
    for fn, incp in (("add_outgoing", pat("inc_pending", "inc_pending_outgoing")), ("add_incoming", pat("inc_pending", "inc_pending_incoming"))):
        b = S.nbody(ctx, r"pool::Pool::%s$" % fn)
        ins = [s for s in b.call_sites(r"HashMap::insert$") if render(b.site_expr(s)[2][0]) == "self." + pend]
        incs = b.call_sites(incp)
        ctx.floor("pending-insert", fn + " pending.insert", ins, 1, exact=True)
        ctx.floor("pending-insert", fn + " inc", incs, 1, exact=True)
        rets = b.return_blocks()
        lib.exactly_once(ctx, "pending-insert-paired", fn + "/inc", b, [0], rets, lib.bbs(incs), "one pending increment", "%s:%d" % (b.file, b.line))
        lib.exactly_once(ctx, "pending-insert-paired", fn + "/insert", b, [0], rets, lib.bbs(ins), "one pending.insert", "%s:%d" % (b.file, b.line))
        stored = None
        for s in ins:
            for x in mir.walk(b.site_expr(s)):
                if x[0] == "agg" and x[2].endswith("PendingConnection"):
                    stored = dict(x[4]).get(f_pend_ep)
        if ins and incs:
            # endpoint passed to inc is the endpoint stored
            ie = b.site_expr(incs[0])
            if len(ie[2]) > 1:
                ctx.ob("endpoint-same", fn, stored is not None and render(stored) == render(ie[2][1]), ins[0].loc(),
                       "inc_pending(%s) vs stored endpoint %s" % (render(ie[2][1])[:80], render(stored)[:80] if stored else None))
            elif fn == "add_outgoing":
                ctx.ob("endpoint-same", fn, stored is not None and lib.agg_variants(stored, r"connection::PendingPoint$") == ["Dialer"], ins[0].loc(),
                       "outgoing increment vs stored endpoint %s" % (render(stored)[:80] if stored else None))
    # ---- spawn_connection: established insert paired with inc_established
    b = S.nbody(ctx, r"pool::Pool::spawn_connection$")
    i_ep = S.param_of_type(b, r"libp2p_core::ConnectedPoint$")
    i_peer = S.param_of_type(b, r"^libp2p_core::PeerId$")
    ins = [s for s in b.call_sites(r"HashMap::insert$") if S.has_field(b.site_expr(s)[2][0], est)]
    incs = b.call_sites(pat("inc_established"))
    ctx.floor("established-insert", "spawn_connection conns.insert", ins, 1, exact=True)
    rets = b.return_blocks()
    lib.exactly_once(ctx, "established-insert-paired", "spawn_connection/inc", b, [0], rets, lib.bbs(incs), "one inc_established", "%s:%d" % (b.file, b.line))
    lib.exactly_once(ctx, "established-insert-paired", "spawn_connection/insert", b, [0], rets, lib.bbs(ins), "one established insert", "%s:%d" % (b.file, b.line))
    if ins and incs:
        ie = render(b.site_expr(incs[0])[2][1])
        stored = None
        for x in mir.walk(b.site_expr(ins[0])):
            if x[0] == "agg" and x[2].endswith("EstablishedConnection"):
                stored = dict(x[4]).get(f_est_ep)
        ctx.ob("endpoint-same", "spawn_connection", ie == "p%d" % i_ep and stored is not None and
               render(stored) in ("<libp2p_core::ConnectedPoint as std::clone::Clone>::clone(p%d)" % i_ep, "p%d" % i_ep),
               ins[0].loc(), "inc_established(endpoint) and EstablishedConnection{endpoint: endpoint.clone()}")
        recv = b.site_expr(ins[0])[2][0]
        ent = mir.calls_in(recv, r"HashMap::entry$")
        ok = len(ent) == 1 and render(ent[0][2][0]) == "self." + est and render(ent[0][2][1]) == "p%d" % i_peer and \
            S.is_call(recv, r"hash_map::Entry::(or_default|or_insert_with|or_insert)$")
        ctx.ob("established-key", "spawn_connection", ok, ins[0].loc(), "insert goes into established.entry(obtained_peer_id).or_default()")
        # the entry created for the peer always receives the new connection (no empty per-peer map is left behind)
        for c in ent:
            got = lib.count_range(b, b.succ[c[3]], rets, lib.bbs(ins))
            ctx.ob("established-key", "spawn_connection: entry() is always followed by the insert", got == (1, 1), ins[0].loc(),
                   "inserts on the paths after established.entry(peer): %s" % (got,))

    # ---- Pool::poll: removes paired with decs
    p = S.nbody(ctx, r"pool::Pool::poll$")
    rets = p.return_blocks()
    prem = [s for s in p.call_sites(r"HashMap::remove$") if render(p.site_expr(s)[2][0]) == "self." + pend]
    ctx.floor("pending-remove", "Pool::poll pending.remove", prem, 2)
    decs = p.call_sites(pat("dec_pending"))
    ctx.floor("pending-remove", "Pool::poll dec_pending", decs, 2)
    for i, s in enumerate(prem):
        none_edges = lib.switch_edges_on_site(p, s, {"None"}, r"^discr\(std::collections::HashMap::remove\(")
        arm = "ConnectionEstablished" if "ConnectionEstablished.id" in render(p.site_expr(s)) else "PendingFailed"
        lib.exactly_once(ctx, "pending-remove-paired", arm, p, p.succ[s.bb], rets, lib.bbs(decs),
                         "dec_pending after pending.remove returned an entry", s.loc(), excuse_edges=none_edges,
                         reset_bbs=lib.bbs(prem))
        # the endpoint passed to dec is the removed entry's endpoint
        mine = [d for d in decs if any(c[3] == s.bb for c in mir.calls_in(p.site_expr(d)[2][1], r"HashMap::remove$"))]
        ctx.ob("endpoint-same", "poll/" + arm, len(mine) == 1 and render(p.site_expr(mine[0])[2][1]).endswith("." + f_pend_ep),
               s.loc(), "dec_pending argument is the removed PendingConnection.endpoint")

    def inner_of_established(e):
        return any(x[2] and render(x[2][0]) == "self." + est for x in mir.calls_in(e, r"HashMap::get_mut$"))
    erem = [s for s in p.call_sites(r"HashMap::remove$") if p.site_expr(s)[2][0][0] == "call" and inner_of_established(p.site_expr(s)[2][0])]
    ctx.floor("established-remove", "Pool::poll connections.remove", erem, 1, exact=True)
    edecs = p.call_sites(pat("dec_established"))
    for s in erem:
        lib.exactly_once(ctx, "established-remove-paired", "Closed", p, p.succ[s.bb], rets, lib.bbs(edecs),
                         "dec_established after established connection removed", s.loc())
        mine = [d for d in edecs if any(c[3] == s.bb for c in mir.calls_in(p.site_expr(d)[2][1], r"HashMap::remove$"))]
        ctx.ob("endpoint-same", "poll/Closed", len(mine) == 1 and render(p.site_expr(mine[0])[2][1]).endswith("." + f_est_ep),
               s.loc(), "dec_established argument is the removed EstablishedConnection.endpoint")
    # outer entry removed iff inner map empty: the outer remove is guarded by is_empty(remaining) true, and every
    # path from inner remove to return passes the is_empty test
    orem = [s for s in p.call_sites(r"HashMap::remove$") if render(p.site_expr(s)[2][0]) == "self." + est]
    ctx.floor("outer-remove", "Pool::poll established.remove(peer)", orem, 1, exact=True)

    def empty_test(c, r):
        # emptiness of the per-peer map after the removal: `remaining_ids.is_empty()` or `connections.is_empty()`
        if c[0] != "call" or not c[2] or not inner_of_established(c):
            return False
        return (r.startswith("std::vec::Vec::is_empty(") and "HashMap::keys" in r) or r.startswith("std::collections::HashMap::is_empty(")
    for s in orem:
        ctx.guarded("outer-remove", "guarded-by-is_empty", s,
                    lambda c, r, l: l == "true" and empty_test(c, r),
                    "established.remove(peer) only when no connection remains")
    if erem:
        tests = [bi for bi, c, _ in S.switch_blocks(p, empty_test)]
        ctx.passes("outer-remove", "is_empty-tested-after-inner-remove", p, p.succ[erem[0].bb], rets, tests,
                   "emptiness test of the inner map after removing a connection", erem[0].loc())
        # the false edge must not skip dropping when empty: on true edge the remove is mandatory
        for t in tests:
            cond, labs = p.switch_info(t)
            true_t = [tgt for tgt, ls in labs.items() if "true" in ls]
            ctx.passes("outer-remove", "empty=>outer-removed", p, true_t, rets, lib.bbs(orem),
                       "established.remove(peer) on the empty edge", "%s:%d" % (p.file, p.blocks[t]["term"].get("l", 0)))
        # remaining ids collected after the removal
        keys = [s for s in p.call_sites(r"HashMap::keys$") if inner_of_established(p.site_expr(s))]
        lib.precedes(ctx, "remaining-after-remove", "Closed", p, lib.bbs(erem), lib.bbs(keys),
                     "remaining_established_connection_ids collected after connections.remove(id)", erem[0].loc())
    # is_connected / num_peers defined on the outer map
    for fn, pt in (("is_connected", r"^std::collections::HashMap::contains_key\(self\.%s, p2\)$" % re.escape(est)), ("num_peers", r"^std::collections::HashMap::len\(self\.%s\)$" % re.escape(est))):
        b = S.nbody(ctx, r"pool::Pool::%s$" % fn)
        rs = [render(e) for e in S.ret_exprs(b)]
        ctx.ob("view-def", fn, len(rs) == 1 and re.search(pt, rs[0]) is not None, "%s:%d" % (b.file, b.line), "%s reads the outer established map: %s" % (fn, rs))
    # ---- handle_pool_event: pre-insert view
    h = S.nbody(ctx, r"^libp2p_swarm::Swarm::handle_pool_event$")
    it = h.call_sites(r"pool::Pool::iter_established_connections_of_peer$")
    sp = h.call_sites(r"pool::Pool::spawn_connection$")
    ctx.floor("pre-insert-view", "spawn_connection in handle_pool_event", sp, 1, exact=True)
    lib.precedes(ctx, "pre-insert-view", "other_established before spawn", h, lib.bbs(it), lib.bbs(sp),
                 "iter_established_connections_of_peer evaluated before spawn_connection", sp[0].loc() if sp else "")
    ne = [s for s in h.call_sites(r"NonZero::new$|NonZeroU32::new$")]
    ok = False
    for s in ne:
        r = render(h.site_expr(s))
        if re.search(r"AddWithOverflow\(std::vec::Vec::len\(.*iter_established_connections_of_peer.*\), 1\)\.0", r):
            ok = True
    ctx.ob("pre-insert-view", "num_established=len+1", ok, ne[0].loc() if ne else "", "num_established = other_established.len() + 1")
