"""C01 lifecycle events paired and exactly-once — path counting (K2), dominance (K1/K3), who-constructs (K4)."""
import re

from .. import lib, mir
from .. import lib_sw as S
from ..mir import render

EXPLANATION = ("Path counting over the MIR CFG: (a) in Pool::poll every path after a successful pending.remove emits exactly "
               "one of the three outcome PoolEvents; (b) PoolEvent::ConnectionClosed only after the connection was removed "
               "from the established map; (c) Swarm::handle_pool_event: per PoolEvent arm the (min,max) count of each "
               "behaviour event / SwarmEvent / spawn_connection on all paths equals the allowed row; (d) the behaviour is "
               "told before the twin SwarmEvent is queued; (e) the three pool task coroutines send exactly one terminal "
               "event on every terminating path; (f) lifecycle SwarmEvents are constructed only in the two handlers; (g) the pending "
               "map is structurally changed only by add_outgoing/add_incoming (insert) and Pool::poll (the removes that are paired "
               "with an outcome event) — an id can neither be forgotten nor dropped from the map without its event.")
ASSUMPTIONS = ["FIFO delivery of futures::mpsc between pool tasks and Pool::poll", "user Executors run spawned tasks",
               "multi-swarm interleavings are not analysed"]
SW = "libp2p_swarm"
PE = r"connection::pool::PoolEvent$"
OUTCOME = {"ConnectionEstablished", "PendingOutboundConnectionError", "PendingInboundConnectionError"}


def check(ctx):
    prog = ctx.prog
    F_PEND = S.role(prog, "pool.pending")
    F_EST = S.role(prog, "pool.established")
    p = S.nbody(ctx, r"pool::Pool::poll$")
    rets = p.return_blocks()
    # ---------------- (a) outcome events in Pool::poll
    cl = [b for b in prog.children(p) if b.kind == "closure"]
    chk = None
    for c in cl:
        if c.agg_sites(PE):
            chk = c
    if chk is None:
        raise mir.RuleError("check_peer_id closure not found in Pool::poll")
    ctx.use(chk)
    # closure summary: Err returns construct exactly one error PoolEvent, Ok constructs none
    err_aggs = [s for s in chk.agg_sites(PE) if s.stmt["r"]["variant"] in ("PendingOutboundConnectionError", "PendingInboundConnectionError")]
    all_aggs = chk.agg_sites(PE)
    ctx.ob("closure-summary", "check_peer_id only builds error events", len(err_aggs) == len(all_aggs) and len(err_aggs) >= 3,
           "%s:%d" % (chk.file, chk.line), "PoolEvent constructions in check_peer_id: %s" % [s.stmt["r"]["variant"] for s in all_aggs])
    err_ret = [s for s in chk.agg_sites(r"^std::result::Result$", "Err")]
    ok_ret = [s for s in chk.agg_sites(r"^std::result::Result$", "Ok")]
    ctx.floor("closure-summary", "Err constructions", err_ret, 3)
    ctx.floor("closure-summary", "Ok constructions", ok_ret, 1)
    crets = chk.return_blocks()
    for s in err_ret:
        lib.precedes(ctx, "closure-summary", "Err carries a PoolEvent", chk, lib.bbs(err_aggs), [s.bb],
                     "each Err(..) is built from one error PoolEvent", s.loc())
    for s in ok_ret:
        ctx.ob("closure-summary", "Ok path builds no event", not (set(lib.bbs(all_aggs)) & chk.reachable([0], blocked_nodes=[]) & _ancestors(chk, s.bb)),
               s.loc(), "no PoolEvent construction on a path to Ok(())")
    # in poll: marker = PoolEvent outcome aggregates + block returning the closure's Err
    ev_sites = [s for s in p.agg_sites(PE) if s.stmt["r"]["variant"] in OUTCOME]
    call_chk = p.call_sites(re.escape(mir.strip_generics(chk.path)) + "$")
    ctx.floor("outcome", "check_peer_id call", call_chk, 1, exact=True)
    err_edges = lib.switch_edges_on_site(p, call_chk[0], {"Err"}) if call_chk else set()
    ctx.ob("outcome", "floor:check_peer_id Err edge", len(err_edges) == 1, msg="Err edge of check_peer_id(): %s" % sorted(err_edges), nontrivial=False)
    err_tgt = [t for (_, t) in err_edges]
    markers = set(lib.bbs(ev_sites)) | set(err_tgt)
    prem = [s for s in p.call_sites(r"HashMap::remove$") if render(p.site_expr(s)[2][0]) == "self." + F_PEND]
    ctx.floor("outcome", "pending.remove sites", prem, 2)
    for s in prem:
        arm = "ConnectionEstablished" if "ConnectionEstablished.id" in render(p.site_expr(s)) else "PendingFailed"
        none_edges = lib.switch_edges_on_site(p, s, {"None"}, r"^discr\(std::collections::HashMap::remove\(")
        lib.expect_count(ctx, "outcome", arm + ": one outcome event after pending.remove", p, p.succ[s.bb], rets, markers, (1, 1),
                         "PoolEvent::{ConnectionEstablished|PendingOutboundConnectionError|PendingInboundConnectionError}",
                         s.loc(), blocked_edges=none_edges)
    # the Err path of check_peer_id returns the error without building a NewConnection / Established event
    if err_tgt:
        est = [s.bb for s in ev_sites if s.stmt["r"]["variant"] == "ConnectionEstablished"]
        newc = lib.bbs(p.call_sites(r"pool::NewConnection::new$"))
        lib.never_between(ctx, "outcome", "id-mismatch path builds no connection", p, err_tgt, rets, set(est) | set(newc),
                          "NewConnection::new / PoolEvent::ConnectionEstablished after check_peer_id() == Err")
    # every outcome event is preceded by a pending.remove (no event for unknown ids)
    for s in ev_sites:
        lib.precedes(ctx, "outcome", "%s after pending.remove" % s.stmt["r"]["variant"], p, lib.bbs(prem), [s.bb],
                     "outcome event only for an id removed from `pending`", s.loc())
    # ---------------- (b) ConnectionClosed after established remove
    closed = p.agg_sites(PE, "ConnectionClosed")
    ctx.floor("closed", "PoolEvent::ConnectionClosed constructions", closed, 1)
    erem = [s for s in p.call_sites(r"HashMap::remove$") if p.site_expr(s)[2][0][0] == "call" and
            any(c[2] and render(c[2][0]) == "self." + F_EST for c in mir.calls_in(p.site_expr(s)[2][0], r"HashMap::get_mut$"))]
    ctx.floor("closed", "removal from the per-peer established map", erem, 1)
    for s in closed:
        lib.precedes(ctx, "closed", "Closed only if established", p, lib.bbs(erem), [s.bb],
                     "ConnectionClosed is built after connections.remove(id).expect(..)", s.loc())
    # who constructs PoolEvent lifecycle variants: only Pool::poll (+ its closure)
    who = set()
    for b in prog.bodies(SW):
        for s in b.agg_sites(PE):
            if s.stmt["r"]["variant"] in OUTCOME | {"ConnectionClosed"}:
                who.add(b.npath)
    ctx.ob("who-constructs", "PoolEvent lifecycle variants", who == {p.npath, chk.npath}, msg="constructed in %s" % sorted(who))
    # ---------------- (g) an id leaves `pending` only through the removes above; it enters only through add_outgoing/add_incoming
    S.check_mutators(ctx, "who-mutates", "Pool.pending", prog, F_PEND, r"connection::pool::Pool$",
                     {"::Pool::add_outgoing": {"insert"}, "::Pool::add_incoming": {"insert"}, "::Pool::poll": {"remove"}}, floor=4)

    # ---------------- (c)+(d) handle_pool_event
    h = S.nbody(ctx, r"^libp2p_swarm::Swarm::handle_pool_event$")
    hrets = h.return_blocks()
    ev_q = S.role(prog, "swarm.events")
    i_ev = S.param_of_type(h, r"connection::pool::PoolEvent<")
    DISPATCH = r"^discr\(p%d\)$" % i_ev
    FS = r"behaviour::FromSwarm$"
    SE = r"^libp2p_swarm::SwarmEvent$"

    def beh(variant):
        return lib.bbs(lib.calls_with_variant(h, r"NetworkBehaviour::on_swarm_event$", FS, variant))

    def swe(variant):
        out = []
        for s in h.call_sites(r"VecDeque::push_back$"):
            e = h.site_expr(s)
            if S.has_field(e[2][0], ev_q) and variant in lib.agg_variants(e[2][1], SE):
                out.append(s.bb)
        return out
    spawn = lib.bbs(h.call_sites(r"pool::Pool::spawn_connection$"))
    kinds = {
        "spawn_connection": spawn,
        "FromSwarm::ConnectionEstablished": beh("ConnectionEstablished"), "SwarmEvent::ConnectionEstablished": swe("ConnectionEstablished"),
        "FromSwarm::DialFailure": beh("DialFailure"), "SwarmEvent::OutgoingConnectionError": swe("OutgoingConnectionError"),
        "FromSwarm::ListenFailure": beh("ListenFailure"), "SwarmEvent::IncomingConnectionError": swe("IncomingConnectionError"),
        "FromSwarm::ConnectionClosed": beh("ConnectionClosed"), "SwarmEvent::ConnectionClosed": swe("ConnectionClosed"),
    }
    for k, v in kinds.items():
        ctx.ob("arm-table", "floor:" + k, len(v) >= 1, msg="%d site(s) for %s" % (len(v), k), nontrivial=False)
    rows = {
        "PendingOutboundConnectionError": {"FromSwarm::DialFailure": (1, 1), "SwarmEvent::OutgoingConnectionError": (1, 1)},
        "PendingInboundConnectionError": {"FromSwarm::ListenFailure": (1, 1), "SwarmEvent::IncomingConnectionError": (1, 1)},
        "ConnectionClosed": {"FromSwarm::ConnectionClosed": (1, 1), "SwarmEvent::ConnectionClosed": (1, 1)},
        "ConnectionEvent": {}, "AddressChange": {},
    }
    for arm, row in rows.items():
        ents = lib.arm_entry(h, DISPATCH, arm)
        ctx.ob("arm-table", "floor:arm " + arm, len(ents) == 1, msg="arm entry for PoolEvent::%s: %s" % (arm, ents), nontrivial=False)
        if not ents:
            continue
        for k, v in kinds.items():
            want = row.get(k, (0, 0))
            lib.expect_count(ctx, "arm-table", "%s/%s" % (arm, k), h, [ents[0][1]], hrets, v, want, "PoolEvent::%s arm, %s" % (arm, k))
    # ConnectionEstablished arm: accepted paths (reach spawn_connection) vs denied paths
    ents = lib.arm_entry(h, DISPATCH, "ConnectionEstablished")
    ctx.ob("arm-table", "floor:arm ConnectionEstablished", len(ents) == 1, msg=str(ents), nontrivial=False)
    if ents and spawn:
        e0 = ents[0][1]
        # every path passing spawn_connection: exactly one of each established event afterwards, no failure events
        for k in ("FromSwarm::ConnectionEstablished", "SwarmEvent::ConnectionEstablished"):
            lib.expect_count(ctx, "arm-table", "ConnectionEstablished(accepted)/" + k, h, h.succ[spawn[0]], hrets, kinds[k], (1, 1),
                             "after spawn_connection, " + k)
        for k in ("FromSwarm::DialFailure", "FromSwarm::ListenFailure", "SwarmEvent::OutgoingConnectionError", "SwarmEvent::IncomingConnectionError"):
            lib.expect_count(ctx, "arm-table", "ConnectionEstablished(accepted)/" + k, h, h.succ[spawn[0]], hrets, kinds[k], (0, 0),
                             "after spawn_connection, " + k)
        # established events only after spawn_connection
        for k in ("FromSwarm::ConnectionEstablished", "SwarmEvent::ConnectionEstablished"):
            lib.precedes(ctx, "arm-table", "established event after spawn/" + k, h, spawn, kinds[k], k + " only after spawn_connection")
        # paths avoiding spawn_connection (denied): exactly one failure pair (dial or listen), no established events
        got = lib.count_range(h, [e0], hrets, set(kinds["FromSwarm::DialFailure"]) | set(kinds["FromSwarm::ListenFailure"]) | set(spawn))
        ctx.ob("arm-table", "ConnectionEstablished: spawn xor one failure", got == (1, 1), msg="spawn_connection + behaviour failure events per path = %s, expected (1, 1)" % (got,))
        got = lib.count_range(h, [e0], hrets, set(kinds["SwarmEvent::OutgoingConnectionError"]) | set(kinds["SwarmEvent::IncomingConnectionError"]) | set(spawn))
        ctx.ob("arm-table", "ConnectionEstablished: spawn xor one error SwarmEvent", got == (1, 1), msg="spawn_connection + error SwarmEvents per path = %s, expected (1, 1)" % (got,))
    # (d) order: behaviour first, then queued SwarmEvent (same order in both streams)
    pairs = [("FromSwarm::ConnectionEstablished", "SwarmEvent::ConnectionEstablished"), ("FromSwarm::DialFailure", "SwarmEvent::OutgoingConnectionError"),
             ("FromSwarm::ListenFailure", "SwarmEvent::IncomingConnectionError"), ("FromSwarm::ConnectionClosed", "SwarmEvent::ConnectionClosed")]
    n_pairs = 0
    for a, b in pairs:
        for sb in kinds[b]:
            n_pairs += 1
            lib.precedes(ctx, "order", "%s before %s@bb%d" % (a, b, 0), h, kinds[a], [sb], "behaviour informed (%s) before %s is queued" % (a, b),
                         "%s:%d" % (h.file, h.blocks[sb]["term"].get("l", 0)))
    ctx.ob("order", "floor:pairs", n_pairs >= 6, msg="%d ordered pairs in handle_pool_event" % n_pairs, nontrivial=False)

    # ---------------- (e) task coroutines
    PCE = r"pool::task::PendingConnectionEvent$"
    for fn in ("new_for_pending_outgoing_connection", "new_for_pending_incoming_connection"):
        c = ctx.body(SW, r"pool::task::%s::\{closure#0\}$" % fn, "coroutine")
        sends = lib.calls_with_variant(c, r"SinkExt::send$", PCE)
        ctx.floor("task-terminal", fn + " sends", sends, 3)
        lib.expect_count(ctx, "task-terminal", fn, c, [0], c.return_blocks(), lib.bbs(sends), (1, 1),
                         "exactly one PendingConnectionEvent sent on every terminating path", "%s:%d" % (c.file, c.line))
        vs = sorted(v for s in sends for v in lib.agg_variants(c.site_expr(s)[2][1], PCE))
        ctx.ob("task-terminal", fn + "/variants", vs.count("ConnectionEstablished") == 1 and vs.count("PendingFailed") == 2,
               msg="sent variants: %s" % vs)
    ECE = r"pool::task::EstablishedConnectionEvent$"
    c = ctx.body(SW, r"pool::task::new_for_established_connection::\{closure#0\}$", "coroutine")
    closed_s = lib.calls_with_variant(c, r"SinkExt::send$", ECE, "Closed")
    ctx.floor("task-terminal", "established Closed sends", closed_s, 2)
    # manager-gone arm: command_receiver.next() == None
    none_edges = lib.switch_edges_on(c, r"@Left\.0\.0\)$", {"None"})
    ctx.ob("task-terminal", "floor:manager-gone edge", len(none_edges) == 1, msg="None edges: %s" % sorted(none_edges), nontrivial=False)
    got = lib.count_range(c, [0], c.return_blocks(), lib.bbs(closed_s), blocked_edges=none_edges)
    ctx.ob("task-terminal", "established: one Closed before return", got == (1, 1), "%s:%d" % (c.file, c.line),
           "Closed sends per terminating path (excluding manager-gone) = %s, expected (1, 1)" % (got,))
    # ids in task events are the task's own connection id
    for body_pat in (r"pool::task::new_for_pending_outgoing_connection::\{closure#0\}$", r"pool::task::new_for_pending_incoming_connection::\{closure#0\}$",
                     r"pool::task::new_for_established_connection::\{closure#0\}$"):
        c = S.nbody(ctx, body_pat, "coroutine")
        # the task's own connection id: the ConnectionId parameter of the async fn, captured by its coroutine
        par = S.neutral(prog.body(SW, "^" + re.escape(mir.strip_generics(c.parent)) + "$")) if c.parent else None
        k_id = None
        if par is not None:
            i_id = S.param_of_type(par, r"^connection::ConnectionId$")
            for st_ in par.stmt_sites(lambda st: st["k"] == "assign" and st["r"]["k"] == "agg" and st["r"].get("def") == c.path):
                caps = par.site_expr(st_)[2]
                ks = [i for i, x in enumerate(caps) if x[0] == "arg" and x[1] == i_id]
                k_id = ks[0] if len(ks) == 1 else None
        bad = []
        n = 0
        for s in c.agg_sites(r"pool::task::(Pending|Established)ConnectionEvent$"):
            e = c.site_expr(s)
            idv = dict(e[4]).get("id")
            n += 1
            if idv is None or k_id is None or re.match(r"^\^\*?u%d$" % k_id, render(idv)) is None:
                bad.append((s.loc(), render(idv) if idv else None))
        ctx.ob("task-id", c.short.split("::")[-2], not bad and n >= 3, "%s:%d" % (c.file, c.line), "event ids = task's connection_id (%d events) %s" % (n, bad))

    # ---------------- (f) who constructs lifecycle SwarmEvents
    LIFE = {"ConnectionEstablished", "ConnectionClosed", "OutgoingConnectionError", "IncomingConnectionError"}
    who = {}
    for b in prog.bodies(SW):
        for s in b.agg_sites(SE):
            v = s.stmt["r"]["variant"]
            if v in LIFE:
                who.setdefault(b.npath, []).append(v)
    ok = set(who) <= {"libp2p_swarm::Swarm::handle_pool_event", "libp2p_swarm::Swarm::handle_transport_event"}
    ctx.ob("who-constructs", "lifecycle SwarmEvents", ok and "libp2p_swarm::Swarm::handle_pool_event" in who, msg="constructed in %s" % {k: sorted(v) for k, v in who.items()})
    ctx.floor("who-constructs", "lifecycle SwarmEvent constructions", [x for v in who.values() for x in v], 7)


def _ancestors(body, bb):
    """blocks from which bb is reachable"""
    seen = {bb}
    stack = [bb]
    while stack:
        x = stack.pop()
        for pr in body.pred[x]:
            if pr not in seen and pr in body.live:
                seen.add(pr)
                stack.append(pr)
    return seen
