"""C52 connection limits are never exceeded — comparison relation of check_limit (K9/K7), check-dominates-Ok guards (K1), operand table (K6/K11), set bookkeeping pairing (K2), who-may-mutate (K4)."""
import re

from .. import lib, mir
from ..mir import render, strip_generics

EXPLANATION = ("check_limit: `Ok` is returned only on the strict edge current < limit (false edge of `current >= limit`), the at-limit edge "
               "always ends in Err. Each of the four handle_* methods: the exact table (limit field -> counted set(s)) of its check_limit "
               "calls; every `Ok` result is reached only through the Continue/Ok edge of *every* required check or through the bypass edge "
               "(is_bypassed == true, polarity of is_bypassed and of the is_some_and closure checked); every result is Ok / Err / `?` residual; "
               "on the admitted non-bypass path the pending id is inserted exactly once into the matching pending set, with the id argument. "
               "on_swarm_event: ConnectionEstablished inserts the event's id into the inbound set on Listener, the outbound set on Dialer "
               "(never the other), and into established_per_peer[event.peer_id] on every path. Removals from the five sets occur only where "
               "the connection with that id really left the category (established handler / DialFailure / ListenFailure for pending, "
               "ConnectionClosed for established) and use the event's own id and peer; each such arm performs its removal on every path. "
               "Crate-wide who-may-mutate table of the five sets (no other body can shrink a set).")
ASSUMPTIONS = ["Swarm calls handle_established_* and then delivers ConnectionEstablished synchronously, and delivers exactly one "
               "DialFailure/ListenFailure/ConnectionClosed per connection (C01/C02/C06)",
               "limits changed through limits_mut() are not applied to existing connections (documented)",
               "HashSet/HashMap semantics; usize -> u32 truncation of set sizes is not modelled",
               "interleavings across several swarms are not executed"]
CL = "libp2p_connection_limits"
NB = r"<Behaviour as libp2p_swarm::NetworkBehaviour>::"
SETS = ["pending_inbound_connections", "pending_outbound_connections", "established_inbound_connections",
        "established_outbound_connections", "established_per_peer"]
LEN = "std::collections::HashSet::len(self.%s)"
PER_PEER = "per-peer"
TOTAL = "AddWithOverflow(%s, %s).0" % (LEN % "established_inbound_connections", LEN % "established_outbound_connections")
TOTAL_REV = "AddWithOverflow(%s, %s).0" % (LEN % "established_outbound_connections", LEN % "established_inbound_connections")

# handler -> {limit field: counted quantity}
TABLE = {
    "handle_pending_inbound_connection": {"max_pending_incoming": LEN % "pending_inbound_connections"},
    "handle_pending_outbound_connection": {"max_pending_outgoing": LEN % "pending_outbound_connections"},
    "handle_established_inbound_connection": {"max_established_incoming": LEN % "established_inbound_connections",
                                              "max_established_per_peer": PER_PEER, "max_established_total": TOTAL},
    "handle_established_outbound_connection": {"max_established_outgoing": LEN % "established_outbound_connections",
                                               "max_established_per_peer": PER_PEER, "max_established_total": TOTAL},
}
PENDING_SET = {"handle_pending_inbound_connection": "pending_inbound_connections",
               "handle_pending_outbound_connection": "pending_outbound_connections",
               "handle_established_inbound_connection": "pending_inbound_connections",
               "handle_established_outbound_connection": "pending_outbound_connections"}
TRY = r"^discr\((<std::result::Result as std::ops::Try>::branch\()?libp2p_connection_limits::check_limit\("

SELFTEST = [
    {"mutation": "check_limit: `current >= limit` -> `current > limit`", "caught_by": "relation/check_limit: Ok only when current < limit"},
    {"mutation": "handle_established_inbound_connection: drop the `?` of the per-peer check (`let _ = check_limit(..)`)",
     "caught_by": "admit/handle_established_inbound_connection: Ok only after max_established_per_peer passed"},
    {"mutation": "handle_established_outbound_connection: total check uses established_outbound.len() twice",
     "caught_by": "operand/handle_established_outbound_connection: max_established_total"},
    {"mutation": "handle_pending_outbound_connection: `if !maybe_peer.is_some_and(..)` (bypass polarity)",
     "caught_by": "admit/handle_pending_outbound_connection: Ok only after max_pending_outgoing passed"},
    {"mutation": "on_swarm_event ConnectionEstablished: Listener arm inserts into established_outbound_connections",
     "caught_by": "established/Listener: inserted into established_inbound_connections"},
    {"mutation": "handle_pending_inbound_connection: insert removed", "caught_by": "pending/handle_pending_inbound_connection: admitted id recorded once"},
    {"mutation": "on_swarm_event DialFailure: removes from pending_inbound_connections instead", "caught_by": "release/DialFailure: removed from pending_outbound_connections on every path + who/removal from pending_inbound_connections only in ListenFailure"},
    {"mutation": "is_bypassed returns !contains", "caught_by": "bypass/is_bypassed = bypass_peer_id.contains(peer)"},
    {"mutation": "on_swarm_event catch-all arm clears established_inbound_connections", "caught_by": "who/mutators of the five sets"},
]


def unnot(cond, label):
    """Normalise `Not(x)` switches: returns (x, flipped label)."""
    while cond[0] == "un" and cond[1] == "Not" and label in ("true", "false"):
        cond = cond[2]
        label = "false" if label == "true" else "true"
    return cond, label


def result_defs(body):
    """Classify every assignment of the return place: list of (kind, Site) with kind Ok / Err / residual / other."""
    out = []
    for d in body.defs.get(0, []):
        site = mir.Site(body, d[1], d[2])
        if d[0] == "stmt":
            e = body.rvalue_expr(d[3])
            if e[0] == "agg" and e[1] == "adt" and strip_generics(e[2]).endswith("result::Result") and e[3] in ("Ok", "Err"):
                out.append((e[3], site))
            else:
                out.append(("other:" + render(e)[:60], site))
        else:
            n = strip_generics(body.call_name(d[3]))
            out.append(("residual" if n.endswith("FromResidual>::from_residual") else "other:" + n, site))
    return out


def per_peer_ok(prog, body, e):
    """`self.established_per_peer.get(&peer)` mapped to the size of that peer's set, 0 when absent."""
    r = render(e)
    if "std::collections::HashMap::get(self.established_per_peer, peer)" not in r:
        return False
    if not re.search(r"Option::(unwrap_or\(.*, 0\)$|map_or\(.*, 0, )|unwrap_or_default\(", r):
        return False
    cl = lib.closure_of(prog, body, e)
    if cl is None:
        return False
    ds = cl.defs.get(0, [])
    if len(ds) != 1:
        return False
    rr = render(cl.site_expr(mir.Site(cl, ds[0][1], ds[0][2])))
    return re.match(r"^std::collections::HashSet::len\(\w+\)$", rr) is not None


def bypass_edges(prog, body):
    """Edges on which the peer is known to be bypassed."""
    out = set()
    for bi in body.live:
        info = body.switch_info(bi)
        if not info:
            continue
        for tgt, ls in info[1].items():
            for l in ls:
                c, lab = unnot(info[0], l)
                if lab != "true" or c[0] != "call":
                    continue
                n = strip_generics(c[1])
                if n == "libp2p_connection_limits::Behaviour::is_bypassed" and render(c[2][0]) == "self" and render(c[2][1]) == "peer":
                    out.add((bi, tgt))
                elif n == "std::option::Option::is_some_and" and render(c[2][0]) == "maybe_peer":
                    cl = lib.closure_of(prog, body, c)
                    if cl is not None:
                        ds = cl.defs.get(0, [])
                        rr = [render(cl.site_expr(mir.Site(cl, d[1], d[2]))) for d in ds]
                        if rr == ["libp2p_connection_limits::Behaviour::is_bypassed(^*self, peer)"] or rr == ["libp2p_connection_limits::Behaviour::is_bypassed(^self, peer)"]:
                            out.add((bi, tgt))
    return out


def set_calls(body, field, callee_pat):
    """Calls matching callee_pat whose receiver expression mentions self.<field>."""
    out = []
    for s in body.call_sites(callee_pat):
        e = body.site_expr(s)
        if e[2] and re.search(r"\bself\.%s\b" % field, render(e[2][0])):
            out.append(s)
    return out


def check(ctx):
    prog = ctx.prog
    # ------------------------------------------------------------------ check_limit relation
    cl = ctx.body(CL, r"^libp2p_connection_limits::check_limit$")
    where = "%s:%d" % (cl.file, cl.line)
    res = result_defs(cl)
    oks = [s for k, s in res if k == "Ok"]
    errs = [s for k, s in res if k == "Err"]
    ctx.floor("relation", "check_limit Ok results", oks, 1)
    ctx.floor("relation", "check_limit Err results", errs, 1)
    ctx.ob("relation", "check_limit: results are Ok or Err", all(k in ("Ok", "Err") for k, _ in res), where, str([k for k, _ in res]))
    good, weak = lib.strict_limit_edges(cl, r"^\(?current\b", r"\blimit\b")
    for s in oks:
        ok = bool(good) and cl.must_pass_edges(s.bb, good)
        msg = "Ok is reached only through the edge current < limit" if ok else "Ok reachable without current < limit"
        if not ok and weak and cl.must_pass_edges(s.bb, good | weak):
            msg += " — only a non-strict comparison (`current > limit`) guards it: the limit-th + 1 connection is admitted"
        ctx.ob("relation", "check_limit: Ok only when current < limit", ok, s.loc(), msg)
    # rejection side: Ge-true / Lt-false (an `==` test would not be a rejection test for a set size that can be above the limit)
    at = {(b, t) for (b, t, op, lab) in lib.cmp_guard(cl, r"^\(?current\b", r"\blimit\b", None) if (op, lab) in (("Ge", "true"), ("Lt", "false"))}
    ctx.ob("relation", "floor:at-limit edge", len(at) >= 1, where, str(sorted(at)), nontrivial=False)
    if at:
        got = lib.count_range(cl, [t for _, t in at], cl.return_blocks(), lib.bbs(oks))
        ctx.ob("relation", "check_limit: current >= limit never yields Ok", got == (0, 0), where, "Ok results on paths from the at-limit edge: %s" % (got,))
        got = lib.count_range(cl, [t for _, t in at], cl.return_blocks(), lib.bbs(errs))
        ctx.ob("relation", "check_limit: current >= limit yields Err", got == (1, 1), where, "Err results on paths from the at-limit edge: %s" % (got,))
    # the compared operands are the two parameters (limit defaulting only when None)
    for bi, tgt, op, lab in lib.cmp_guard(cl, r"^\(?current\b", r"\blimit\b", None)[:1]:
        cond = cl.switch_info(bi)[0]
        a, b = render(cond[2]), render(cond[3])
        both = a + " | " + b
        ctx.ob("relation", "check_limit: compares parameter `current` with parameter `limit`",
               re.search(r"^\(current as u32\)$|^current$", a if "current" in a else b) is not None and
               re.search(r"^std::option::Option::(unwrap_or|unwrap_or_else|map_or)\(limit, ", b if "limit" in b else a) is not None, where, both[:200])
    callers = prog.callers(CL, r"^libp2p_connection_limits::check_limit$")
    ctx.floor("relation", "check_limit call sites", callers, 8)

    # ------------------------------------------------------------------ bypass polarity
    ib = ctx.body(CL, r"^libp2p_connection_limits::Behaviour::is_bypassed$")
    rr = [render(ib.site_expr(mir.Site(ib, d[1], d[2]))) for d in ib.defs.get(0, [])]
    ctx.ob("bypass", "is_bypassed = bypass_peer_id.contains(peer)", rr == ["std::collections::HashSet::contains(self.bypass_peer_id, remote_peer)"],
           "%s:%d" % (ib.file, ib.line), str(rr))

    # ------------------------------------------------------------------ the four handlers
    for fn, table in TABLE.items():
        b = ctx.body(CL, NB + fn + "$")
        where = "%s:%d" % (b.file, b.line)
        rets = b.return_blocks()
        calls = b.call_sites(r"^libp2p_connection_limits::check_limit$")
        ctx.floor("operand", fn + " check_limit calls", calls, len(table), exact=True)
        by_field = {}
        for s in calls:
            e = b.site_expr(s)
            m = re.match(r"^self\.limits\.(\w+)$", render(e[2][0]))
            fld = m.group(1) if m else "?" + render(e[2][0])[:40]
            by_field.setdefault(fld, []).append(s)
        ctx.ob("operand", fn + ": limits checked", set(by_field) == set(table), where,
               "limit fields passed to check_limit: %s, required %s" % (sorted(by_field), sorted(table)))
        res = result_defs(b)
        ctx.ob("admit", fn + ": results are Ok / Err / `?` residual", all(k in ("Ok", "Err", "residual") for k, _ in res), where, str([k for k, _ in res]))
        oks = [s for k, s in res if k == "Ok"]
        ctx.floor("admit", fn + " Ok results", oks, 2 if fn != "handle_pending_inbound_connection" else 1)
        byp = bypass_edges(prog, b)
        if fn == "handle_pending_inbound_connection":
            ctx.ob("bypass", fn + ": no bypass (peer unknown)", not byp, where, "%d bypass edges" % len(byp))
        else:
            ctx.ob("bypass", "floor:" + fn + " bypass edge", len(byp) == 1, where, str(sorted(byp)), nontrivial=False)
        all_cont = set()
        for fld, want in table.items():
            for s in by_field.get(fld, [])[:1]:
                e = b.site_expr(s)
                cur = e[2][1]
                if want == PER_PEER:
                    ok = per_peer_ok(prog, b, cur)
                    desc = "size of established_per_peer[peer] (0 if absent)"
                elif want == TOTAL:
                    ok = render(cur) in (TOTAL, TOTAL_REV)
                    desc = "established_inbound.len() + established_outbound.len()"
                else:
                    ok = render(cur) == want
                    desc = want.split("(")[-1].rstrip(")") + ".len()"
                ctx.ob("operand", "%s: %s" % (fn, fld), ok, s.loc(), "%s is compared with %s; required: %s" % (fld, render(cur)[:160], desc))
                cont = lib.switch_edges_on_site(b, s, {"Continue", "Ok"}, TRY)
                brk = lib.switch_edges_on_site(b, s, {"Break", "Err"}, TRY)
                ctx.ob("admit", "floor:%s %s pass/deny edges" % (fn, fld), len(cont) == 1 and len(brk) == 1, s.loc(),
                       "%s / %s" % (sorted(cont), sorted(brk)), nontrivial=False)
                all_cont |= cont
                for o in oks:
                    ok = b.must_pass_edges(o.bb, cont | byp) and bool(cont)
                    if not b.must_pass_edges(o.bb, byp) or not byp:
                        ctx.ob("admit", "%s: Ok only after %s passed" % (fn, fld), ok, o.loc(),
                               ("every path to this Ok passes the check's success edge (or the bypass edge)" if ok else
                                "this Ok is reachable although check_limit(%s, ..) was not passed and the peer is not bypassed" % fld))
                # denial is propagated: from the Break edge no Ok
                if brk:
                    got = lib.count_range(b, [t for _, t in brk], rets, lib.bbs(oks))
                    ctx.ob("admit", "%s: %s denial is returned" % (fn, fld), got == (0, 0), s.loc(), "Ok results on paths from the Err edge: %s" % (got,))
        # bookkeeping of the pending sets
        pset = PENDING_SET[fn]
        other = [x for x in SETS if x != pset]
        if fn.startswith("handle_pending"):
            ins = set_calls(b, pset, r"HashSet::insert$")
            ctx.floor("pending", fn + " insert", ins, 1, exact=True)
            for s in ins:
                e = b.site_expr(s)
                ctx.ob("pending", fn + ": records the id it was asked about", render(e[2][0]) == "self." + pset and render(e[2][1]) == "connection_id", s.loc(), render(e)[:160])
                ok = bool(all_cont) and b.must_pass_edges(s.bb, all_cont)
                ctx.ob("pending", fn + ": recorded only after the check passed", ok, s.loc(), "insert dominated by the success edge of check_limit")
            for _, t in sorted(all_cont):
                got = lib.count_range(b, [t], rets, lib.bbs(ins))
                ctx.ob("pending", fn + ": admitted id recorded once", got == (1, 1), where, "inserts into %s on paths from the success edge: %s" % (pset, got))
        else:
            rem = set_calls(b, pset, r"HashSet::remove$")
            ctx.floor("release", fn + " pending remove", rem, 1, exact=True)
            for s in rem:
                e = b.site_expr(s)
                ctx.ob("release", fn + ": removes the established id from " + pset, render(e[2][0]) == "self." + pset and render(e[2][1]) == "connection_id", s.loc(), render(e)[:160])
            got = lib.count_range(b, [0], rets, lib.bbs(rem))
            ctx.ob("release", fn + ": pending entry released on every path", got == (1, 1), where, "removes on all paths (bypass, denied, admitted): %s" % (got,))
        for f in other:
            ctx.ob("who", "%s does not touch %s" % (fn, f), not lib.field_mut_calls(b, f), where, "no &mut self.%s" % f)

    # ------------------------------------------------------------------ on_swarm_event
    ev = ctx.body(CL, NB + "on_swarm_event$")
    where = "%s:%d" % (ev.file, ev.line)
    rets = ev.return_blocks()

    def arm(name):
        ents = lib.arm_entry(ev, r"^discr\(event\)$", name)
        ctx.ob("arms", "floor:arm " + name, len(ents) == 1, where, str(ents), nontrivial=False)
        return ents[0] if ents else None

    def arm_region(a):
        return ev.reachable([a[1]]) if a else set()

    est = arm("ConnectionEstablished")
    if est:
        reg = arm_region(est)
        ins_in = [s for s in set_calls(ev, "established_inbound_connections", r"HashSet::insert$") if s.bb in reg]
        ins_out = [s for s in set_calls(ev, "established_outbound_connections", r"HashSet::insert$") if s.bb in reg]
        ins_pp = [s for s in set_calls(ev, "established_per_peer", r"HashSet::insert$") if s.bb in reg]
        ctx.floor("established", "inbound insert", ins_in, 1, exact=True)
        ctx.floor("established", "outbound insert", ins_out, 1, exact=True)
        ctx.floor("established", "per-peer insert", ins_pp, 1, exact=True)
        for role, mine, theirs, setname in (("Listener", ins_in, ins_out, "established_inbound_connections"), ("Dialer", ins_out, ins_in, "established_outbound_connections")):
            edges = lib.switch_edges_on(ev, r"^discr\(event@ConnectionEstablished\.0\.endpoint\)$", {role})
            ctx.ob("established", "floor:%s edge" % role, len(edges) == 1, where, str(sorted(edges)), nontrivial=False)
            st = [t for _, t in edges]
            if st:
                got = lib.count_range(ev, st, rets, lib.bbs(mine))
                ctx.ob("established", "%s: inserted into %s" % (role, setname), got == (1, 1), where, "inserts on the %s edge: %s" % (role, got))
                got = lib.count_range(ev, st, rets, lib.bbs(theirs))
                ctx.ob("established", "%s: not inserted into the other direction's set" % role, got == (0, 0), where, "inserts on the %s edge: %s" % (role, got))
        got = lib.count_range(ev, [est[1]], rets, lib.bbs(ins_pp))
        ctx.ob("established", "per-peer set extended on every path", got == (1, 1), where, "per-peer inserts in the arm: %s" % (got,))
        got = lib.count_range(ev, [est[1]], rets, lib.bbs(ins_in + ins_out))
        ctx.ob("established", "exactly one direction set extended on every path", got == (1, 1), where, "direction inserts in the arm: %s" % (got,))
        for s in ins_in + ins_out:
            e = ev.site_expr(s)
            ctx.ob("established", "%s receives the event's connection id" % render(e[2][0]).split(".")[-1], render(e[2][1]) == "event@ConnectionEstablished.0.connection_id", s.loc(), render(e)[:200])
        for s in ins_pp:
            e = ev.site_expr(s)
            r0 = render(e[2][0])
            ok = (r0 == "std::collections::hash_map::Entry::or_default(std::collections::HashMap::entry(self.established_per_peer, event@ConnectionEstablished.0.peer_id))"
                  and render(e[2][1]) == "event@ConnectionEstablished.0.connection_id")
            ctx.ob("established", "per-peer insert is keyed by the event's peer and id (in-place extension)", ok, s.loc(), render(e)[:260])
    # removals
    REMOVALS = {"ConnectionClosed": ["established_inbound_connections", "established_outbound_connections", "established_per_peer"],
                "DialFailure": ["pending_outbound_connections"], "ListenFailure": ["pending_inbound_connections"]}
    for name, fields in REMOVALS.items():
        a = arm(name)
        if not a:
            continue
        reg = arm_region(a)
        for f in fields:
            rem = [s for s in set_calls(ev, f, r"HashSet::remove$") if s.bb in reg]
            ctx.floor("release", "%s remove from %s" % (name, f), rem, 1, exact=True)
            got = lib.count_range(ev, [a[1]], rets, lib.bbs(rem))
            ctx.ob("release", "%s: removed from %s on every path" % (name, f), got == (1, 1), where, "removes in the arm: %s" % (got,))
            for s in rem:
                e = ev.site_expr(s)
                ok = render(e[2][1]) == "event@%s.0.connection_id" % name
                if f == "established_per_peer":
                    ok = ok and "HashMap::entry(self.established_per_peer, event@ConnectionClosed.0.peer_id)" in render(e[2][0]) or \
                        ok and "HashMap::get_mut(self.established_per_peer, event@ConnectionClosed.0.peer_id)" in render(e[2][0])
                ctx.ob("release", "%s: removes the event's own id from %s" % (name, f), ok, s.loc(), render(e)[:240])
    # ------------------------------------------------------------------ who may mutate the sets, crate-wide
    ALLOWED = {
        ("handle_pending_inbound_connection", "pending_inbound_connections", "insert"),
        ("handle_pending_outbound_connection", "pending_outbound_connections", "insert"),
        ("handle_established_inbound_connection", "pending_inbound_connections", "remove"),
        ("handle_established_outbound_connection", "pending_outbound_connections", "remove"),
        ("on_swarm_event", "established_inbound_connections", "insert"), ("on_swarm_event", "established_inbound_connections", "remove"),
        ("on_swarm_event", "established_outbound_connections", "insert"), ("on_swarm_event", "established_outbound_connections", "remove"),
        ("on_swarm_event", "established_per_peer", "entry"),
        ("on_swarm_event", "pending_outbound_connections", "remove"), ("on_swarm_event", "pending_inbound_connections", "remove"),
    }
    found = set()
    sites = []
    for b in prog.bodies(CL):
        for f in SETS:
            for s in lib.field_mut_calls(b, f):
                found.add((b.npath.split("::")[-1] if b.kind != "closure" else b.npath, f, strip_generics(b.call_name(s.term)).split("::")[-1]))
                sites.append(s)
            for s in b.field_write_sites(f, r"libp2p_connection_limits::Behaviour"):
                found.add((b.npath, f, "assign"))
    ctx.floor("who", "mutating uses of the five sets", sites, 11)
    extra = found - ALLOWED
    ctx.ob("who", "mutators of the five sets", not extra, msg="unexpected mutation sites: %s" % sorted(extra) if extra else "%d mutation sites, all in the allow-table" % len(found))
    # removal sites: none outside the arms/handlers audited above
    # on_swarm_event: removals of pending ids only in the failure arms, of established ids only in ConnectionClosed
    for f, arms in (("pending_outbound_connections", {"DialFailure"}), ("pending_inbound_connections", {"ListenFailure"}),
                    ("established_inbound_connections", {"ConnectionClosed"}), ("established_outbound_connections", {"ConnectionClosed"})):
        for s in set_calls(ev, f, r"HashSet::(remove|clear|retain|drain|take)$"):
            gs = [ls for (t, ls, _, c) in ev.guards_on_all_paths(s.bb) if t == "discr(event)"]
            ok = bool(gs) and all(set(ls) <= arms for ls in gs)
            ctx.ob("who", "removal from %s only in %s" % (f, "/".join(sorted(arms))), ok, s.loc(), "arm labels on all paths: %s" % [sorted(x) for x in gs])
    for s in set_calls(ev, "established_per_peer", r"HashSet::(remove|clear|retain|drain|take)$|HashMap::(remove|clear|retain|drain)$"):
        gs = [ls for (t, ls, _, c) in ev.guards_on_all_paths(s.bb) if t == "discr(event)"]
        ok = bool(gs) and all(set(ls) <= {"ConnectionClosed"} for ls in gs)
        ctx.ob("who", "removal from established_per_peer only in ConnectionClosed", ok, s.loc(), "arm labels on all paths: %s" % [sorted(x) for x in gs])
