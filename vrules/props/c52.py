"""C52 connection limits are never exceeded — comparison relation of check_limit (K9/K7), check-dominates-Ok guards (K1), operand table (K6/K11), set bookkeeping pairing (K2), who-may-mutate (K4)."""
import re

from .. import lib, lib_misc as lm, mir
from ..mir import render, strip_generics

EXPLANATION = ("check_limit: `Ok` is returned only on the strict edge current < limit (false edge of `current >= limit`), the at-limit edge "
               "always ends in Err. Each of the four handle_* methods: the exact table (limit field -> counted set(s)) of its check_limit "
               "calls; every `Ok` result is reached only through the Continue/Ok edge of *every* required check or through the bypass edge "
               "(is_bypassed == true, polarity of is_bypassed and of the is_some_and closure checked); every result is Ok / Err / `?` residual; "
               "on the admitted non-bypass path the pending id is inserted exactly once into the matching pending set, with the id argument. "
               "on_swarm_event: ConnectionEstablished inserts the event's id into the inbound set on Listener, the outbound set on Dialer "
               "(never the other), and into established_per_peer[event.peer_id] on every path. Removals from the five sets occur only where "
               "the connection with that id really left the category (established handler / DialFailure / ListenFailure for pending, "
               "ConnectionClosed for established) and use the event's own id and peer; each such arm performs its removal on every path. "
               "Crate-wide who-may-mutate table of the five sets (no other body can shrink a set).")
ASSUMPTIONS = ["Swarm calls handle_established_* and then delivers ConnectionEstablished synchronously, and delivers exactly one "
               "DialFailure/ListenFailure/ConnectionClosed per connection (C01/C02/C06)",
               "limits changed through limits_mut() are not applied to existing connections (documented)",
               "HashSet/HashMap semantics; usize -> u32 truncation of set sizes is not modelled",
               "interleavings across several swarms are not executed"]
CL = "libp2p_connection_limits"
NB = r"<Behaviour as libp2p_swarm::NetworkBehaviour>::"
BEH = r"^libp2p_connection_limits::Behaviour$"
# Public API names used as anchors: the NetworkBehaviour hooks, Behaviour::is_bypassed, ConnectionLimits::with_max_* and the
# public types Exceeded / ConnectionLimits.  Everything private (check_limit, the limits / bypass / five set fields, the
# max_* fields, parameter names) is resolved by role in resolve().
SETTERS = {"max_pending_incoming": "with_max_pending_incoming", "max_pending_outgoing": "with_max_pending_outgoing",
           "max_established_incoming": "with_max_established_incoming", "max_established_outgoing": "with_max_established_outgoing",
           "max_established_per_peer": "with_max_established_per_peer", "max_established_total": "with_max_established"}
ROLE_DESC = {"PI": "pending-inbound set", "PO": "pending-outbound set", "EI": "established-inbound set", "EO": "established-outbound set", "PP": "per-peer map"}
# handler -> {limit role: counted quantity (role expression)}
TABLE = {
    "handle_pending_inbound_connection": {"max_pending_incoming": "len(PI)"},
    "handle_pending_outbound_connection": {"max_pending_outgoing": "len(PO)"},
    "handle_established_inbound_connection": {"max_established_incoming": "len(EI)", "max_established_per_peer": "per-peer", "max_established_total": "len(EI)+len(EO)"},
    "handle_established_outbound_connection": {"max_established_outgoing": "len(EO)", "max_established_per_peer": "per-peer", "max_established_total": "len(EI)+len(EO)"},
}
PENDING_ROLE = {"handle_pending_inbound_connection": "PI", "handle_pending_outbound_connection": "PO",
                "handle_established_inbound_connection": "PI", "handle_established_outbound_connection": "PO"}

SELFTEST = [
    {"mutation": "check_limit: `current >= limit` -> `current > limit`", "caught_by": "relation/checker: Ok only when current < limit"},
    {"mutation": "handle_established_inbound_connection: drop the `?` of the per-peer check (`let _ = check_limit(..)`)",
     "caught_by": "admit/handle_established_inbound_connection: Ok only after max_established_per_peer passed"},
    {"mutation": "handle_established_outbound_connection: total check uses established_outbound.len() twice",
     "caught_by": "operand/handle_established_outbound_connection: max_established_total"},
    {"mutation": "handle_pending_outbound_connection: `if !maybe_peer.is_some_and(..)` (bypass polarity)",
     "caught_by": "admit/handle_pending_outbound_connection: Ok only after max_pending_outgoing passed"},
    {"mutation": "on_swarm_event ConnectionEstablished: Listener arm inserts into established_outbound_connections",
     "caught_by": "roles/...ids are recorded in four different sets (Listener and Dialer edges resolve to one set)"},
    {"mutation": "handle_pending_inbound_connection: insert removed", "caught_by": "pending/handle_pending_inbound_connection: admitted id recorded once"},
    {"mutation": "on_swarm_event DialFailure: removes from pending_inbound_connections instead", "caught_by": "release/DialFailure: removed from the pending-outbound set on every path + who/removal from the pending-inbound set only in ListenFailure"},
    {"mutation": "is_bypassed returns !contains", "caught_by": "bypass/is_bypassed = bypass set contains(peer)"},
    {"mutation": "on_swarm_event catch-all arm clears established_inbound_connections", "caught_by": "who/mutators of the five sets"},
    {"mutation": "handle_pending_inbound_connection inserts into pending_outbound_connections", "caught_by": "roles/...ids are recorded in four different sets"},
    {"mutation": "NEUTRAL: consistent rename of check_limit, the five set fields, limits, max_* fields, parameters (all private)", "caught_by": "(silent, by design: private items are resolved by role)"},
]



unnot = lm.unnot


def result_defs(body):
    return [(k, s) for k, s, _ in lm.result_defs(body)]


class Roles:
    pass


def direct_set_inserts(body, set_fields, region=None):
    """{field: [sites]} of HashSet::insert(self.<field>, ..) with a direct field receiver."""
    out = {}
    for s in body.call_sites(r"HashSet::insert$"):
        if region is not None and s.bb not in region:
            continue
        f = lm.recv_self_field(body.site_expr(s))
        if f in set_fields:
            out.setdefault(f, []).append(s)
    return out


def resolve(ctx):
    prog = ctx.prog
    R = Roles()
    R.limits = lm.field_by_type(prog, CL, BEH, r"(^|::)ConnectionLimits$")
    R.bypass = lm.field_by_type(prog, CL, BEH, r"HashSet<.*PeerId>$")
    R.PP = lm.field_by_type(prog, CL, BEH, r"HashMap<.*PeerId, .*HashSet<.*ConnectionId>>")
    id_sets = lm.fields_by_type(prog, CL, BEH, r"^std::collections::HashSet<.*ConnectionId>$")
    R.id_sets = id_sets
    # the limit fields through the public setters
    R.lim = {}
    lf = [n for n, _ in lm.adt_fields(prog, CL, r"^libp2p_connection_limits::ConnectionLimits$")]
    for role, setter in SETTERS.items():
        b = ctx.body(CL, r"^libp2p_connection_limits::ConnectionLimits::%s$" % setter)
        ws = [f for f in lf if b.field_write_sites(f)]
        if len(ws) != 1:
            raise mir.RuleError("ConnectionLimits::%s writes %s (expected exactly one field)" % (setter, ws))
        R.lim[role] = ws[0]
    if len(set(R.lim.values())) != len(R.lim):
        raise mir.RuleError("two ConnectionLimits setters write the same field: %s" % R.lim)
    # the checker: the function that constructs the public error type Exceeded
    mk = [b for b in prog.bodies(CL) if b.agg_sites(r"^libp2p_connection_limits::Exceeded$") and "Clone" not in b.npath]
    if len(mk) != 1:
        raise mir.RuleError("Exceeded is constructed by %s (expected exactly one checking function)" % [b.npath for b in mk])
    R.chk = mk[0]
    ctx.use(R.chk)
    # set roles from where ids are recorded
    ev = ctx.body(CL, NB + "on_swarm_event$")
    R.ev = ev
    R.EV = lm.pname(ev, 2)
    pi = direct_set_inserts(ctx.body(CL, NB + "handle_pending_inbound_connection$"), id_sets)
    po = direct_set_inserts(ctx.body(CL, NB + "handle_pending_outbound_connection$"), id_sets)
    lst = lib.switch_edges_on(ev, r"^discr\(%s@ConnectionEstablished\.0\.endpoint\)$" % re.escape(R.EV), {"Listener"})
    dlr = lib.switch_edges_on(ev, r"^discr\(%s@ConnectionEstablished\.0\.endpoint\)$" % re.escape(R.EV), {"Dialer"})
    ei = direct_set_inserts(ev, id_sets, ev.reachable([t for _, t in lst])) if lst else {}
    eo = direct_set_inserts(ev, id_sets, ev.reachable([t for _, t in dlr])) if dlr else {}
    R.raw = {"PI": sorted(pi), "PO": sorted(po), "EI": sorted(ei), "EO": sorted(eo)}
    return R


def check(ctx):
    prog = ctx.prog
    R = resolve(ctx)
    ok_roles = all(len(v) == 1 for v in R.raw.values()) and len({v[0] for v in R.raw.values() if v}) == 4
    ctx.ob("roles", "pending-inbound / pending-outbound / established-inbound (Listener) / established-outbound (Dialer) ids are recorded in four different sets",
           ok_roles, msg="sets receiving inserts: pending inbound hook %s, pending outbound hook %s, ConnectionEstablished Listener edge %s, Dialer edge %s" %
           (R.raw["PI"], R.raw["PO"], R.raw["EI"], R.raw["EO"]))
    if not ok_roles:
        return
    F = {k: v[0] for k, v in R.raw.items()}
    F["PP"] = R.PP
    ROLE_OF = {v: k for k, v in F.items()}
    SETS = [F[k] for k in ("PI", "PO", "EI", "EO", "PP")]
    ctx.note("roles: %s limits=%s bypass=%s limit fields=%s checker=%s" % (F, R.limits, R.bypass, R.lim, R.chk.npath.split("::")[-1]))
    LIM_ROLE = {v: k for k, v in R.lim.items()}

    def LEN(role):
        return "std::collections::HashSet::len(self.%s)" % F[role]
    TOTALS = ("AddWithOverflow(%s, %s).0" % (LEN("EI"), LEN("EO")), "AddWithOverflow(%s, %s).0" % (LEN("EO"), LEN("EI")))

    # ------------------------------------------------------------------ the checker's relation
    cl = R.chk
    CHK = "^" + re.escape(cl.npath) + "$"
    where = "%s:%d" % (cl.file, cl.line)
    LIMP, CURP = lm.param_by_type(cl, r"^std::option::Option<u32>$", first=1), lm.param_by_type(cl, r"^usize$", first=1)
    LIMI, CURI = lm.param_index_by_type(cl, r"^std::option::Option<u32>$", first=1) - 1, lm.param_index_by_type(cl, r"^usize$", first=1) - 1
    CUR_PAT, LIM_PAT = r"^\(?%s\b" % re.escape(CURP), r"\b%s\b" % re.escape(LIMP)
    res = result_defs(cl)
    oks = [s for k, s in res if k == "Ok"]
    errs = [s for k, s in res if k == "Err"]
    ctx.floor("relation", "checker Ok results", oks, 1)
    ctx.floor("relation", "checker Err results", errs, 1)
    ctx.ob("relation", "checker: results are Ok or Err", all(k in ("Ok", "Err") for k, _ in res), where, str([k for k, _ in res]))
    good, weak = lib.strict_limit_edges(cl, CUR_PAT, LIM_PAT)
    for s in oks:
        ok = bool(good) and cl.must_pass_edges(s.bb, good)
        msg = "Ok is reached only through the edge current < limit" if ok else "Ok reachable without current < limit"
        if not ok and weak and cl.must_pass_edges(s.bb, good | weak):
            msg += " — only a non-strict comparison (`current > limit`) guards it: the limit-th + 1 connection is admitted"
        ctx.ob("relation", "checker: Ok only when current < limit", ok, s.loc(), msg)
    at = {(b, t) for (b, t, op, lab) in lib.cmp_guard(cl, CUR_PAT, LIM_PAT, None) if (op, lab) in (("Ge", "true"), ("Lt", "false"))}
    ctx.ob("relation", "floor:at-limit edge", len(at) >= 1, where, str(sorted(at)), nontrivial=False)
    if at:
        got = lib.count_range(cl, [t for _, t in at], cl.return_blocks(), lib.bbs(oks))
        ctx.ob("relation", "checker: current >= limit never yields Ok", got == (0, 0), where, "Ok results on paths from the at-limit edge: %s" % (got,))
        got = lib.count_range(cl, [t for _, t in at], cl.return_blocks(), lib.bbs(errs))
        ctx.ob("relation", "checker: current >= limit yields Err", got == (1, 1), where, "Err results on paths from the at-limit edge: %s" % (got,))
    for bi, tgt, op, lab in lib.cmp_guard(cl, CUR_PAT, LIM_PAT, None)[:1]:
        cond = cl.switch_info(bi)[0]
        a, b = render(cond[2]), render(cond[3])
        ca, la = (a, b) if re.search(CUR_PAT, a) else (b, a)
        ctx.ob("relation", "checker: compares its count parameter with its limit parameter",
               re.search(r"^\(%s as u32\)$|^%s$" % (re.escape(CURP), re.escape(CURP)), ca) is not None and
               re.search(r"^std::option::Option::(unwrap_or|unwrap_or_else|map_or)\(%s, " % re.escape(LIMP), la) is not None, where, (a + " | " + b)[:200])
    callers = prog.callers(CL, CHK)
    ctx.floor("relation", "checker call sites", callers, 8)
    ctx.ob("relation", "the checker is called only from the four hooks", {s.body.npath.split("::")[-1] for s in callers} <= set(TABLE), msg=str(sorted({s.body.npath.split("::")[-1] for s in callers})))

    # ------------------------------------------------------------------ bypass polarity
    ib = ctx.body(CL, r"^libp2p_connection_limits::Behaviour::is_bypassed$")
    rr = [render(ib.site_expr(mir.Site(ib, d[1], d[2]))) for d in ib.defs.get(0, [])]
    ctx.ob("bypass", "is_bypassed = bypass set contains(peer)", rr == ["std::collections::HashSet::contains(self.%s, %s)" % (R.bypass, lm.pname(ib, 2))],
           "%s:%d" % (ib.file, ib.line), str(rr))

    def bypass_edges(body, peer_param):
        out = set()
        for bi in body.live:
            info = body.switch_info(bi)
            if not info:
                continue
            for tgt, ls in info[1].items():
                for l in ls:
                    c, lab = unnot(info[0], l)
                    if lab != "true" or c[0] != "call":
                        continue
                    n = strip_generics(c[1])
                    if n == "libp2p_connection_limits::Behaviour::is_bypassed" and render(c[2][0]) == "self" and render(c[2][1]) == peer_param:
                        out.add((bi, tgt))
                    elif n == "std::option::Option::is_some_and" and render(c[2][0]) == peer_param:
                        cb = lib.closure_of(prog, body, c)
                        if cb is not None:
                            rr2 = [cb.site_expr(mir.Site(cb, d[1], d[2])) for d in cb.defs.get(0, [])]
                            if len(rr2) == 1 and rr2[0][0] == "call" and strip_generics(rr2[0][1]) == "libp2p_connection_limits::Behaviour::is_bypassed" and \
                                    render(rr2[0][2][0]) in ("^*self", "^self") and rr2[0][2][1][0] == "arg":
                                out.add((bi, tgt))
        return body.derive_edges(out) if out and hasattr(body, "derive_edges") else out

    def per_peer_ok(body, e, peer_param):
        r = render(e)
        if "std::collections::HashMap::get(self.%s, %s)" % (F["PP"], peer_param) not in r:
            return False
        if not re.search(r"Option::(unwrap_or\(.*, 0\)$|map_or\(.*, 0, )|unwrap_or_default\(", r):
            return False
        cb = lib.closure_of(prog, body, e)
        if cb is None:
            return False
        ds = cb.defs.get(0, [])
        if len(ds) != 1:
            return False
        x = cb.site_expr(mir.Site(cb, ds[0][1], ds[0][2]))
        return x[0] == "call" and strip_generics(x[1]) == "std::collections::HashSet::len" and x[2][0][0] == "arg"

    # ------------------------------------------------------------------ the four hooks
    for fn, table in TABLE.items():
        b = ctx.body(CL, NB + fn + "$")
        where = "%s:%d" % (b.file, b.line)
        rets = b.return_blocks()
        CID = lm.param_by_type(b, r"ConnectionId$")
        PEER = lm.param_by_type(b, r"PeerId") if fn != "handle_pending_inbound_connection" else None
        calls = b.call_sites(CHK)
        ctx.floor("operand", fn + " limit checks", calls, len(table), exact=True)
        by_role = {}
        for s in calls:
            e = b.site_expr(s)
            m = re.match(r"^self\.%s\.(\w+)$" % re.escape(R.limits), render(e[2][LIMI]))
            role = LIM_ROLE.get(m.group(1), "?" + m.group(1)) if m else "?" + render(e[2][LIMI])[:40]
            by_role.setdefault(role, []).append(s)
        ctx.ob("operand", fn + ": limits checked", set(by_role) == set(table), where,
               "limits passed to the checker: %s, required %s" % (sorted(by_role), sorted(table)))
        res = result_defs(b)
        ctx.ob("admit", fn + ": results are Ok / Err / `?` residual", all(k in ("Ok", "Err", "residual") for k, _ in res), where, str([k for k, _ in res]))
        oks = [s for k, s in res if k == "Ok"]
        ctx.floor("admit", fn + " Ok results", oks, 1)
        byp = bypass_edges(b, PEER) if PEER else set()
        if fn == "handle_pending_inbound_connection":
            ctx.ob("bypass", fn + ": no bypass (peer unknown)", not byp, where, "%d bypass edges" % len(byp))
        else:
            ctx.ob("bypass", "floor:" + fn + " bypass edge", len(byp) >= 1, where, str(sorted(byp)), nontrivial=False)
        all_cont = set()
        for lim_role, want in table.items():
            for s in by_role.get(lim_role, [])[:1]:
                e = b.site_expr(s)
                cur = e[2][CURI]
                if want == "per-peer":
                    ok = per_peer_ok(b, cur, PEER)
                    desc = "size of the per-peer map's entry for the peer (0 if absent)"
                elif want == "len(EI)+len(EO)":
                    ok = render(cur) in TOTALS
                    desc = "established-inbound.len() + established-outbound.len()"
                else:
                    ok = render(cur) == LEN(want[4:-1])
                    desc = ROLE_DESC[want[4:-1]] + ".len()"
                ctx.ob("operand", "%s: %s" % (fn, lim_role), ok, s.loc(), "%s is compared with %s; required: %s" % (lim_role, render(cur)[:160], desc))
                cont, brk = lm.result_edges(b, s)
                ctx.ob("admit", "floor:%s %s pass/deny edges" % (fn, lim_role), len(cont) >= 1 and len(brk) >= 1, s.loc(),
                       "%s / %s" % (sorted(cont), sorted(brk)), nontrivial=False)
                all_cont |= cont
                for o in oks:
                    ok = b.must_pass_edges(o.bb, cont | byp) and bool(cont)
                    if not b.must_pass_edges(o.bb, byp) or not byp:
                        ctx.ob("admit", "%s: Ok only after %s passed" % (fn, lim_role), ok, o.loc(),
                               ("every path to this Ok passes the check's success edge (or the bypass edge)" if ok else
                                "this Ok is reachable although the %s check was not passed and the peer is not bypassed" % lim_role))
                if brk:
                    got = lib.count_range(b, [t for _, t in brk], rets, lib.bbs(oks))
                    ctx.ob("admit", "%s: %s denial is returned" % (fn, lim_role), got == (0, 0), s.loc(), "Ok results on paths from the Err edge: %s" % (got,))
        # bookkeeping of the pending sets
        prole = PENDING_ROLE[fn]
        pset = F[prole]
        if fn.startswith("handle_pending"):
            ins = lm.self_field_calls(b, pset, r"HashSet::insert$")
            ctx.floor("pending", fn + " insert", ins, 1, exact=True)
            for s in ins:
                e = b.site_expr(s)
                ctx.ob("pending", fn + ": records the id it was asked about", render(e[2][0]) == "self." + pset and render(e[2][1]) == CID, s.loc(), render(e)[:160])
                ok = bool(all_cont) and b.must_pass_edges(s.bb, all_cont)
                ctx.ob("pending", fn + ": recorded only after the check passed", ok, s.loc(), "insert dominated by the success edge of the limit check")
            for _, t in sorted(all_cont):
                got = lib.count_range(b, [t], rets, lib.bbs(ins))
                ctx.ob("pending", fn + ": admitted id recorded once", got == (1, 1), where, "inserts into the %s on paths from the success edge: %s" % (ROLE_DESC[prole], got))
        else:
            rem = lm.self_field_calls(b, pset, r"HashSet::remove$")
            ctx.floor("release", fn + " pending remove", rem, 1, exact=True)
            for s in rem:
                e = b.site_expr(s)
                ctx.ob("release", fn + ": removes the established id from the " + ROLE_DESC[prole], render(e[2][0]) == "self." + pset and render(e[2][1]) == CID, s.loc(), render(e)[:160])
            got = lib.count_range(b, [0], rets, lib.bbs(rem))
            ctx.ob("release", fn + ": pending entry released on every path", got == (1, 1), where, "removes on all paths (bypass, denied, admitted): %s" % (got,))
        for f in SETS:
            if f != pset:
                ctx.ob("who", "%s does not touch the %s" % (fn, ROLE_DESC[ROLE_OF[f]]), not lib.field_mut_calls(b, f), where, "no &mut self.%s" % f)

    # ------------------------------------------------------------------ on_swarm_event
    ev, EV = R.ev, R.EV
    where = "%s:%d" % (ev.file, ev.line)
    rets = ev.return_blocks()

    def arm(name):
        ents = lib.arm_entry(ev, r"^discr\(%s\)$" % re.escape(EV), name)
        ctx.ob("arms", "floor:arm " + name, len(ents) == 1, where, str(ents), nontrivial=False)
        return ents[0] if ents else None

    est = arm("ConnectionEstablished")
    if est:
        reg = ev.reachable([est[1]])
        ins_in = [s for s in lm.self_field_calls(ev, F["EI"], r"HashSet::insert$") if s.bb in reg]
        ins_out = [s for s in lm.self_field_calls(ev, F["EO"], r"HashSet::insert$") if s.bb in reg]
        ins_pp = [s for s in lm.self_field_calls(ev, F["PP"], r"HashSet::insert$") if s.bb in reg]
        ctx.floor("established", "inbound insert", ins_in, 1, exact=True)
        ctx.floor("established", "outbound insert", ins_out, 1, exact=True)
        ctx.floor("established", "per-peer insert", ins_pp, 1, exact=True)
        for role, mine, theirs, sr in (("Listener", ins_in, ins_out, "EI"), ("Dialer", ins_out, ins_in, "EO")):
            edges = lib.switch_edges_on(ev, r"^discr\(%s@ConnectionEstablished\.0\.endpoint\)$" % re.escape(EV), {role})
            ctx.ob("established", "floor:%s edge" % role, len(edges) == 1, where, str(sorted(edges)), nontrivial=False)
            st = [t for _, t in edges]
            if st:
                got = lib.count_range(ev, st, rets, lib.bbs(mine))
                ctx.ob("established", "%s: inserted into the %s" % (role, ROLE_DESC[sr]), got == (1, 1), where, "inserts on the %s edge: %s" % (role, got))
                got = lib.count_range(ev, st, rets, lib.bbs(theirs))
                ctx.ob("established", "%s: not inserted into the other direction's set" % role, got == (0, 0), where, "inserts on the %s edge: %s" % (role, got))
        got = lib.count_range(ev, [est[1]], rets, lib.bbs(ins_pp))
        ctx.ob("established", "per-peer set extended on every path", got == (1, 1), where, "per-peer inserts in the arm: %s" % (got,))
        got = lib.count_range(ev, [est[1]], rets, lib.bbs(ins_in + ins_out))
        ctx.ob("established", "exactly one direction set extended on every path", got == (1, 1), where, "direction inserts in the arm: %s" % (got,))
        for s in ins_in + ins_out:
            e = ev.site_expr(s)
            ctx.ob("established", "the %s receives the event's connection id" % ROLE_DESC[ROLE_OF[lm.recv_self_field(e)]], render(e[2][1]) == "%s@ConnectionEstablished.0.connection_id" % EV, s.loc(), render(e)[:200])
        for s in ins_pp:
            e = ev.site_expr(s)
            r0 = render(e[2][0])
            ok = (r0 == "std::collections::hash_map::Entry::or_default(std::collections::HashMap::entry(self.%s, %s@ConnectionEstablished.0.peer_id))" % (F["PP"], EV)
                  and render(e[2][1]) == "%s@ConnectionEstablished.0.connection_id" % EV)
            ctx.ob("established", "per-peer insert is keyed by the event's peer and id (in-place extension)", ok, s.loc(), render(e)[:260])
    REMOVALS = {"ConnectionClosed": ["EI", "EO", "PP"], "DialFailure": ["PO"], "ListenFailure": ["PI"]}
    for name, roles in REMOVALS.items():
        a = arm(name)
        if not a:
            continue
        reg = ev.reachable([a[1]])
        for sr in roles:
            f = F[sr]
            rem = [s for s in lm.self_field_calls(ev, f, r"HashSet::remove$") if s.bb in reg]
            ctx.floor("release", "%s remove from the %s" % (name, ROLE_DESC[sr]), rem, 1, exact=True)
            got = lib.count_range(ev, [a[1]], rets, lib.bbs(rem))
            ctx.ob("release", "%s: removed from the %s on every path" % (name, ROLE_DESC[sr]), got == (1, 1), where, "removes in the arm: %s" % (got,))
            for s in rem:
                e = ev.site_expr(s)
                ok = render(e[2][1]) == "%s@%s.0.connection_id" % (EV, name)
                if sr == "PP":
                    ok = ok and re.search(r"HashMap::(entry|get_mut)\(self\.%s, %s@ConnectionClosed\.0\.peer_id\)" % (re.escape(f), re.escape(EV)), render(e[2][0])) is not None
                ctx.ob("release", "%s: removes the event's own id from the %s" % (name, ROLE_DESC[sr]), ok, s.loc(), render(e)[:240])
    # ------------------------------------------------------------------ who may mutate the sets, crate-wide
    ALLOWED = {
        ("handle_pending_inbound_connection", "PI", "insert"), ("handle_pending_outbound_connection", "PO", "insert"),
        ("handle_established_inbound_connection", "PI", "remove"), ("handle_established_outbound_connection", "PO", "remove"),
        ("on_swarm_event", "EI", "insert"), ("on_swarm_event", "EI", "remove"), ("on_swarm_event", "EO", "insert"), ("on_swarm_event", "EO", "remove"),
        ("on_swarm_event", "PP", "entry"), ("on_swarm_event", "PO", "remove"), ("on_swarm_event", "PI", "remove"),
    }
    found = set()
    sites = []
    for b in prog.bodies(CL):
        for f in SETS:
            for s in lib.field_mut_calls(b, f):
                found.add((b.npath.split("::")[-1] if b.kind != "closure" else b.npath, ROLE_OF[f], strip_generics(b.call_name(s.term)).split("::")[-1]))
                sites.append(s)
            for s in b.field_write_sites(f, r"libp2p_connection_limits::Behaviour"):
                found.add((b.npath, ROLE_OF[f], "assign"))
    ctx.floor("who", "mutating uses of the five sets", sites, 11)
    extra = found - ALLOWED
    ctx.ob("who", "mutators of the five sets", not extra, msg="unexpected mutation sites: %s" % sorted(extra) if extra else "%d mutation sites, all in the allow-table" % len(found))
    for sr, arms in (("PO", {"DialFailure"}), ("PI", {"ListenFailure"}), ("EI", {"ConnectionClosed"}), ("EO", {"ConnectionClosed"})):
        for s in lm.self_field_calls(ev, F[sr], r"HashSet::(remove|clear|retain|drain|take)$"):
            gs = [ls for (t, ls, _, c) in ev.guards_on_all_paths(s.bb) if t == "discr(%s)" % EV]
            ok = bool(gs) and all(set(ls) <= arms for ls in gs)
            ctx.ob("who", "removal from the %s only in %s" % (ROLE_DESC[sr], "/".join(sorted(arms))), ok, s.loc(), "arm labels on all paths: %s" % [sorted(x) for x in gs])
    for s in lm.self_field_calls(ev, F["PP"], r"HashSet::(remove|clear|retain|drain|take)$|HashMap::(remove|clear|retain|drain)$"):
        gs = [ls for (t, ls, _, c) in ev.guards_on_all_paths(s.bb) if t == "discr(%s)" % EV]
        ok = bool(gs) and all(set(ls) <= {"ConnectionClosed"} for ls in gs)
        ctx.ob("who", "removal from the per-peer map only in ConnectionClosed", ok, s.loc(), "arm labels on all paths: %s" % [sorted(x) for x in gs])
