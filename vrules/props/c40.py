"""C40 XOR metric identities and bucket index — operand origin (K5), typing (K12), constants (K6)."""
import re

from .. import lib, mir
from .. import lib_kad as lk
from ..mir import render, strip_generics
from ..lib_kad import R, K

EXPLANATION = (
    "The metric laws (identity, symmetry, triangle inequality, unidirectionality, for_distance inverse) are theorems of 256-bit XOR; what is checked "
    "is that the code *is* that XOR: KeyBytes::distance returns Distance(from_big_endian(self) ^ from_big_endian(other)) — one BitXor of exactly the "
    "two keys' 32 hash bytes, nothing else; for_distance returns to_big_endian(from_big_endian(self) ^ d.0) with the same byte order in both "
    "directions; Key::distance / for_distance delegate to the key bytes; U256 is [u64; 4], its BitXor is word-wise on equal indices over 0..4, its Ord "
    "compares from the most significant word, Distance's derived Ord/Eq delegate to it; key equality and hashing are on the hash bytes only (so "
    "distance 0 <=> equal keys); every Key constructor hashes the preimage with SHA-256. Bucket index: Distance::ilog2 = (256 - leading_zeros)"
    ".checked_sub(1) with 256 = 4*64 bits (None exactly for distance 0), BucketIndex::new = ilog2.map(BucketIndex) without offset, NUM_BUCKETS = 256, "
    "BucketIndex::range = [2^i, 2^(i+1)-1] (MAX for i = 255), KBucketRef::contains = (BucketIndex::new(d) == index).")
ASSUMPTIONS = ["u64 BitXor / leading_zeros, byteorder BigEndian read/write and SHA-256 (external) behave as specified",
               "the algebraic metric laws of XOR on fixed-width integers are taken as mathematics, not re-proved"]
TECHNIQUE = ("All patterns are evaluated on a normalised view of the MIR facts (vrules/lib_kad.canon): parameters by position, every "
             "single-definition local expanded to its initialiser, closure captures by index, trivial crate-local helpers (accessors, one-comparison "
             "predicates, one-line constructors) replaced by their bodies, private fields resolved by their type, comparisons normalised over operand "
             "order / mirrored operators / method-call form / `!`, guard sets closed under bool hoisting. Behaviour-preserving refactorings that must stay "
             "silent are archived in /verif/neutral/kad (01-12 and x1-author-combinators.diff).")
SELFTEST = [
    {"mutation": "KeyBytes::distance: `a ^ b` -> `a | b`", "caught_by": "xor/distance = Distance(be(self) ^ be(other))"},
    {"mutation": "KeyBytes::for_distance: from_big_endian -> from_little_endian", "caught_by": "xor/for_distance = be^-1(be(self) ^ d)"},
    {"mutation": "Distance::ilog2: checked_sub(1) -> checked_sub(2)", "caught_by": "index/ilog2 = (256 - leading_zeros).checked_sub(1)"},
    {"mutation": "BucketIndex::new closure: `i as usize` -> `i as usize + 1`", "caught_by": "index/BucketIndex::new wraps ilog2 unchanged"},
    {"mutation": "Key::eq compares preimage-independent bytes -> always true", "caught_by": "xor/key equality is equality of the hash bytes"},
]

KK = r"^libp2p_kad::kbucket::key::"
BE_SELF = "libp2p_kad::kbucket::key::U256::from_big_endian(sha2::digest::hybrid_array::Array::as_slice(self.0))"
BE_OTHER = "libp2p_kad::kbucket::key::U256::from_big_endian(sha2::digest::hybrid_array::Array::as_slice(std::convert::AsRef::as_ref(#2).0))"
XOR = "libp2p_kad::<kbucket::key::U256 as std::ops::BitXor>::bitxor"


def rets(b):
    return [R(b, s) for s in lk.ret_sites(b)]


def check(ctx):
    prog = lk.canon(ctx)
    kp = r"kbucket::key::Key$"
    BYTES = lk.fld(prog, kp, r"^kbucket::key::KeyBytes$")
    PRE = lk.fld(prog, kp, r"^T$")
    d = ctx.body(K, KK + r"KeyBytes::distance$")
    rs = rets(d)
    want = ["libp2p_kad::kbucket::key::Distance::Distance{0: %s(%s, %s)}" % (XOR, BE_SELF, BE_OTHER),
            "libp2p_kad::kbucket::key::Distance::Distance{0: %s(%s, %s)}" % (XOR, BE_OTHER, BE_SELF)]
    ctx.ob("xor", "distance = Distance(be(self) ^ be(other))", len(rs) == 1 and rs[0] in want, lk.where(d), str(rs)[:400])
    calls = sorted(strip_generics(d.call_name(s.term)).split("::")[-1] for s in d.call_sites())
    ctx.ob("xor", "distance performs nothing but 2 x as_slice, 2 x from_big_endian, as_ref, one bitxor", calls == ["as_ref", "as_slice", "as_slice", "bitxor", "from_big_endian", "from_big_endian"], lk.where(d), str(calls))
    ctx.ob("xor", "distance has a single path (no special cases)", not any(d.switch_info(bi) for bi in d.live), lk.where(d), "no branch")
    f = ctx.body(K, KK + r"KeyBytes::for_distance$")
    rs = rets(f)
    inner = ["%s(%s, #2.0)" % (XOR, BE_SELF), "%s(#2.0, %s)" % (XOR, BE_SELF)]
    want = ["libp2p_kad::kbucket::key::KeyBytes::KeyBytes{0: <sha2::digest::hybrid_array::Array as std::convert::From>::from(libp2p_kad::kbucket::key::U256::to_big_endian(%s))}" % i for i in inner]
    mir.RENDER_MAX[0] = 30
    rs = rets(f)
    mir.RENDER_MAX[0] = 14
    ctx.ob("xor", "for_distance = be^-1(be(self) ^ d)", len(rs) == 1 and rs[0] in want, lk.where(f), str(rs)[:400])
    ctx.ob("xor", "for_distance has a single path", not any(f.switch_info(bi) for bi in f.live), lk.where(f), "no branch")
    names = {strip_generics(b.call_name(s.term)).split("::")[-1] for b in (d, f) for s in b.call_sites()}
    ctx.ob("xor", "same byte order in both directions", "from_big_endian" in names and "to_big_endian" in names and not (names & {"from_little_endian", "to_little_endian"}), msg=str(sorted(names)))
    kd = ctx.body(K, KK + r"Key::distance$")
    ctx.ob("xor", "Key::distance delegates to its hash bytes", rets(kd) == ["libp2p_kad::kbucket::key::KeyBytes::distance(self.%s, #2)" % BYTES], lk.where(kd), str(rets(kd)))
    kf = ctx.body(K, KK + r"Key::for_distance$")
    ctx.ob("xor", "Key::for_distance delegates to its hash bytes", rets(kf) == ["libp2p_kad::kbucket::key::KeyBytes::for_distance(self.%s, #2)" % BYTES], lk.where(kf), str(rets(kf)))
    ar = ctx.body(K, r"kbucket::key::Key as std::convert::AsRef>::as_ref$")
    ctx.ob("xor", "Key as AsRef<KeyBytes> = its hash bytes", rets(ar) == ["self.%s" % BYTES], lk.where(ar), str(rets(ar)))
    ar = ctx.body(K, r"kbucket::key::KeyBytes as std::convert::AsRef>::as_ref$")
    ctx.ob("xor", "KeyBytes as AsRef<KeyBytes> = itself", rets(ar) == ["self"], lk.where(ar), str(rets(ar)))
    fk = ctx.body(K, r"kbucket::key::KeyBytes as std::convert::From>::from$")
    ctx.ob("xor", "KeyBytes::from(Key) = its hash bytes", rets(fk) == ["#1.%s" % BYTES], lk.where(fk), str(rets(fk)))
    eq = ctx.body(K, r"kbucket::key::Key as std::cmp::PartialEq>::eq$")
    ctx.ob("xor", "key equality is equality of the hash bytes", rets(eq) in (["libp2p_kad::<kbucket::key::KeyBytes as std::cmp::PartialEq>::eq(self.%s, #2.%s)" % (BYTES, BYTES)], ["<sha2::digest::hybrid_array::Array as std::cmp::PartialEq>::eq(self.%s.0, #2.%s.0)" % (BYTES, BYTES)]), lk.where(eq), str(rets(eq)))
    kbe = ctx.body(K, r"kbucket::key::KeyBytes as std::cmp::PartialEq>::eq$")
    ctx.ob("xor", "KeyBytes equality compares the 32 bytes", len(rets(kbe)) == 1 and re.match(r"^<?[\w:<> ]*PartialEq>?::eq\(self\.0, #2\.0\)$", rets(kbe)[0]) is not None, lk.where(kbe), str(rets(kbe)))
    hs = ctx.body(K, r"kbucket::key::Key as std::hash::Hash>::hash$")
    hc = [R(hs, s) for s in hs.call_sites()]
    ctx.ob("xor", "key hashing uses the hash bytes only", hc == ["<sha2::digest::hybrid_array::Array as std::hash::Hash>::hash(self.%s.0, #2)" % BYTES], lk.where(hs), str(hc))
    # constructors
    ctors = prog.find(K, r"kbucket::key::Key as std::convert::From>::from$")
    ctx.floor("xor", "Key::from impls", ctors, 4)
    n_hash = 0
    for b in ctors:
        rs = rets(b)
        ok = len(rs) == 1 and (re.match(r"^libp2p_kad::kbucket::key::Key::Key\{%s: #1, %s: libp2p_kad::kbucket::key::KeyBytes::KeyBytes\{0: <D as sha2::Digest>::digest\((libp2p_core::multihash::Multihash|libp2p_core::PeerId)::to_bytes\(#1\)\)\}\}$" % (PRE, BYTES), rs[0])
                               or re.match(r"^libp2p_kad::kbucket::key::Key::new\(#1\)$", rs[0]))
        n_hash += bool(ok)
        ctx.ob("xor", "Key::from hashes the bytes of its own preimage", bool(ok), lk.where(b), str(rs)[:240])
    kn = ctx.body(K, KK + r"Key::new$")
    ctx.ob("xor", "Key::new hashes the bytes of its own preimage", rets(kn) in (["libp2p_kad::kbucket::key::Key::Key{%s: #1, %s: libp2p_kad::kbucket::key::KeyBytes::new(std::borrow::Borrow::borrow(#1))}" % (PRE, BYTES)], ["libp2p_kad::kbucket::key::Key::Key{%s: #1, %s: libp2p_kad::kbucket::key::KeyBytes::KeyBytes{0: <D as sha2::Digest>::digest(std::borrow::Borrow::borrow(#1))}}" % (PRE, BYTES)]), lk.where(kn), str(rets(kn))[:240])
    kbn = ctx.body(K, KK + r"KeyBytes::new$")
    ctx.ob("xor", "KeyBytes::new = SHA-256 digest of the value", rets(kbn) == ["libp2p_kad::kbucket::key::KeyBytes::KeyBytes{0: <D as sha2::Digest>::digest(std::borrow::Borrow::borrow(#1))}"], lk.where(kbn), str(rets(kbn)))
    who = sorted({b.npath for b in prog.bodies(K) for s in b.agg_sites(r"kbucket::key::Key$")})
    ctx.ob("xor", "Key{preimage, bytes} built only by Key::new / From / Clone", all(re.search(r"kbucket::key::Key(::new| as std::convert::From>::from| as std::clone::Clone>::clone)$", w) for w in who) and bool(who), msg=str(who))
    # U256
    a = prog.adt(K, r"kbucket::key::U256$")
    ctx.ob("u256", "U256 is [u64; 4] (256 bits)", [f["ty"] for f in a["variants"][0]["fields"]] == ["[u64; 4]"], msg=str(a["variants"][0]["fields"]))
    a = prog.adt(K, r"kbucket::key::Distance$")
    ctx.ob("u256", "Distance wraps one U256", [f["ty"] for f in a["variants"][0]["fields"]] == ["kbucket::key::U256"], msg=str(a["variants"][0]["fields"]))
    bx = ctx.body(K, r"kbucket::key::U256 as std::ops::BitXor>::bitxor$")
    stores = [s for s in bx.stmt_sites(lambda st: st["k"] == "assign" and any(pr["k"] == "index" for pr in st["p"].get("pr", ())))]
    m_ = re.match(r"^BitXor\(self\.0\[(.*)\], #2\.0\[(.*)\]\)$", R(bx, stores[0])) if len(stores) == 1 else None
    ok = m_ is not None and m_.group(1) == m_.group(2) and m_.group(1).endswith("@Some.0") and "Range{start: 0, end: 4}" in m_.group(1)
    ctx.ob("u256", "U256 ^ is word-wise XOR of equal word indices", ok, lk.where(bx), str([R(bx, s) for s in stores]))
    if stores:
        st = stores[0].stmt
        ix = [pr for pr in st["p"]["pr"] if pr["k"] == "index"][0]["l"]
        ctx.ob("u256", "U256 ^ stores word i into word i", m_ is not None and render(bx.local_expr(ix)) == m_.group(1), stores[0].loc(), render(bx.local_expr(ix)))
    t = " ".join(R(bx, s) for s in bx.call_sites())
    ctx.ob("u256", "U256 ^ covers all 4 words", "std::ops::Range::Range{start: 0, end: 4}" in t, lk.where(bx), t[:160])
    oc = ctx.body(K, r"kbucket::key::U256 as std::cmp::Ord>::cmp$")
    rs = rets(oc)
    AS = "libp2p_kad::<kbucket::key::U256 as std::convert::AsRef>::as_ref"
    ok = rs in (["std::iter::Iterator::cmp(std::iter::Iterator::rev(core::slice::iter(%s(self))), std::iter::Iterator::rev(core::slice::iter(%s(#2))))" % (AS, AS)],
                ["std::iter::Iterator::cmp(std::iter::Iterator::rev(core::slice::iter(self.0)), std::iter::Iterator::rev(core::slice::iter(#2.0)))"])
    asr = ctx.body(K, r"kbucket::key::U256 as std::convert::AsRef>::as_ref$")
    ctx.ob("u256", "U256 as AsRef<[u64]> exposes its words", rets(asr) == ["self.0"], lk.where(asr), str(rets(asr)))
    ctx.ob("u256", "U256 ordering compares words from the most significant, self first", ok, lk.where(oc), str(rs)[:300])
    dc = ctx.body(K, r"kbucket::key::Distance as std::cmp::Ord>::cmp$")
    ctx.ob("u256", "Distance ordering = ordering of its integer", rets(dc) == ["libp2p_kad::<kbucket::key::U256 as std::cmp::Ord>::cmp(self.0, #2.0)"], lk.where(dc), str(rets(dc)))
    de = ctx.body(K, r"kbucket::key::Distance as std::cmp::PartialEq>::eq$")
    ctx.ob("u256", "Distance equality = equality of its integer", rets(de) in (["libp2p_kad::<kbucket::key::U256 as std::cmp::PartialEq>::eq(self.0, #2.0)"], ["std::array::equality::eq(self.0.0, #2.0.0)"]), lk.where(de), str(rets(de)))
    dd = ctx.body(K, r"kbucket::key::Distance as std::default::Default>::default$")
    ctx.ob("u256", "Distance::default is the zero distance", rets(dd) in (["libp2p_kad::kbucket::key::Distance::Distance{0: libp2p_kad::<kbucket::key::U256 as std::default::Default>::default()}"], ["libp2p_kad::kbucket::key::Distance::Distance{0: libp2p_kad::kbucket::key::U256::zero()}"], ["libp2p_kad::kbucket::key::Distance::Distance{0: libp2p_kad::kbucket::key::U256::U256{0: repeat{0: 0}}}"]), lk.where(dd), str(rets(dd)))
    lz = ctx.body(K, KK + r"U256::leading_zeros$")
    t = " ".join(R(lz, s) for s in lz.call_sites())
    words = [render(lz.switch_info(bi)[0]) for bi in lz.live if lz.switch_info(bi) and render(lz.switch_info(bi)[0]).startswith("Eq(self.0[")]
    ok = len(words) == 1 and re.match(r"^Eq\(self\.0\[SubWithOverflow\(SubWithOverflow\(4, .*Range\{start: 0, end: 4\}.*@Some\.0\)\.0, 1\)\.0\], 0\)$", words[0]) is not None
    rl = lz.site_expr(lk.ret_sites(lz)[0]) if len(lk.ret_sites(lz)) == 1 else ("unknown", "?")
    acc = sorted(render(lz.rvalue_expr(x[3])) for x in lz.defs.get(rl[1], []) if x[0] == "stmt") if rl[0] == "local" else []
    nm = render(rl)
    ctx.ob("u256", "leading_zeros scans words 3..0 (most significant first), +64 per zero word", ok and acc[:2] == ["0", "AddWithOverflow(%s, 64).0" % nm] and len(acc) == 3 and acc[2].startswith("AddWithOverflow(%s, core::num::leading_zeros(self.0[" % nm), lk.where(lz), "%s %s" % (words, acc))
    bt = ctx.body(K, KK + r"U256::bit$")
    ctx.ob("u256", "bit(i) tests bit i%64 of word i/64", rets(bt) == ["Ne(BitAnd(self.0[Div(#2, 64)], Shl(1, Rem(#2, 64))), 0)"], lk.where(bt), str(rets(bt)))
    # ---- index
    il = ctx.body(K, KK + r"Distance::ilog2$")
    rs = rets(il)
    ok = rs in (["core::num::checked_sub(SubWithOverflow(256, libp2p_kad::kbucket::key::U256::leading_zeros(self.0)).0, 1)"],
                ["core::num::checked_sub(libp2p_kad::kbucket::key::U256::bits(self.0), 1)"],
                ["core::num::checked_sub(Sub(256, libp2p_kad::kbucket::key::U256::leading_zeros(self.0)), 1)"])
    ctx.ob("index", "ilog2 = (256 - leading_zeros).checked_sub(1)", ok, lk.where(il), str(rs))
    nb = prog.const(K, r"^libp2p_kad::kbucket::NUM_BUCKETS$").get("v")
    ctx.ob("index", "NUM_BUCKETS = 256 = bit width of the distance", nb == 256, msg=str(nb))
    bn = ctx.body(K, r"^libp2p_kad::kbucket::BucketIndex::new$")
    rs = rets(bn)
    ctx.ob("index", "BucketIndex::new = ilog2(d).map(..)", len(rs) == 1 and re.match(r"^std::option::Option::map\(libp2p_kad::kbucket::key::Distance::ilog2\(#1\), closure:[^\[]*\[\]\)$", rs[0]) is not None, lk.where(bn), str(rs))
    cls = [c for c in prog.bodies(K) if c.kind == "closure" and lk.root_fn(prog, c) is bn]
    rs = [R(c, s) for c in cls for s in lk.ret_sites(c)]
    ctx.ob("index", "BucketIndex::new wraps ilog2 unchanged", rs == ["libp2p_kad::kbucket::BucketIndex::BucketIndex{0: (#2 as usize)}"], lk.where(bn), str(rs))
    g = ctx.body(K, r"^libp2p_kad::kbucket::BucketIndex::get$")
    ctx.ob("index", "BucketIndex::get returns the index unchanged", rets(g) == ["self.0"], lk.where(g), str(rets(g)))
    ct = ctx.body(K, r"^libp2p_kad::kbucket::KBucketRef::contains$")
    rs = rets(ct)
    ctx.ob("index", "KBucketRef::contains(d) = BucketIndex::new(d) is this bucket's index", len(rs) == 1 and rs[0].startswith("std::option::Option::is_some_and(libp2p_kad::kbucket::BucketIndex::new(#2), closure:") and rs[0].endswith("[self])"), lk.where(ct), str(rs)[:200])
    ccs = [c for c in prog.bodies(K) if c.kind == "closure" and lk.root_fn(prog, c) is ct]
    es = [c.site_expr(s) for c in ccs for s in lk.ret_sites(c)]
    IDXF = lk.fld(prog, r"kbucket::KBucketRef$", r"BucketIndex$")
    ok = len(es) == 1 and lk.cmp_norm(es[0], r"^#2(\.0)?$", r"^\^0\.%s(\.0)?$" % IDXF) == "Eq"
    ctx.ob("index", "contains compares with the bucket's own index", ok, lk.where(ct), str([render(e) for e in es]))
    rg = ctx.body(K, r"^libp2p_kad::kbucket::BucketIndex::range$")
    mir.RENDER_MAX[0] = 30
    rs = {}
    for s in lk.ret_sites(rg):
        gs = {g[0]: sorted(g[1]) for g in rg.guards_on_all_paths(s.bb)}
        rs[str(gs.get("Eq(self.0, std::convert::num::from(const:core::num::<impl u8>::MAX))"))] = R(rg, s)
    mir.RENDER_MAX[0] = 14
    F = "libp2p_kad::<kbucket::key::U256 as std::convert::From>::from"
    P = "libp2p_kad::kbucket::key::U256::pow"
    D = "libp2p_kad::kbucket::key::Distance::Distance"
    mn = "%s{0: %s(%s(2), %s(self.0))}" % (D, P, F, F)
    mx = "%s{0: libp2p_kad::<kbucket::key::U256 as std::ops::Sub>::sub(%s(%s(2), %s(AddWithOverflow(self.0, 1).0)), 1)}" % (D, P, F, F)
    ok = rs.get("['false']") == "tuple{0: %s, 1: %s}" % (mn, mx) and (rs.get("['true']") or "").startswith("tuple{0: %s, 1: %s{0: const:" % (mn, D)) and "MAX" in (rs.get("['true']") or "")
    ctx.ob("index", "BucketIndex::range = [2^i, 2^(i+1) - 1], upper end U256::MAX for i = 255", ok, lk.where(rg), str(rs)[:500])

# thorough-tier sensitivity self-test (vrules/selftest.py): one-edit variants of the source that break the property
MUTANTS = [
    {"name": 'distance uses |', "file": 'protocols/kad/src/kbucket/key.rs',
     "find": '        Distance(a ^ b)',
     "replace": '        Distance(a | b)',
     "expect": '^xor/distance = Distance', "why": 'not a metric'},
    {"name": 'ilog2 off by one', "file": 'protocols/kad/src/kbucket/key.rs',
     "find": '(256 - self.0.leading_zeros()).checked_sub(1)',
     "replace": '(256 - self.0.leading_zeros()).checked_sub(2)',
     "expect": '^index/ilog2', "why": 'wrong bucket'},
    {"name": 'BucketIndex + 1', "file": 'protocols/kad/src/kbucket.rs',
     "find": 'd.ilog2().map(|i| BucketIndex(i as usize))',
     "replace": 'd.ilog2().map(|i| BucketIndex(i as usize + 1))',
     "expect": '^index/BucketIndex::new wraps', "why": 'wrong bucket'},
    {"name": 'for_distance little endian', "file": 'protocols/kad/src/kbucket/key.rs',
     "find": '        let key_int = U256::from_big_endian(self.0.as_slice()) ^ d.0;',
     "replace": '        let key_int = U256::from_little_endian(self.0.as_slice()) ^ d.0;',
     "expect": '^xor/for_distance', "why": 'for_distance no longer inverts distance'},
]
