"""C26 mplex enforces its substream and buffer limits without losing data — who-inserts (K4), limit guards (K9), path counting (K2), guards (K1), variant tables (K7)."""
import re

from .. import lib, lib_mux, mir
from ..mir import render
from ..lib_mux import MP

EXPLANATION = (
    "Substream limit: every `self.substreams.insert` in the crate is enumerated; each is either a re-insert under a key whose entry was just "
    "taken out of the map (`remove(&k)`/`get_mut(&k)` returned Some for the same key on every path) or a new-key insert dominated by the "
    "`substreams.len() < max_substreams` edge; whole-field writes only clear the map. on_open: on the at-limit edge every non-error path "
    "queues exactly one Frame::Reset for the refused id, inserts nothing and returns Ok(None); below the limit it inserts an Open state under "
    "the id it returns; a duplicate Open is an error. poll_open_stream: at the limit it returns Pending without sending or inserting. "
    "Buffer limit: in `buffer` the only push goes into the buffer handed out by recv_buf_open (Some only for Open/SendClosed) of the "
    "addressed substream and is followed on every path by the `len > max_buffer_len` test on that same buffer; on the overflow edge the "
    "MaxBufferBehaviour match either records blocking_stream = Some(id) (Block) or (ResetStream) replaces the state by Reset{buf: same "
    "buffer} and queues one Frame::Reset{id}. Block: poll_read_frame polls the socket only on the blocking_stream == None edge and returns "
    "Pending otherwise; blocking_stream is cleared only on the `blocking_stream == Some(id)` edge and only where space in that very substream's "
    "buffer is then freed (a frame is removed from it, or drop_stream releases the whole entry), and every function that releases a "
    "substreams entry for good performs that test (otherwise the block could never be cleared again). No loss: `buffer` returns without pushing only on the unknown-substream / not-open-for-reading edges; every "
    "Data arm of the two frame loops either hands the frame to `buffer` exactly once or returns it to the reader.")
ASSUMPTIONS = ["liveness of blocked readers / wake-ups is not decided",
               "run-time counting over histories is not executed: the bounds follow from the per-path guards by induction",
               "HashMap / SmallVec / VecDeque semantics are trusted"]

SELFTEST = [
    {"mutation": "seeded/C26: poll_read_stream `self.blocking_stream == Some(id)` -> `self.blocking_stream.is_some()`",
     "caught_by": "block/blocking_stream cleared only on `blocking_stream == Some(<this substream>)`"},
    {"mutation": "on_open: `self.substreams.len() >= max_substreams` -> `>`", "caught_by": "substreams/new-key insert only below max_substreams (on_open)"},
    {"mutation": "poll_open_stream: limit test deleted", "caught_by": "substreams/new-key insert only below max_substreams (poll_open_stream)"},
    {"mutation": "on_open: over-limit path returns Ok(None) without queuing the Reset frame", "caught_by": "on_open/over the limit: exactly one Reset frame is queued"},
    {"mutation": "buffer: `buf.len() > max_buffer_len` -> `buf.len() > max_buffer_len + 1`", "caught_by": "buffer/overflow test is `len > max_buffer_len` on the pushed buffer"},
    {"mutation": "buffer: Block arm does not set blocking_stream", "caught_by": "buffer/Block: overflow records the blocking stream"},
    {"mutation": "buffer: ResetStream arm keeps the state (no insert of Reset)", "caught_by": "buffer/ResetStream: state replaced by Reset exactly once"},
    {"mutation": "poll_read_frame: blocked branch falls through instead of returning Pending", "caught_by": "block/socket polled only while no stream blocks"},
    {"mutation": "recv_buf_open: RecvClosed => Some(buf)", "caught_by": "buffer/recv_buf_open hands out a buffer exactly for Open and SendClosed"},
    {"mutation": "poll_next_stream: Data arm drops the frame (no buffer call)", "caught_by": "no-loss/poll_next_stream: Data frame buffered exactly once"},
    {"mutation": "on_close: SendClosed arm inserts under a fresh key (id.next())", "caught_by": "substreams/new-key insert only below max_substreams (on_close) + floor:new-key inserts"},
    {"mutation": "poll_read_stream: fast path returns buf[0].clone() without removing it", "caught_by": "block/unblocking is always followed by freeing space in that substream's buffer"},
    {"mutation": "(pre-fix code) drop_stream does not clear blocking_stream when the dropped substream is the blocking one", "caught_by": "block/releasing a substream's entry also releases the block it may hold (drop_stream)"},
    {"mutation": "(neutral, must stay silent) /verif/neutral/mux: 03/04/05.diff (renames, hoisted lets, early return with mirrored `<=`), renamed buffer() parameters, `!(len < max)` in on_open", "caught_by": "silent"},
]


def check(ctx):
    lib_mux.canon_roles(ctx.prog, 'libp2p_mplex')
    prog = ctx.prog
    old = mir.RENDER_MAX[0]
    mir.RENDER_MAX[0] = 40
    try:
        _check(ctx, prog)
    finally:
        mir.RENDER_MAX[0] = old


LEN = r"^std::collections::HashMap::len\(self\.substreams\)$"
MAXS = r"^self\.config\.max_substreams$"


def _check(ctx, prog):
    lib_mux.canon_io(prog)
    # ------------------------------------------------------------------ who inserts into `substreams`
    ins = []
    for b in prog.bodies(MP):
        for s, key, val in lib_mux.substream_inserts(b):
            ins.append((b, s, key, val))
    ctx.floor("substreams", "substreams.insert sites in the crate", ins, 15)
    newkey = []
    for b, s, key, val in ins:
        ctx.use(b)
        fn = b.short.split("::")[-1]
        taken = b.guard_edges(lambda c, r, l, key=key: l == "Some" and r in ("discr(std::collections::HashMap::remove(self.substreams, %s))" % key,
                                                                             "discr(std::collections::HashMap::get_mut(self.substreams, %s))" % key))
        if taken and b.must_pass_edges(s.bb, taken):
            ctx.ob("substreams", "re-insert uses the removed key (%s)" % fn, True, s.loc(), "entry for `%s` was taken out / borrowed on every path to this insert" % key[-60:])
            continue
        newkey.append((b, s, key, val))
        lib.limit_guard(ctx, "substreams", "new-key insert only below max_substreams (%s)" % fn, s, LEN, MAXS, "substreams.len() < max_substreams for key `%s`" % key[-50:])
        v = render(val)
        bufx = dict(val[4]).get("buf") if val[0] == "agg" and val[3] == "Open" else None
        ctx.ob("substreams", "new substream starts Open with an empty buffer (%s)" % fn,
               bufx is not None and bufx[0] == "call" and not bufx[2] and re.search(r"::(default|new)$", mir.strip_generics(bufx[1])) is not None, s.loc(), v[-110:])
        # the limit is tested against the live map once per insert: no second insert between the test and this one
        good, _ = lib.strict_limit_edges(b, LEN, MAXS)
        for (tb, tt) in good:
            between = b.reachable([tt], stop_nodes=[s.bb]) - {s.bb}
            other = [x for x, _, _ in lib_mux.substream_inserts(b) if x.bb in between and s.bb in b.reachable([x.bb])]
            ctx.ob("substreams", "one insert per limit test (%s)" % fn, not other, s.loc(), "%d other insert(s) between the test and this insert" % len(other))
    ctx.ob("substreams", "floor:new-key inserts", len(newkey) == 2 and {b.short.split("::")[-1] for b, _, _, _ in newkey} == {"on_open", "poll_open_stream"}, nontrivial=False,
           msg="new-key inserts in %s" % sorted(b.short.split("::")[-1] for b, _, _, _ in newkey))
    for b in prog.bodies(MP):
        for s in b.field_write_sites("substreams"):
            if s.si is None:
                continue
            r = render(b.site_expr(s))
            ctx.ob("substreams", "whole-map writes only clear it (%s)" % b.short.split("::")[-1], re.match(r"^(<std::collections::HashMap as std::default::Default>::default|std::collections::HashMap::new|std::collections::HashMap::default|std::collections::HashMap::with_hasher)\(", r) is not None, s.loc(), r[:100])

    # ------------------------------------------------------------------ on_open
    oo = lib_mux.io_body(ctx, "on_open")
    z = lib_mux.zero_assigns(oo)
    ok_none = [b for b, r in z.items() if r == "std::result::Result::Ok{0: std::option::Option::None{}}"]
    ok_some = [b for b, r in z.items() if r.startswith("std::result::Result::Ok{0: std::option::Option::Some{0: ")]
    ctx.floor("on_open", "Ok(None) / Ok(Some) results", ok_none + ok_some, 2)
    at = lib.at_limit_edges(oo, LEN, MAXS)
    ctx.floor("on_open", "at-limit edge", sorted(at), 1, exact=True)
    oins = lib_mux.substream_inserts(oo)
    resets = [s for s in oo.call_sites(r"VecDeque::push_front$") if render(oo.site_expr(s)[2][0]) == "self.pending_frames"]
    for (tb, tt) in at:
        lib.expect_count(ctx, "on_open", "over the limit: exactly one Reset frame is queued", oo, [tt], ok_none, lib.bbs(resets), (1, 1), "pending_frames.push_front(Frame::Reset) before Ok(None)")
        reach = oo.reachable([tt])
        ctx.ob("on_open", "over the limit: nothing is inserted and no id is returned", not (reach & (set(lib.bbs([s for s, _, _ in oins])) | set(ok_some))), "%s:%d" % (oo.file, oo.line),
               "insert / Ok(Some) reachable from the at-limit edge: %s" % sorted(reach & (set(lib.bbs([s for s, _, _ in oins])) | set(ok_some))))
        ends = [b for b in z if b in reach]
        ctx.ob("on_open", "over the limit: the only outcomes are Ok(None) or the pending-frames error", all(z[b] == "std::result::Result::Ok{0: std::option::Option::None{}}" or lib_mux.is_err_result(z[b]) for b in ends) and bool(ends),
               "%s:%d" % (oo.file, oo.line), str(sorted({z[b][:60] for b in ends})))
    for s in resets:
        r = render(oo.site_expr(s)[2][1])
        ctx.ob("on_open", "the queued Reset names the refused substream", r == "libp2p_mplex::codec::Frame::Reset{stream_id: libp2p_mplex::codec::RemoteStreamId::into_local(id)}", s.loc(), r)
    for s, key, val in oins:
        ctx.ob("on_open", "inserted key is the local id of the received Open", key == "libp2p_mplex::codec::RemoteStreamId::into_local(id)", s.loc(), key)
        ctx.guarded("on_open", "insert only for an id not yet in use", s, lambda c, r, l: l == "false" and r == "std::collections::HashMap::contains_key(self.substreams, libp2p_mplex::codec::RemoteStreamId::into_local(id))", "!substreams.contains_key(&id)")
    for b in ok_some:
        ctx.ob("on_open", "Ok(Some(id)) returns the inserted id", z[b] == "std::result::Result::Ok{0: std::option::Option::Some{0: libp2p_mplex::codec::RemoteStreamId::into_local(id)}}", "%s:%d" % (oo.file, oo.line), z[b][-80:])
        ok = bool(oins) and oo.must_pass_nodes([0], [b], lib.bbs([s for s, _, _ in oins]))
        ctx.ob("on_open", "Ok(Some(id)) only after the insert", ok, "%s:%d" % (oo.file, oo.line), "every path to Ok(Some) passes substreams.insert")
    dup = lib.arm_entry(oo, r"^std::collections::HashMap::contains_key\(self\.substreams, ", "true")
    for _, t in dup:
        ends = [b for b in z if b in oo.reachable([t])]
        ctx.ob("on_open", "duplicate Open is a connection error", bool(ends) and all(lib_mux.is_err_result(z[b]) for b in ends), "%s:%d" % (oo.file, oo.line), str([z[b] for b in ends]))

    # ------------------------------------------------------------------ poll_open_stream at the limit
    po = lib_mux.io_body(ctx, "poll_open_stream")
    zp = lib_mux.zero_assigns(po)
    at = lib.at_limit_edges(po, LEN, MAXS)
    ctx.floor("open", "poll_open_stream at-limit edge", sorted(at), 1, exact=True)
    for (tb, tt) in at:
        reach = po.reachable([tt])
        eff = [s for s in po.call_sites(r"start_send_unpin$|HashMap::insert$|next_outbound_stream_id$") if s.bb in reach]
        ends = [zp[b] for b in zp if b in reach]
        ctx.ob("open", "at the limit: Pending, nothing sent or inserted", not eff and ends == ["std::task::Poll::Pending{}"], "%s:%d" % (po.file, po.line), "effects %d, results %s" % (len(eff), ends))
        ctx.ob("open", "at the limit: the task is registered for wake-up", any(s.bb in reach for s in po.call_sites(r"NotifierOpen::register$")), "%s:%d" % (po.file, po.line), "notifier_open.register on the at-limit path")
    for s, key, val in lib_mux.substream_inserts(po):
        ctx.guarded("open", "outbound substream registered only after its Open frame was accepted", s, lambda c, r, l: l == "Ok" and r.startswith("discr(futures::SinkExt::start_send_unpin(self.io, libp2p_mplex::codec::Frame::Open{stream_id: %s})" % key), "start_send(Open{id}) is Ok")

    # ------------------------------------------------------------------ buffer()
    bf = lib_mux.io_body(ctx, "buffer")
    zb = lib_mux.zero_assigns(bf)
    BUF0 = "libp2p_mplex::io::SubstreamState::recv_buf_open(std::collections::HashMap::get_mut(self.substreams, id)@Some.0)@Some.0"
    pushes = bf.call_sites(r"SmallVec::push$|SmallVec::insert$|SmallVec::extend")
    ctx.floor("buffer", "push into a receive buffer", pushes, 1, exact=True)
    BUF = render(bf.site_expr(pushes[0])[2][0]) if pushes else BUF0
    wb = "%s:%d" % (bf.file, bf.line)
    # the overflow test, in any polarity / operand order / one helper level: relation of `pushed_buf.len()` to max_buffer_len
    trel = lib_mux.rel_edges(bf, lambda e: render(e) == "smallvec::SmallVec::len(%s)" % BUF, lambda e: render(e) == "self.config.max_buffer_len", prog)
    after_push = bf.reachable([x for p_ in pushes for x in bf.succ[p_.bb]])
    trel = [x for x in trel if x["switch"] in after_push]          # (a debug assertion before the push tests the same quantity)
    tests = sorted({x["switch"] for x in trel})
    ctx.floor("buffer", "`buf.len() > max_buffer_len` test", tests, 1, exact=True)
    over_e = lib_mux.edges_with(trel, {"gt", "ge"})
    rels = sorted({x["rel"] for x in trel})
    ok_ret = [b for b, r in zb.items() if r == "std::result::Result::Ok{0: tuple{}}"]
    for s in pushes:
        e = bf.site_expr(s)
        ctx.ob("buffer", "frame is pushed into the addressed substream's open receive buffer", render(e[2][0]) == BUF0 and render(e[2][1]) == "data", s.loc(), "%s <- %s" % (render(e[2][0])[-70:], render(e[2][1])))
        if tests:
            tbb = tests[0]
            ctx.ob("buffer", "overflow test is `len > max_buffer_len` on the pushed buffer", bool(over_e) and set(rels) in ({"gt", "le"}, {"ge", "lt"}), mir.Site(bf, tbb).loc(), "relations on the edges of the test: %s" % rels)
            ctx.passes("buffer", "every push is followed by the overflow test", bf, bf.succ[s.bb], bf.return_blocks(), [tbb], "`buf.len() > max_buffer_len` after push", s.loc())
            ctx.ob("buffer", "the test comes after the push", s.bb in bf.reachable([0], blocked_nodes=[tbb]) and tbb in bf.reachable(bf.succ[s.bb]), s.loc(), "push precedes the test")
    if tests:
        tbb = tests[0]
        over = sorted({t for (_, t) in over_e})
        msw = [bi for bi in sorted(bf.live) if bf.switch_info(bi) and render(bf.switch_info(bi)[0]) == "discr(self.config.max_buffer_behaviour)"]
        ctx.floor("buffer", "MaxBufferBehaviour match", msw, 1, exact=True)
        ok = bool(over) and bool(msw) and bf.must_pass_nodes(over, bf.return_blocks(), msw)
        ctx.ob("buffer", "overflow is always handled by the MaxBufferBehaviour match", ok, wb, "every path from the overflow edge to return passes the match")
        if msw:
            arms = {l: t for t, ls in bf.switch_info(msw[0])[1].items() for l in ls}
            ctx.ob("buffer", "MaxBufferBehaviour arms", set(arms) == {"Block", "ResetStream"}, wb, str(sorted(arms)))
            bs = [s for s in bf.field_write_sites("blocking_stream") if s.si is not None]
            if "Block" in arms:
                lib.expect_count(ctx, "buffer", "Block: overflow records the blocking stream", bf, [arms["Block"]], ok_ret, lib.bbs(bs), (1, 1), "blocking_stream = Some(id)")
                reach = bf.reachable([arms["Block"]])
                lost = [x for x in bf.call_sites(r"HashMap::insert$|HashMap::remove$|SmallVec::(clear|truncate|pop|remove|drain)$") if x.bb in reach]
                ctx.ob("buffer", "Block: the buffered frames are kept", not lost, wb, "%d state/buffer mutation(s) on the Block arm" % len(lost))
            for s in bs:
                r = render(bf.site_expr(s))
                ctx.ob("buffer", "the blocking stream is the overflowing one", r == "std::option::Option::Some{0: id}", s.loc(), r)
                ctx.ob("buffer", "blocking only on overflow under Block", bf.must_pass_edges(s.bb, over_e) and bf.must_pass_edges(s.bb, {(msw[0], arms.get("Block"))}), s.loc(), "dominated by the overflow edge and the Block arm")
            if "ResetStream" in arms:
                rins = lib_mux.substream_inserts(bf)
                rfr = [s for s in bf.call_sites(r"VecDeque::push_front$") if render(bf.site_expr(s)[2][0]) == "self.pending_frames"]
                lib.expect_count(ctx, "buffer", "ResetStream: state replaced by Reset exactly once", bf, [arms["ResetStream"]], ok_ret, lib.bbs([s for s, _, _ in rins]), (1, 1), "substreams.insert(id, Reset{..})")
                lib.expect_count(ctx, "buffer", "ResetStream: one Reset frame queued", bf, [arms["ResetStream"]], ok_ret, lib.bbs(rfr), (1, 1), "pending_frames.push_front(Frame::Reset{id})")
                for s, key, val in rins:
                    v = render(val)
                    ctx.ob("buffer", "ResetStream: the overflowing substream becomes Reset and keeps its buffered frames",
                           key == "id" and v == "libp2p_mplex::io::SubstreamState::Reset{buf: <smallvec::SmallVec as std::clone::Clone>::clone(%s)}" % BUF, s.loc(), "%s -> %s" % (key, v[-80:]))
                for s in rfr:
                    r = render(bf.site_expr(s)[2][1])
                    ctx.ob("buffer", "ResetStream: the Reset frame names the overflowing substream", r == "libp2p_mplex::codec::Frame::Reset{stream_id: id}", s.loc(), r)
    # data dropped only on the unknown / closed edges
    skip = (lib_mux.none_edges(bf, "std::collections::HashMap::get_mut(self.substreams, id)") |
            lib_mux.none_edges(bf, "libp2p_mplex::io::SubstreamState::recv_buf_open(std::collections::HashMap::get_mut(self.substreams, id)@Some.0)"))
    ctx.floor("no-loss", "unknown-substream / closed-for-reading edges in buffer", sorted(skip), 2)
    for b in ok_ret:
        r = bf.reachable([0], blocked_nodes=lib.bbs(pushes), blocked_edges=skip)
        ctx.ob("no-loss", "buffer returns Ok without pushing only for unknown or read-closed substreams", b not in r, wb,
               "every path to Ok(()) passes the push or a None edge of get_mut / recv_buf_open")
    rbo = ctx.body(MP, r"io::SubstreamState::recv_buf_open$")
    tab, unk = lib_mux.variant_table(rbo, r"^discr\(self\)$", ["Open", "SendClosed", "RecvClosed", "Closed", "Reset"],
                                     lambda r: "Some(own buf)" if re.match(r"^std::option::Option::Some\{0: self@(\w+)\.buf\}$", r) else ("None" if r == "std::option::Option::None{}" else r))
    want = {"Open": ["Some(own buf)"], "SendClosed": ["Some(own buf)"], "RecvClosed": ["None"], "Closed": ["None"], "Reset": ["None"]}
    ctx.ob("buffer", "recv_buf_open hands out a buffer exactly for Open and SendClosed", tab == want and not unk, "%s:%d" % (rbo.file, rbo.line), str(tab))
    for d in rbo.defs.get(0, []):
        if d[0] == "stmt":
            m = re.match(r"^std::option::Option::Some\{0: self@(\w+)\.buf\}$", render(rbo.rvalue_expr(d[3])))
            if m:
                labs = [l for t, ls, _, c in rbo.guards_on_all_paths(d[1]) if t == "discr(self)" for l in ls]
                ctx.ob("buffer", "recv_buf_open returns the matched variant's own buffer", labs == [m.group(1)], mir.Site(rbo, d[1], d[2]).loc(), "%s -> %s" % (labs, m.group(1)))

    # ------------------------------------------------------------------ Block: reading stops while a stream blocks
    prf = lib_mux.io_body(ctx, "poll_read_frame")
    zf = lib_mux.zero_assigns(prf)
    nxt = prf.call_sites(r"StreamExt::poll_next_unpin$|Stream>::poll_next$|StreamExt::poll_next$")
    ctx.floor("block", "socket frame read", nxt, 1)
    for s in nxt:
        ne = lib_mux.none_edges(prf, "self.blocking_stream")
        ok = bool(ne) and prf.must_pass_edges(s.bb, ne)
        ctx.ob("block", "socket polled only while no stream blocks", ok, s.loc(), ("guard present on all paths: " if ok else "a path reaches this site without the guard: ") + "blocking_stream is None")
    for _, t in sorted(lib_mux.some_edges(prf, "self.blocking_stream")):
        ends = sorted({zf[b] for b in zf if b in prf.reachable([t])})
        ctx.ob("block", "while a stream blocks poll_read_frame returns Pending", ends == ["std::task::Poll::Pending{}"], "%s:%d" % (prf.file, prf.line), str(ends))
    # all writes of blocking_stream in the crate
    writes = []
    for b in prog.bodies(MP):
        for s in b.field_write_sites("blocking_stream"):
            if s.si is not None:
                writes.append((b, s, render(b.site_expr(s))))
    ctx.floor("block", "assignments to blocking_stream", writes, 2)
    for b, s, r in writes:
        fn = b.short.split("::")[-1]
        if r.startswith("std::option::Option::Some{"):
            ctx.ob("block", "blocking_stream is set only by buffer()", fn == "buffer", s.loc(), "%s in %s" % (r, fn))
            continue
        ctx.use(b)
        # cleared: only on `blocking_stream == Some(k)` and followed by the removal of a frame from substream k's buffer
        keys = set()

        def pred(c, rr, l, keys=keys):
            k = lib_mux.opt_eq_key(rr, l, "self.blocking_stream")
            if k is not None:
                keys.add(k)
                return True
            return False
        edges = b.guard_edges(pred)
        ok = bool(edges) and b.must_pass_edges(s.bb, edges)
        ctx.ob("block", "blocking_stream cleared only on `blocking_stream == Some(<this substream>)`", ok, s.loc(),
               "dominated by `blocking_stream == Some(%s)`" % "/".join(sorted(keys)) if ok else "cleared on a path that does not establish blocking_stream == Some(<the stream being read>)")
        if ok:
            k = sorted(keys)[0]
            # space is freed in that substream's buffer: a frame is taken out of it, or the whole entry (buffer) is released
            rem = [x for x in b.call_sites(r"SmallVec::remove$|SmallVec::pop$|SmallVec::drain$") if
                   render(b.site_expr(x)[2][0]) == "libp2p_mplex::io::SubstreamState::recv_buf(std::collections::HashMap::get_mut(self.substreams, %s)@Some.0)" % k]
            rel = [x for x in b.call_sites(r"HashMap::remove$") if render(b.site_expr(x)) == "std::collections::HashMap::remove(self.substreams, %s)" % k and not lib_mux.substream_inserts(b)]
            ok2 = bool(rem + rel) and b.must_pass_nodes(b.succ[s.bb], b.return_blocks(), lib.bbs(rem + rel))
            ctx.ob("block", "unblocking is always followed by freeing space in that substream's buffer", ok2, s.loc(),
                   "%s on substreams[%s] on every path after the reset" % ("buf.remove(0)" if rem else "substreams.remove(&id) (entry released)" if rel else "nothing", k))
    # every release of a substream entry (remove without re-insert on some path) tests whether that substream holds the block
    releasing = []
    for b in prog.bodies(MP):
        rms = [x for x in b.call_sites(r"HashMap::remove$") if render(b.site_expr(x)[2][0]) == "self.substreams"]
        if rms and not lib_mux.substream_inserts(b):
            releasing.extend((b, x) for x in rms)
    ctx.floor("block", "functions that release a substreams entry for good", releasing, 1)
    for b, x in releasing:
        ctx.use(b)
        key = render(b.site_expr(x)[2][1])
        tests = [bi for bi in sorted(b.live) if b.switch_info(bi) and any(lib_mux.opt_eq_key(render(b.switch_info(bi)[0]), lab, "self.blocking_stream") == key for lab in ("true", "false"))]
        ok = bool(tests) and (b.must_pass_nodes([0], [x.bb], tests) or b.must_pass_nodes(b.succ[x.bb], b.return_blocks(), tests))
        clr = [w for w in b.field_write_sites("blocking_stream") if w.si is not None and render(b.site_expr(w)) == "std::option::Option::None{}"]
        if ok:
            cr = render(b.switch_info(tests[0])[0])
            tedge = [t for t, ls in b.switch_info(tests[0])[1].items() if any(lib_mux.opt_eq_key(cr, l, "self.blocking_stream") == key for l in ls)]
            fedge = [t for t, ls in b.switch_info(tests[0])[1].items() if t not in tedge]
            # on the true edge the block is cleared before control re-joins the other edge / returns
            join = b.reachable(fedge)
            ok = bool(clr) and all(c.bb in b.reachable(tedge) for c in clr[:1]) and b.must_pass_nodes(tedge, [j for j in join if j in b.reachable(tedge)][:1] or b.return_blocks(), lib.bbs(clr))
        ctx.ob("block", "releasing a substream's entry also releases the block it may hold (%s)" % b.short.split("::")[-1], ok, x.loc(),
               "substreams.remove(&%s) with no re-insert: `if blocking_stream == Some(%s) { blocking_stream = None }` on every such path" % (key, key) if ok else
               "substreams.remove(&%s) releases the entry (and its full buffer) but blocking_stream may still name it: nothing can clear it afterwards and poll_read_frame stays Pending for every substream" % key)

    # ------------------------------------------------------------------ no data frame is dropped by the frame loops
    for name in ("poll_next_stream", "poll_read_stream"):
        b = lib_mux.io_body(ctx, name)
        sw, frame, arms = lib_mux.frame_switch(b)
        calls = [s for s in b.call_sites(r"^libp2p_mplex::io::Multiplexed::buffer$")]
        ctx.floor("no-loss", "%s: buffer() call" % name, calls, 1, exact=True)
        zz = lib_mux.zero_assigns(b)
        deliver = [bb for bb, r in zz.items() if r == "std::task::Poll::Ready{0: std::result::Result::Ok{0: std::option::Option::Some{0: %s@Data.data}}}" % frame]
        # loop head = the poll_read_frame call block; a Data arm must not come back to it (or return) without buffer()/deliver
        head = lib.bbs(b.call_sites(r"^libp2p_mplex::io::Multiplexed::poll_read_frame$"))
        marks = set(lib.bbs(calls)) | set(deliver)
        r = b.reachable([arms["Data"]], blocked_nodes=marks, stop_nodes=head)
        bad = (set(head) | set(b.return_blocks())) & r
        ctx.ob("no-loss", "%s: Data frame buffered exactly once" % name if name == "poll_next_stream" else "%s: Data frame returned to its reader or buffered" % name,
               not bad and bool(marks), "%s:%d" % (b.file, b.line), "no path from the Data arm to the next read / return avoids buffer() or delivery" if not bad else "a path drops the frame")
        for s in calls:
            e = b.site_expr(s)
            ctx.ob("no-loss", "%s: buffered under the frame's own id with the frame's own payload" % name,
                   render(e[2][1]) == "libp2p_mplex::codec::RemoteStreamId::into_local(%s@Data.stream_id)" % frame and render(e[2][2]) == "%s@Data.data" % frame, s.loc(),
                   "%s / %s" % (render(e[2][1])[-40:], render(e[2][2])[-20:]))
            again = b.reachable(b.succ[s.bb], stop_nodes=head)
            ctx.ob("no-loss", "%s: a frame is buffered at most once" % name, not (set(lib.bbs(calls)) & (again - set(head))), s.loc(), "no second buffer() before the next frame is read")
