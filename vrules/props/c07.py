"""C07 behaviour->handler notifications are targeted, ordered and not lost — guards (K1), tables (K7), origin (K5), who (K4)."""
import re

from .. import lib, mir
from .. import lib_sw as S
from ..mir import render

EXPLANATION = ("NotifyHandler::Any captures the established connection ids at emission time (where the behaviour's request is "
               "converted) and a request for One(c) is parked as One(c) (arm table on the requested target); the only other place a "
               "pending Any target is built re-uses the not-ready list returned by the any-delivery helper (no re-capture); the "
               "one-delivery helper's decision table (Pending -> give event back, Err -> consume, Ok -> deliver once + consume); the "
               "any-delivery helper delivers at most once (a successful notify_handler leaves the loop), queues only not-ready "
               "connections and returns the event only with a non-empty pending list; the swarm poll loop polls the behaviour only "
               "when no handler event is pending and stores every returned event back; Command::NotifyHandler is sent only through the "
               "addressed connection's own sender.  Bodies, parameters, locals and the parked-event field are identified by role "
               "(types, positions, value flow), not by their names.")
ASSUMPTIONS = ["FIFO of futures::mpsc per connection", "fairness under back-pressure is not decided"]
SW = "libp2p_swarm"
PNH = r"^libp2p_swarm::PendingNotifyHandler$"
ITER_EST = r"pool::Pool::iter_established_connections_of_peer$"


def _proj_root(e):
    """(root expression, list of projection names) of a chain of field/downcast projections"""
    path = []
    while e[0] in ("field", "downcast"):
        path.append(e[2])
        e = e[1]
    return e, list(reversed(path))


def _ends_variant(e, variant, idx="0"):
    """e is `<x>@variant.idx`"""
    return e[0] == "field" and e[2] == idx and e[1][0] == "downcast" and e[1][2] == variant


def check(ctx):
    prog = ctx.prog
    fld = S.field_by_type(prog, r"^libp2p_swarm::Swarm$", r"PendingNotifyHandler")       # the parked (peer, target, event)
    # ---- every construction of a pending target, crate-wide, classified by where its payload comes from
    emit, retry, ones, other = [], [], [], []
    for b in prog.bodies(SW):
        sites = b.agg_sites(PNH)
        if not sites:
            continue
        S.neutral(b)
        ctx.use(b)
        for s in sites:
            e = b.site_expr(s)
            payload = dict(e[4]).get("0")
            if e[3] == "One":
                ones.append((b, s, payload))
                continue
            caps = mir.calls_in(payload, ITER_EST)
            if caps:
                emit.append((b, s, payload, caps))
                continue
            root, path = _proj_root(payload)
            if root[0] == "call" and S.crate_fn(prog, root[1]) is not None and any(_ends_variant(a, "Any") for a in root[2]):
                retry.append((b, s, payload, root, path))
            else:
                other.append((b, s, payload))
    ctx.floor("capture", "PendingNotifyHandler::Any built at emission time", emit, 1)
    ctx.floor("capture", "PendingNotifyHandler::Any rebuilt for a retry", retry, 1)
    ctx.floor("capture", "PendingNotifyHandler::One constructions", ones, 1)
    for b, s, payload in other:
        ctx.ob("capture", "Any(ids) is either captured at emission or the not-ready rest of the previous attempt", False, s.loc(),
               "PendingNotifyHandler::Any built from %s" % render(payload)[:200])
    ctx.ob("capture", "no other origin of Any candidate lists", not other, msg="%d construction(s) of PendingNotifyHandler::Any with another origin" % len(other))
    for b, s, payload, caps in emit:
        ok = all(len(c[2]) == 2 and _proj_root(c[2][1])[1][-2:] == ["NotifyHandler", "peer_id"] for c in caps)
        ctx.ob("capture", "Any(ids) from established set of that peer", ok, s.loc(), "ids = %s" % render(payload)[:200])
    for b, s, payload in ones:
        root, path = _proj_root(payload)
        ok = path[-2:] == ["One", "0"] and not mir.calls_in(payload, ITER_EST)
        ctx.ob("capture", "One(id) is the requested id", ok, s.loc(), "One(%s)" % render(payload)[-80:])
    for b, s, payload, root, path in retry:
        ok = path[:1] == ["Some"] and not mir.calls_in(payload, ITER_EST)
        ctx.ob("capture", "retry keeps the candidates returned by the previous attempt (no re-capture)", ok, s.loc(), "Any(%s)" % render(payload)[-120:])
    # ---- arm table at emission: request One -> parked One, request Any -> parked Any; stored with the same peer + event
    hbs = {b.npath: b for b, _, _, _ in emit}
    for hb in hbs.values():
        st = hb.field_write_sites(fld)
        ctx.floor("capture", "parked-event store at emission", st, 1)
        for s in st:
            e = hb.site_expr(s)
            r = render(e)
            tup = None
            for x in mir.walk(e):
                if x[0] == "agg" and x[1] == "tuple" and len(x[4]) == 3:
                    tup = dict(x[4])
                    break
            ok = tup is not None and _proj_root(tup["0"])[1][-2:] == ["NotifyHandler", "peer_id"] and _proj_root(tup["2"])[1][-2:] == ["NotifyHandler", "event"]
            ctx.ob("capture", "stored tuple = (peer_id, handler, event) of the request", ok, s.loc(), r[:160])
        sw = S.switch_blocks(hb, lambda c, r: c[0] == "discr" and _proj_root(c[1])[1][-2:] == ["NotifyHandler", "handler"])
        ctx.ob("capture", "floor:dispatch on the requested target", len(sw) == 1, nontrivial=False, msg="switches on discr(request.handler): %d" % len(sw))
        my_any = lib.bbs([s for b, s, _, _ in emit if b is hb])
        my_one = lib.bbs([s for b, s, _ in ones if b is hb])
        for bi, cond, labs in sw[:1]:
            for tgt, ls in labs.items():
                for lab in sorted(ls):
                    if lab not in ("One", "Any"):
                        ctx.ob("capture", "request target %s has a parked form" % lab, False, msg="unexpected NotifyHandler variant")
                        continue
                    same, cross = (my_one, my_any) if lab == "One" else (my_any, my_one)
                    ends = lib.bbs(st) + hb.return_blocks()
                    got_same = lib.count_range(hb, [tgt], lib.bbs(st), same) if st else None
                    got_cross = lib.count_range(hb, [tgt], ends, cross)
                    ctx.ob("capture", "request %s is parked as %s" % (lab, lab), got_same == (1, 1) and got_cross in ((0, 0), None),
                           "%s:%d" % (hb.file, hb.blocks[bi]["term"].get("l", 0)),
                           "on the %s arm: PendingNotifyHandler::%s built %s, the other variant %s (expected (1, 1) / (0, 0))" % (lab, lab, got_same, got_cross))
    # ---- the poll loop: the body that rebuilds Any for a retry
    pns = {b.npath: b for b, _, _, _, _ in retry}
    ctx.ob("poll", "floor:poll loop body", len(pns) == 1, nontrivial=False, msg=str(sorted(pns)))
    if len(pns) != 1:
        return
    pn = list(pns.values())[0]
    any_calls = [s for s in pn.call_sites() if S.crate_fn(prog, pn.call_name(s.term)) is not None and any(_ends_variant(a, "Any") for a in pn.site_expr(s)[2])]
    one_calls = [s for s in pn.call_sites() if S.crate_fn(prog, pn.call_name(s.term)) is not None and
                 any(any(_ends_variant(a2, "One") for c in mir.calls_in(a, r"pool::Pool::get_established$") for a2 in c[2]) for a in pn.site_expr(s)[2])
                 and not re.search(r"pool::Pool::get_established$", mir.strip_generics(pn.call_name(s.term)))]
    ctx.floor("poll", "any-delivery call", any_calls, 1, exact=True)
    ctx.floor("poll", "one-delivery call", one_calls, 1, exact=True)
    if not any_calls or not one_calls:
        return
    n1 = S.neutral(S.crate_fn(prog, pn.call_name(one_calls[0].term)))
    na = S.neutral(S.crate_fn(prog, pn.call_name(any_calls[0].term)))
    ctx.use(n1)
    ctx.use(na)
    # the candidates handed to the any-delivery helper are the parked ones; the target of the one-delivery is the parked id
    take_pat = lambda e: any(c[2] and S.has_field(c[2][0], fld) for c in mir.calls_in(e, r"Option::take$"))
    for s in any_calls:
        ids = [a for a in pn.site_expr(s)[2] if _ends_variant(a, "Any")]
        ctx.ob("poll", "retry uses the parked candidate ids", bool(ids) and all(take_pat(a) for a in ids), s.loc(), render(ids[0])[:160] if ids else "")
    for s in one_calls:
        tgt = [a2 for a in pn.site_expr(s)[2] for c in mir.calls_in(a, r"pool::Pool::get_established$") for a2 in c[2] if _ends_variant(a2, "One")]
        ctx.ob("poll", "One retry addresses the parked connection id", bool(tgt) and all(take_pat(a) for a in tgt), s.loc(), render(tgt[0])[:160] if tgt else "")
    # ---- one-delivery table
    i_conn = S.param_of_type(n1, r"pool::EstablishedConnection<")
    i_cx = S.param_of_type(n1, r"task::Context<")
    i_ev = [i for i in range(1, n1.argc + 1) if i not in (i_conn, i_cx)]
    ctx.ob("notify_one", "floor:parameters", len(i_ev) == 1, nontrivial=False, msg="connection=p%d cx=p%d event=%s" % (i_conn, i_cx, i_ev))
    i_ev = i_ev[0] if i_ev else 0
    res = S.ret_sites(n1)
    ready = r"libp2p_swarm::connection::pool::EstablishedConnection::poll_ready_notify_handler\(p%d, p%d\)" % (i_conn, i_cx)
    am = [(r"^discr\(%s\)$" % ready, "ready"), (r"^discr\(%s@Ready\.0\)$" % ready, "res")]
    notify = n1.call_sites(r"EstablishedConnection::notify_handler$")

    def v1(s):
        r = render(n1.site_expr(s))
        if r == "std::option::Option::Some{0: p%d}" % i_ev:
            return "give-back"
        if r == "std::option::Option::None{}":
            return "consume"
        return "?" + r
    lib.check_cells(ctx, "notify_one", "table", n1, res, v1, am, {"ready": ["Pending", "Ready"], "res": ["Ok", "Err"]},
                    lambda a: "give-back" if a["ready"] == "Pending" else "consume", "%s:%d" % (n1.file, n1.line))
    # delivery: exactly once when the connection is ready, never otherwise
    n1rets = n1.return_blocks()
    ctx.floor("notify_one", "notify_handler call", notify, 1)
    for lab, atom, want in (("Ok", "res", (1, 1)), ("Err", "res", (0, 0)), ("Pending", "ready", (0, 0))):
        rx = re.compile(am[1][0] if atom == "res" else am[0][0])
        edges = S.edges_of(n1, lambda c, r: rx.search(r) is not None, {lab})
        ctx.ob("notify_one", "floor:%s edge" % lab, len(edges) >= 1, nontrivial=False, msg=str(sorted(edges)))
        for _, tg in sorted(edges):
            got = lib.count_range(n1, [tg], n1rets, lib.bbs(notify))
            ctx.ob("notify_one", "table/delivery when poll_ready == %s" % lab, got == want, "%s:%d" % (n1.file, n1.line),
                   "notify_handler calls on the %s edge: %s (expected %s)" % (lab, got, want))
    for s in notify:
        ctx.ob("notify_one", "delivers the given event", render(n1.site_expr(s)) == "libp2p_swarm::connection::pool::EstablishedConnection::notify_handler(p%d, p%d)" % (i_conn, i_ev),
               s.loc(), render(n1.site_expr(s)))
    # ---- any-delivery
    i_ids = S.param_of_type(na, r"^smallvec::SmallVec<\[connection::ConnectionId")
    i_cx = S.param_of_type(na, r"task::Context<")
    i_pool = S.param_of_type(na, r"pool::Pool<")
    i_ev = [i for i in range(1, na.argc + 1) if i not in (i_ids, i_cx, i_pool)]
    ctx.ob("notify_any", "floor:parameters", len(i_ev) == 1, nontrivial=False, msg="ids=p%d pool=p%d cx=p%d event=%s" % (i_ids, i_pool, i_cx, i_ev))
    i_ev = i_ev[0] if i_ev else 0
    nh = na.call_sites(r"EstablishedConnection::notify_handler$")
    ctx.floor("notify_any", "notify_handler call", nh, 1)
    it_next = [s for s in na.call_sites(r"Iterator>::next$|Iterator::next$")]
    ctx.floor("notify_any", "ids iterator next()", it_next, 1)
    # the iterated collection is the ids parameter
    if it_next:
        e = na.site_expr(it_next[0])
        src = []
        for l in S.locals_in(e):
            src += [render(x) for _, x in S.defs_exprs(na, l)]
        src.append(render(e))
        ctx.ob("notify_any", "candidates iterated are the given ids", any("into_iter(p%d)" % i_ids in x for x in src), it_next[0].loc(), str(src)[:200])
    for s in nh:
        ok_e = lib.switch_edges_on_site(na, s, {"Ok"})
        ctx.ob("notify_any", "floor:Ok edge", len(ok_e) == 1, nontrivial=False, msg=str(ok_e))
        tg = [t for _, t in ok_e]
        r = na.reachable(tg)
        ctx.ob("notify_any", "successful delivery leaves the loop", not (set(lib.bbs(nh)) & r), s.loc(),
               "no notify_handler reachable after a successful notify_handler (at most one delivery)")
        ctx.guarded("notify_any", "deliver only when ready", s,
                    lambda c, rr, l: l == "Ok" and rr.startswith("discr(libp2p_swarm::connection::pool::EstablishedConnection::poll_ready_notify_handler(") and rr.endswith("@Ready.0)"),
                    "poll_ready_notify_handler == Ready(Ok)")
        e = na.site_expr(s)
        ge = mir.calls_in(e[2][0], r"pool::Pool::get_established$")
        ok = bool(ge) and bool(it_next) and any(S.call_at(a, it_next[0].bb) is not None for c in ge for a in c[2])
        ctx.ob("notify_any", "delivers to a connection from the captured ids", ok, s.loc(), render(e)[:200])
    push = [s for s in na.call_sites(r"SmallVec::push$")]
    ctx.floor("notify_any", "pending.push", push, 1)
    for s in push:
        ctx.guarded("notify_any", "queue only not-ready connections", s,
                    lambda c, rr, l: l == "Pending" and "poll_ready_notify_handler(" in rr, "poll_ready_notify_handler == Pending")
        e = na.site_expr(s)
        ok = bool(it_next) and _ends_variant(e[2][1], "Some") and S.call_at(e[2][1], it_next[0].bb) is not None
        ctx.ob("notify_any", "the queued id is the not-ready connection's id", ok, s.loc(), render(e[2][1])[:120])
    ret = na.call_sites(r"Option::and_then$")
    ok = len(ret) == 1
    ev_local = None
    if ok:
        e = na.site_expr(ret[0])
        recv = e[2][0]
        ok = recv[0] == "local" and any(render(x) == "std::option::Option::Some{0: p%d}" % i_ev for _, x in S.defs_exprs(na, recv[1]))
        ev_local = recv[1] if recv[0] == "local" else None
        # result of the function is this call
        ok = ok and any(S.call_at(x, ret[0].bb) is not None for x in S.ret_exprs(na))
    ctx.ob("notify_any", "result = event.and_then(non-empty pending)", ok, ret[0].loc() if ret else "", "return value built from the remaining event")
    # the event is consumed only by a successful delivery: every return not preceded by notify_handler == Ok goes
    # through the final `event.and_then(..)` (so a closing / not-ready connection never swallows the event)
    ok_edges = set()
    for s in nh:
        ok_edges |= lib.switch_edges_on_site(na, s, {"Ok"})
    r = na.reachable([0], blocked_nodes=lib.bbs(ret), blocked_edges=ok_edges)
    early = sorted(set(na.return_blocks()) & r)
    ctx.ob("notify_any", "event only consumed by delivery (no early return)", not early and bool(ret), "%s:%d" % (na.file, na.line),
           "returns reachable without a successful delivery and without the final and_then: %s" % early)
    # all captured connections are tried: the loop is left only on iterator exhaustion or successful delivery
    if it_next and ret:
        none_e = lib.switch_edges_on_site(na, it_next[0], {"None"})
        r2 = na.reachable([0], blocked_edges=ok_edges | none_e)
        ctx.ob("notify_any", "loop left only when ids are exhausted or the event was delivered", ret[0].bb not in r2, ret[0].loc(),
               "final result reachable only via ids.next()==None or notify_handler==Ok")
    if ret:
        cl = S.closure_at(prog, na, ret[0])
        ctx.use(cl)
        _, caps = S.closure_captures(na, na.site_expr(ret[0]))
        pushed_into = {render(na.site_expr(s)[2][0]) for s in push}
        ctx.ob("notify_any", "retry list is the list of not-ready connections", len(caps) == 1 and {render(caps[0])} == pushed_into, ret[0].loc(),
               "closure captures %s, pushes go to %s" % ([render(c) for c in caps], sorted(pushed_into)))
        res = S.ret_sites(cl)
        i_e = cl.argc      # the closure's only parameter (after the environment)

        def vc(s):
            r = render(cl.site_expr(s))
            if re.match(r"^std::option::Option::Some\{0: tuple\{0: p%d, 1: \^\*?u0\}\}$" % i_e, r):
                return "Some(e,pending)"
            return "None" if r == "std::option::Option::None{}" else "?" + r[:60]
        lib.check_cells(ctx, "notify_any", "retry only with candidates", cl, res, vc,
                        [(r"^smallvec::SmallVec::is_empty\(\^\*?u0\)$", "empty")], {"empty": ["true", "false"]},
                        lambda a: "None" if a["empty"] == "true" else "Some(e,pending)", "%s:%d" % (cl.file, cl.line))
    # ---- the poll loop
    bp = pn.call_sites(r"NetworkBehaviour::poll$")
    ctx.floor("poll", "behaviour.poll", bp, 1)

    def is_take(c):
        return c[0] == "discr" and S.is_call(c[1], r"Option::take$") and c[1][2] and S.has_field(c[1][2][0], fld)
    for s in bp:
        ctx.guarded("poll", "behaviour polled only when no handler event pending", s,
                    lambda c, rr, l: l == "None" and is_take(c), "pending_handler_event.take() == None")
    stores = pn.field_write_sites(fld)
    for fn, cs in (("notify_one", one_calls), ("notify_any", any_calls)):
        for s in cs:
            some_e = lib.switch_edges_on_site(pn, s, {"Some"})
            tg = [t for _, t in some_e]
            ctx.ob("poll", "floor:%s Some edge" % fn, len(tg) == 1, nontrivial=False, msg=str(some_e))
            # every path from the Some edge passes a store into pending_handler_event before polling anything else / returning
            stops = lib.bbs(pn.call_sites(r"pool::Pool::poll$")) + pn.return_blocks() + lib.bbs(pn.call_sites(r"Option::take$"))
            ctx.passes("poll", "undelivered event from %s is stored back" % fn, pn, tg, stops, lib.bbs(stores),
                       "this.pending_handler_event = Some(..) on the Some edge", s.loc())
            for w in stores:
                if w.bb in pn.reachable(tg, blocked_nodes=stops):
                    e = pn.site_expr(w)
                    tup = None
                    for x in mir.walk(e):
                        if x[0] == "agg" and x[1] == "tuple" and len(x[4]) == 3:
                            tup = dict(x[4])
                            break
                    ok = tup is not None and S.call_at(tup["2"], s.bb) is not None and "Some" in _proj_root(tup["2"])[1]
                    ctx.ob("poll", "%s: stored event is the returned one" % fn, ok, w.loc(), render(e)[:200])
                    ok = tup is not None and take_pat(tup["0"]) and _proj_root(tup["0"])[1][-3:] == ["Some", "0", "0"]
                    ctx.ob("poll", "%s: stored back for the same peer" % fn, ok, w.loc(), render(tup["0"])[:120] if tup else "")
                    if fn == "notify_one" and tup is not None:
                        h = tup["1"]
                        ok = (take_pat(h) and _proj_root(h)[1][-3:] == ["Some", "0", "1"]) or \
                             (h[0] == "agg" and h[3] == "One" and take_pat(h) and _proj_root(dict(h[4])["0"])[1][-2:] == ["One", "0"])
                        ctx.ob("poll", "notify_one: stored back for the same connection", ok, w.loc(), render(h)[:160])
    # ---- who sends Command::NotifyHandler
    who = {}
    for b in prog.bodies(SW):
        for s in b.agg_sites(r"pool::task::Command$", "NotifyHandler"):
            who.setdefault(b.npath, []).append(s)
    ctx.ob("who", "Command::NotifyHandler constructed only in EstablishedConnection::notify_handler",
           set(who) == {"libp2p_swarm::connection::pool::EstablishedConnection::notify_handler"}, msg=str(sorted(who)))
    nhb = S.nbody(ctx, r"pool::EstablishedConnection::notify_handler$")
    sender = S.field_by_type(prog, r"pool::EstablishedConnection$", r"mpsc::Sender<")
    ts = nhb.call_sites(r"mpsc::Sender::try_send$")
    ok = len(ts) == 1 and render(nhb.site_expr(ts[0])) == "futures::futures_channel::mpsc::Sender::try_send(self.%s, libp2p_swarm::connection::pool::task::Command::NotifyHandler{0: p2})" % sender
    ctx.ob("who", "sent through this connection's own sender", ok, "%s:%d" % (nhb.file, nhb.line), [render(nhb.site_expr(s))[:160] for s in ts].__str__())
    # the connection task delivers NotifyHandler to the handler in arrival order (single receive loop)
    c = ctx.body(SW, r"pool::task::new_for_established_connection::\{closure#0\}$", "coroutine")
    obe = c.call_sites(r"connection::Connection::on_behaviour_event$")
    ok = len(obe) == 1 and "@NotifyHandler.0" in render(c.site_expr(obe[0]))
    ctx.ob("who", "task forwards each NotifyHandler command to the handler", ok, obe[0].loc() if obe else "", "connection.on_behaviour_event(event)")
