"""C07 behaviour->handler notifications are targeted, ordered and not lost — guards (K1), tables (K7), origin (K5), who (K4)."""
import re

from .. import lib, mir
from ..mir import render

EXPLANATION = ("NotifyHandler::Any captures the established connection ids at emission time (handle_behaviour_event); notify_one's "
               "decision table (Pending -> give event back, Err -> consume, Ok -> deliver once + consume); notify_any delivers at most "
               "once (a successful notify_handler leaves the loop), queues only not-ready connections and returns the event only with a "
               "non-empty pending list; poll_next_event polls the behaviour only when no handler event is pending and stores every "
               "returned event back into pending_handler_event; Command::NotifyHandler is sent only through the addressed connection's "
               "own sender.")
ASSUMPTIONS = ["FIFO of futures::mpsc per connection", "fairness under back-pressure is not decided"]
SW = "libp2p_swarm"


def check(ctx):
    prog = ctx.prog
    # ---- capture at emission time
    hb = ctx.body(SW, r"^libp2p_swarm::Swarm::handle_behaviour_event$")
    anys = hb.agg_sites(r"^libp2p_swarm::PendingNotifyHandler$", "Any")
    ctx.floor("capture", "PendingNotifyHandler::Any constructions", anys, 1)
    for s in anys:
        r = render(hb.site_expr(s))
        ctx.ob("capture", "Any(ids) from established set of that peer", "Pool::iter_established_connections_of_peer(self.pool, " in r and "@NotifyHandler.peer_id" in r,
               s.loc(), "ids = %s" % r[:200])
    ones = hb.agg_sites(r"^libp2p_swarm::PendingNotifyHandler$", "One")
    for s in ones:
        r = render(hb.site_expr(s))
        ctx.ob("capture", "One(id) is the requested id", "@One.0" in r, s.loc(), "One(%s)" % r[-80:])
    who = {b.npath for b in prog.bodies(SW) if b.agg_sites(r"^libp2p_swarm::PendingNotifyHandler$")}
    ctx.ob("capture", "who constructs PendingNotifyHandler", who <= {"libp2p_swarm::Swarm::handle_behaviour_event", "libp2p_swarm::Swarm::poll_next_event"},
           msg="constructed in %s" % sorted(who))
    # stored with the same peer + event
    st = hb.field_write_sites("pending_handler_event")
    ctx.floor("capture", "pending_handler_event store in handle_behaviour_event", st, 1)
    for s in st:
        r = render(hb.site_expr(s))
        ctx.ob("capture", "stored tuple = (peer_id, handler, event) of the request", "@NotifyHandler.peer_id" in r and "@NotifyHandler.event" in r, s.loc(), r[:160])
    # ---- notify_one table
    n1 = ctx.body(SW, r"^libp2p_swarm::notify_one$")
    res = [mir.Site(n1, x[1], x[2]) for x in n1.defs[0]]
    am = [(r"^discr\(libp2p_swarm::connection::pool::EstablishedConnection::poll_ready_notify_handler\(conn, cx\)\)$", "ready"),
          (r"^discr\(libp2p_swarm::connection::pool::EstablishedConnection::poll_ready_notify_handler\(conn, cx\)@Ready\.0\)$", "res")]
    notify = n1.call_sites(r"EstablishedConnection::notify_handler$")

    def v1(s):
        r = render(n1.site_expr(s))
        delivered = bool(lib.count_range(n1, [0], [s.bb], lib.bbs(notify)) == (1, 1))
        if r == "std::option::Option::Some{0: event}":
            return "give-back" + ("+deliver" if delivered else "")
        if r == "std::option::Option::None{}":
            return "consume" + ("+deliver" if delivered else "")
        return "?" + r
    lib.check_cells(ctx, "notify_one", "table", n1, res, v1, am, {"ready": ["Pending", "Ready"], "res": ["Ok", "Err"]},
                    lambda a: "give-back" if a["ready"] == "Pending" else ("consume+deliver" if a["res"] == "Ok" else "consume"),
                    "%s:%d" % (n1.file, n1.line))
    for s in notify:
        ctx.ob("notify_one", "delivers the given event", render(n1.site_expr(s)) == "libp2p_swarm::connection::pool::EstablishedConnection::notify_handler(conn, event)",
               s.loc(), render(n1.site_expr(s)))
    # ---- notify_any
    na = ctx.body(SW, r"^libp2p_swarm::notify_any$")
    nh = na.call_sites(r"EstablishedConnection::notify_handler$")
    ctx.floor("notify_any", "notify_handler call", nh, 1)
    for s in nh:
        ok_e = lib.switch_edges_on_site(na, s, {"Ok"})
        ctx.ob("notify_any", "floor:Ok edge", len(ok_e) == 1, nontrivial=False, msg=str(ok_e))
        tg = [t for _, t in ok_e]
        r = na.reachable(tg)
        ctx.ob("notify_any", "successful delivery leaves the loop", not (set(lib.bbs(nh)) & r), s.loc(),
               "no notify_handler reachable after a successful notify_handler (at most one delivery)")
        ctx.guarded("notify_any", "deliver only when ready", s,
                    lambda c, rr, l: l == "Ok" and rr.startswith("discr(libp2p_swarm::connection::pool::EstablishedConnection::poll_ready_notify_handler(") and rr.endswith("@Ready.0)"),
                    "poll_ready_notify_handler == Ready(Ok)")
        e = render(na.site_expr(s))
        ctx.ob("notify_any", "delivers to a connection from the captured ids", "Pool::get_established(pool, " in e and "Iterator>::next(" in e, s.loc(), e[:200])
    push = [s for s in na.call_sites(r"SmallVec::push$")]
    ctx.floor("notify_any", "pending.push", push, 1)
    for s in push:
        ctx.guarded("notify_any", "queue only not-ready connections", s,
                    lambda c, rr, l: l == "Pending" and "poll_ready_notify_handler(" in rr, "poll_ready_notify_handler == Pending")
    ret = na.call_sites(r"Option::and_then$")
    ok = len(ret) == 1 and render(na.site_expr(ret[0])).startswith("std::option::Option::and_then(event, closure:")
    ctx.ob("notify_any", "result = event.and_then(non-empty pending)", ok, ret[0].loc() if ret else "", "return value built from the remaining event")
    # the event is consumed only by a successful delivery: every return not preceded by notify_handler == Ok goes
    # through the final `event.and_then(..)` (so a closing / not-ready connection never swallows the event)
    ok_edges = set()
    for s in nh:
        ok_edges |= lib.switch_edges_on_site(na, s, {"Ok"})
    r = na.reachable([0], blocked_nodes=lib.bbs(ret), blocked_edges=ok_edges)
    early = sorted(set(na.return_blocks()) & r)
    ctx.ob("notify_any", "event only consumed by delivery (no early return)", not early and bool(ret), "%s:%d" % (na.file, na.line),
           "returns reachable without a successful delivery and without the final and_then: %s" % early)
    # all captured connections are tried: the loop is left only on iterator exhaustion or successful delivery
    it_next = na.call_sites(r"smallvec::IntoIter as std::iter::Iterator>::next$")
    ctx.floor("notify_any", "ids iterator next()", it_next, 1)
    if it_next and ret:
        none_e = lib.switch_edges_on_site(na, it_next[0], {"None"})
        r2 = na.reachable([0], blocked_edges=ok_edges | none_e)
        ctx.ob("notify_any", "loop left only when ids are exhausted or the event was delivered", ret[0].bb not in r2, ret[0].loc(),
               "final result reachable only via ids.next()==None or notify_handler==Ok")
    cl = ctx.body(SW, r"^libp2p_swarm::notify_any::\{closure#0\}$")
    res = [mir.Site(cl, x[1], x[2]) for x in cl.defs[0]]
    lib.check_cells(ctx, "notify_any", "retry only with candidates", cl, res,
                    lambda s: "Some(e,pending)" if render(cl.site_expr(s)) == "std::option::Option::Some{0: tuple{0: e, 1: ^pending}}" else ("None" if render(cl.site_expr(s)) == "std::option::Option::None{}" else "?"),
                    [(r"^smallvec::SmallVec::is_empty\(\^pending\)$", "empty")], {"empty": ["true", "false"]},
                    lambda a: "None" if a["empty"] == "true" else "Some(e,pending)", "%s:%d" % (cl.file, cl.line))
    # ---- poll_next_event
    pn = ctx.body(SW, r"^libp2p_swarm::Swarm::poll_next_event$")
    bp = pn.call_sites(r"NetworkBehaviour::poll$")
    ctx.floor("poll", "behaviour.poll", bp, 1)
    for s in bp:
        ctx.guarded("poll", "behaviour polled only when no handler event pending", s,
                    lambda c, rr, l: l == "None" and rr == "discr(std::option::Option::take(this.pending_handler_event))",
                    "pending_handler_event.take() == None")
    stores = pn.field_write_sites("pending_handler_event")
    for fn in ("notify_one", "notify_any"):
        cs = pn.call_sites(r"^libp2p_swarm::%s$" % fn)
        ctx.floor("poll", fn + " call", cs, 1)
        for s in cs:
            some_e = lib.switch_edges_on_site(pn, s, {"Some"})
            tg = [t for _, t in some_e]
            ctx.ob("poll", "floor:%s Some edge" % fn, len(tg) == 1, nontrivial=False, msg=str(some_e))
            # every path from the Some edge passes a store into pending_handler_event before polling anything else / returning
            stops = lib.bbs(pn.call_sites(r"pool::Pool::poll$")) + pn.return_blocks() + lib.bbs(pn.call_sites(r"Option::take$"))
            ctx.passes("poll", "undelivered event from %s is stored back" % fn, pn, tg, stops, lib.bbs(stores),
                       "this.pending_handler_event = Some(..) on the Some edge", s.loc())
            for w in stores:
                if w.bb in pn.reachable(tg, blocked_nodes=stops):
                    r = render(pn.site_expr(w))
                    ctx.ob("poll", "%s: stored event is the returned one" % fn, fn + "(" in r and "@Some.0" in r, w.loc(), r[:200])
    # ---- who sends Command::NotifyHandler
    who = {}
    for b in prog.bodies(SW):
        for s in b.agg_sites(r"pool::task::Command$", "NotifyHandler"):
            who.setdefault(b.npath, []).append(s)
    ctx.ob("who", "Command::NotifyHandler constructed only in EstablishedConnection::notify_handler",
           set(who) == {"libp2p_swarm::connection::pool::EstablishedConnection::notify_handler"}, msg=str(sorted(who)))
    nhb = ctx.body(SW, r"pool::EstablishedConnection::notify_handler$")
    ts = nhb.call_sites(r"mpsc::Sender::try_send$")
    ok = len(ts) == 1 and render(nhb.site_expr(ts[0])).startswith("futures::futures_channel::mpsc::Sender::try_send(self.sender, libp2p_swarm::connection::pool::task::Command::NotifyHandler{0: event})")
    ctx.ob("who", "sent through this connection's own sender", ok, "%s:%d" % (nhb.file, nhb.line), [render(nhb.site_expr(s))[:160] for s in ts].__str__())
    # the connection task delivers NotifyHandler to the handler in arrival order (single receive loop)
    c = ctx.body(SW, r"pool::task::new_for_established_connection::\{closure#0\}$", "coroutine")
    obe = c.call_sites(r"connection::Connection::on_behaviour_event$")
    ok = len(obe) == 1 and "@NotifyHandler.0" in render(c.site_expr(obe[0]))
    ctx.ob("who", "task forwards each NotifyHandler command to the handler", ok, obe[0].loc() if obe else "", "connection.on_behaviour_event(event)")
