"""C16 Noise handshake authenticates exactly the remote identity — guards (K1), origin (K5), sibling agreement (K11), who (K4), order (K3)."""
import re

from .. import lib, mir
from .. import lib_sec as S
from ..mir import render, strip_generics

EXPLANATION = ("State::finish returns Ok only when the remote identity key is present and is_valid_signature is true; the verified message is "
               "concat[STATIC_KEY_DOMAIN, static DH key obtained from the snow session], verified with the very identity key that is "
               "returned; the key returned is turned into the PeerId by both upgrade paths; Output::new is called only in finish and "
               "finish only after the three handshake steps of each role; into_authentic signs the same concat with the same domain "
               "constant; both roles feed the configured prologue to the snow builder; the identity key/signature stored for verification "
               "are the ones received in the remote's payload.  Values are matched by origin (which field / call produced them; "
               "captured variables are replaced by what the enclosing function captured), success tests by their Ok/Some edges "
               "whatever the syntax (`?`, match, if-let, ok_or..), never by the spelling of locals, parameters or closure parameters.")
ASSUMPTIONS = ["cryptographic soundness of snow (Noise XX) and of libp2p_identity signature verification", "message mutation behaviour is not executed"]
N = "libp2p_noise"
VERIFY = r"libp2p_identity::PublicKey::verify$"
DOMAIN = r"protocol::STATIC_KEY_DOMAIN$"

SELFTEST = [
    {"mutation": "is_some_and -> is_none_or (seeded/C16)", "caught_by": "finish/Ok requires a valid signature"},
    {"mutation": "Ok((self.identity.public, ..)) instead of the verified key", "caught_by": "finish/returned key is the verified identity key"},
    {"neutral": "neutral/sec/03 (renamed locals / closure parameter); `ok_or_else(..)?` -> match; `is_some_and(closure)` -> `match &sig { Some(s) => key.verify(..), None => false }`", "silent": True},
]

def is_ok_of_self_field(e, field):
    """e is the success payload of `self.<field>` (`self.f?`, `self.f.ok_or(..)?`, `match self.f { Some(k) => k ..}`)."""
    e = S.peel(S.norm(e))
    return e[0] == "call" and e[1] == "ok" and S.self_field(e[2][0], field)


def signed_message(e, key_pred):
    """e is `[STATIC_KEY_DOMAIN.as_bytes(), <key>.as_ref()].concat()` (through view conversions) with key_pred(key expr)."""
    e = S.peel(e)
    if not (e[0] == "call" and re.search(r"slice::concat$|slice::<impl \[T\]>::concat$|Concat.*::concat$", strip_generics(e[1])) and e[2]):
        return False
    arr = S.peel(e[2][0])
    if not (arr[0] == "agg" and len(arr[4]) == 2):
        return False
    d, k = arr[4][0][1], arr[4][1][1]
    d_ok = any(s[0] == "namedconst" and re.search(DOMAIN, s[1]) for s in mir.walk(d)) and not S.has(d, lambda s: s[0] in ("arg", "local", "upvar"))
    return d_ok and key_pred(S.peel(k))


def check(ctx):
    prog = ctx.prog
    f = ctx.body(N, r"io::handshake::State::finish$")
    oks = S.ok_sites(f)
    ctx.floor("finish", "Ok return", oks, 1)
    mit = f.call_sites(r"io::handshake::map_into_transport$")
    ctx.floor("finish", "map_into_transport call", mit, 1)

    def dh_key(e):
        """the static DH key of the session: first component of map_into_transport(self.io)'s success payload"""
        e = S.peel(S.norm(e))
        return (e[0] == "field" and e[2] == "0" and e[1][0] == "call" and e[1][1] == "ok" and e[1][2][0][0] == "call"
                and re.search(r"handshake::map_into_transport$", strip_generics(e[1][2][0][1])) is not None)

    # the signature test: either `sig_opt.is_some_and(|s| key.verify(msg, s))` or a direct `key.verify(..)` call in finish
    def sig_test(c):
        if c[0] != "call":
            return False
        n = strip_generics(c[1])
        if re.search(VERIFY, n):
            return True
        if re.search(r"Option::is_some_and$", n) and S.self_field(c[2][0], "dh_remote_pubkey_sig"):
            cls = [a for a in c[2] if a[0] == "closure"]
            if len(cls) == 1:
                cl, _ = S.closure_env(prog, f, cls[0])
                r0 = [cl.site_expr(s) for s in S.ret_sites(cl)]
                return len(r0) == 1 and r0[0][0] == "call" and re.search(VERIFY, strip_generics(r0[0][1])) is not None
        return False
    valid, invalid = S.truth_edges(f, sig_test)
    # "verification fails" includes "no signature was received": close the failing edges over a hoisted `let is_valid = match sig {..}`
    _, no_sig = S.outcome_edges(f, lambda v: S.self_field(v, "dh_remote_pubkey_sig"))

    def fails(e, r, lab):
        c, neg = e, False
        while c[0] == "un" and c[1] == "Not":
            c, neg = c[2], not neg
        return sig_test(c) and ((lab == "true") != neg) is False
    invalid = f.derive_edges(set(invalid) | set(no_sig), fails)
    have_key, _ = S.outcome_edges(f, lambda v: S.self_field(v, "id_remote_pubkey"))
    for s in oks:
        S.guarded(ctx, "finish", "Ok requires a valid signature", s, valid, "is_valid_signature")
        S.guarded(ctx, "finish", "Ok requires a remote identity key", s, have_key, "id_remote_pubkey is Some")
        tr = set()
        for m in mit:
            tr |= S.call_outcome_edges(f, m)[0]
        S.guarded(ctx, "finish", "Ok requires a completed transport transition", s, tr, "map_into_transport Ok")
        e = f.site_expr(s)
        tup = dict(e[4]).get("0")
        key = dict(tup[4]).get("0") if tup and tup[0] == "agg" else None
        ctx.ob("finish", "returned key is the verified identity key", key is not None and is_ok_of_self_field(key, "id_remote_pubkey"), s.loc(), S.nrender(e)[:200])
    bad = f.agg_sites(r"^libp2p_noise::Error$", "BadSignature")
    for s in bad:
        S.guarded(ctx, "finish", "BadSignature exactly when verification fails", s, invalid, "!is_valid_signature")
    # the verification itself: verify(identity key, concat[DOMAIN, static DH key], received signature)
    sw = [bi for bi in f.live if f.switch_info(bi) and any(sig_test(x) for x in mir.walk(f.switch_info(bi)[0]))]
    hoisted = [l for l in S.named_locals(f, sig_test)]
    ctx.floor("finish", "is_some_and test", sw or hoisted, 1)
    vsites = []          # (body, site, env)
    for bi in sorted(f.live):
        t = f.blocks[bi]["term"]
        if t and t["k"] == "call":
            e = f.call_expr(t, bi)
            if re.search(VERIFY, strip_generics(e[1])):
                vsites.append((f, mir.Site(f, bi), {}, None))
            elif re.search(r"Option::is_some_and$", strip_generics(e[1])):
                for c in [a for a in e[2] if a[0] == "closure"]:
                    cl, env = S.closure_env(prog, f, c)
                    ctx.use(cl)
                    for s in cl.call_sites(VERIFY):
                        vsites.append((cl, s, env, e))
    ctx.floor("verify", "PublicKey::verify call", vsites, 1)
    for b, s, env, outer in vsites:
        e = S.subst_upvars(b.site_expr(s), env)
        a0, a1, a2 = e[2]
        ctx.ob("verify", "verified with the remote identity key", is_ok_of_self_field(a0, "id_remote_pubkey"), s.loc(), S.nrender(a0)[:160])
        ctx.ob("verify", "message = DOMAIN ++ static DH key", signed_message(a1, dh_key), s.loc(), S.nrender(a1)[:220])
        if outer is not None:
            # closure of is_some_and over self.dh_remote_pubkey_sig: its parameter *is* the received signature
            sig_ok = S.peel(a2)[0] == "arg" and S.peel(a2)[1] == 2
            what = "closure parameter of is_some_and(self.dh_remote_pubkey_sig)"
        else:
            x = S.peel(S.norm(a2))
            sig_ok = x[0] == "call" and x[1] == "ok" and S.self_field(x[2][0], "dh_remote_pubkey_sig")
            what = "payload of self.dh_remote_pubkey_sig"
        ctx.ob("verify", "signature is the received one", sig_ok, s.loc(), "%s: %s" % (what, S.nrender(a2)[:120]))
        if outer is not None:
            r0 = [b.site_expr(x) for x in S.ret_sites(b)]
            ctx.ob("verify", "closure result is the verify() result", len(r0) == 1 and r0[0][0] == "call" and r0[0][3] == s.bb, "%s:%d" % (b.file, b.line), "is_valid_signature = id_pk.verify(..)")
    dom = prog.const(N, r"protocol::STATIC_KEY_DOMAIN$")
    ctx.ob("verify", "domain separation constant", dom.get("s") == "noise-libp2p-static-key:", msg="STATIC_KEY_DOMAIN = %r" % dom.get("s"))
    # sibling: into_authentic signs the same message
    ia = ctx.body(N, r"protocol::Keypair::into_authentic$")
    sg = ia.call_sites(r"libp2p_identity::Keypair::sign$")
    ctx.floor("sign", "Keypair::sign call", sg, 1)
    kp = prog.adt(N, r"^libp2p_noise::protocol::Keypair$")
    pub_fields = [fl["n"] for fl in kp["variants"][0]["fields"] if re.search(r"(^|::)PublicKey$", fl.get("ty", fl.get("t", "")) or "")]
    for s in sg:
        a1 = ia.site_expr(s)[2][1]

        def own_public(k):
            return k[0] == "field" and k[1][0] == "arg" and k[1][1] == 1 and (k[2] in pub_fields if pub_fields else k[2] == "public")
        ctx.ob("sign", "signed message = DOMAIN ++ own static DH key (same shape as verified)", signed_message(a1, own_public), s.loc(), render(a1)[:220])
    # static key comes from the snow session
    it = ctx.body(N, r"io::framed::Codec::into_transport$")
    grs = it.call_sites(r"snow::HandshakeState::get_remote_static$")
    ctx.floor("origin", "get_remote_static", grs, 1)
    fs = it.call_sites(r"protocol::PublicKey::from_slice$")
    ok = len(fs) == 1 and S.has_call(it.site_expr(fs[0])[2][0], r"snow::HandshakeState::get_remote_static$")
    ctx.ob("origin", "static key = session.get_remote_static()", ok, fs[0].loc() if fs else "", S.nrender(it.site_expr(fs[0]))[:200] if fs else "")
    for s in S.ok_sites(it):
        tup = dict(it.site_expr(s)[4]).get("0")
        k0 = dict(tup[4]).get("0") if tup and tup[0] == "agg" else None
        x = S.peel(S.norm(k0)) if k0 else None
        ctx.ob("origin", "into_transport returns that key", x is not None and x[0] == "call" and x[1] == "ok" and S.has_call(x[2][0], r"protocol::PublicKey::from_slice$"), s.loc(), S.nrender(it.site_expr(s))[:200])
    mt = ctx.body(N, r"io::handshake::map_into_transport$")
    for s in S.ok_sites(mt):
        tup = dict(mt.site_expr(s)[4]).get("0")
        k0 = dict(tup[4]).get("0") if tup and tup[0] == "agg" else None
        x = S.peel(S.norm(k0)) if k0 else None
        ok = (x is not None and x[0] == "field" and x[2] == "0" and x[1][0] == "call" and x[1][1] == "ok" and S.has_call(x[1][2][0], r"Codec::into_transport$"))
        ctx.ob("origin", "map_into_transport forwards the key", ok, s.loc(), S.nrender(mt.site_expr(s))[:200])
    # received identity: recv_identity stores decoded key + signature from the same payload
    ri = ctx.body(N, r"io::handshake::recv_identity::\{closure#0\}$", "coroutine")
    w = ri.field_write_sites("id_remote_pubkey")
    ctx.floor("recv", "id_remote_pubkey store", w, 1)
    for s in w:
        e = ri.site_expr(s)
        ctx.ob("recv", "identity key decoded from the received payload", S.has_call(e, r"PublicKey::try_decode_protobuf$") and S.has_field(e, "identity_key"), s.loc(), S.nrender(e)[:200])
    w = ri.field_write_sites("dh_remote_pubkey_sig")
    for s in w:
        e = ri.site_expr(s)
        ctx.ob("recv", "signature taken from the received payload", S.has_field(e, "identity_sig"), s.loc(), S.nrender(e)[:160])
    whok = set()
    whos = set()
    for b in prog.bodies(N):
        if b.field_write_sites("id_remote_pubkey", r"handshake::State"):
            whok.add(b.npath)
        if b.field_write_sites("dh_remote_pubkey_sig", r"handshake::State"):
            whos.add(b.npath)
    ctx.ob("recv", "only recv_identity stores the remote identity", whok <= {ri.npath} and whos <= {ri.npath}, msg="%s / %s" % (sorted(whok), sorted(whos)))
    # ---- upgrades: order + peer id
    for role, steps in (("InboundConnectionUpgrade", ["recv_empty", "send_identity", "recv_identity"]), ("OutboundConnectionUpgrade", ["send_empty", "recv_identity", "send_identity"])):
        co = ctx.body(N, r"<Config as libp2p_core::upgrade::%s>::upgrade_(in|out)bound::\{closure#0\}$" % role, "coroutine")
        fin = co.call_sites(r"io::handshake::State::finish$")
        ctx.floor("upgrade", role + " finish", fin, 1)
        prev = None
        for st in steps:
            cs = co.call_sites(r"io::handshake::%s$" % st)
            ctx.floor("upgrade", "%s %s" % (role, st), cs, 1)
            lib.precedes(ctx, "upgrade", "%s: %s before finish" % (role, st), co, lib.bbs(cs), lib.bbs(fin), "%s precedes finish()" % st)
            if prev is not None:
                lib.precedes(ctx, "upgrade", "%s: %s after %s" % (role, st, prev[0]), co, prev[1], lib.bbs(cs), "message order of the XX pattern")
            prev = (st, lib.bbs(cs))

        def fin_part(e, idx):
            x = S.peel(S.norm(e))
            return (x[0] == "field" and x[2] == idx and x[1][0] == "call" and x[1][1] == "ok" and x[1][2][0][0] == "call"
                    and re.search(r"handshake::State::finish$", strip_generics(x[1][2][0][1])) is not None)
        tp = co.call_sites(r"libp2p_identity::PublicKey::to_peer_id$")
        ok = len(tp) == 1 and fin_part(co.site_expr(tp[0])[2][0], "0")
        ctx.ob("upgrade", role + ": peer id derived from finish()'s key", ok, tp[0].loc() if tp else "", S.nrender(co.site_expr(tp[0]))[:200] if tp else "")
        for s in S.ok_sites(co):
            tup = dict(co.site_expr(s)[4]).get("0")
            parts = dict(tup[4]) if tup and tup[0] == "agg" else {}
            p0 = S.peel(parts.get("0", ("unknown", "")))
            ok = (p0[0] == "call" and re.search(r"PublicKey::to_peer_id$", strip_generics(p0[1])) is not None and fin_part(p0[2][0], "0")
                  and "1" in parts and fin_part(parts["1"], "1"))
            ctx.ob("upgrade", role + ": Ok((peer_id, io)) from finish", ok, s.loc(), S.nrender(co.site_expr(s))[:200])
    # Output::new only in finish
    who = {s.body.npath for s in prog.callers(N, r"^libp2p_noise::io::Output::new$")}
    ctx.ob("who", "Output::new only in State::finish", who == {f.npath}, msg=str(sorted(who)))
    who = {s.body.npath for s in prog.callers(N, r"io::handshake::State::finish$")}
    ctx.ob("who", "finish only from the two upgrades", len(who) == 2 and all("upgrade_" in w for w in who), msg=str(sorted(who)))
    # ---- prologue: the field the public `with_prologue` setter stores is what both roles pass on, at the position the builder uses
    wp = ctx.body(N, r"^libp2p_noise::Config::with_prologue$")
    pf = set()
    for bi in wp.live:
        for st in wp.blocks[bi]["stmts"]:
            if st["k"] == "assign" and st["p"].get("pr") and st["p"]["l"] == 1:
                fl = [pr["n"] for pr in st["p"]["pr"] if pr["k"] == "field"]
                if fl and S.has(wp.rvalue_expr(st["r"]), lambda x: x[0] == "arg" and x[1] == 2):
                    pf.add(fl[-1])
    for s in wp.agg_sites(r"^libp2p_noise::Config$"):
        for fn, fe in wp.site_expr(s)[4]:
            if fe[0] == "arg" and fe[1] == 2:
                pf.add(fn)
    ctx.ob("prologue", "floor:with_prologue stores its argument", len(pf) == 1, nontrivial=False, msg=str(sorted(pf)))
    pfield = next(iter(pf)) if len(pf) == 1 else "prologue"
    pos = set()
    for fn in ("into_responder", "into_initiator"):
        b = ctx.body(N, r"^libp2p_noise::Config::%s$" % fn)
        cs = b.call_sites(r"protocol::noise_params_into_builder$")
        at = [i for i, a in enumerate(b.site_expr(cs[0])[2]) if S.self_field(a, pfield)] if len(cs) == 1 else []
        pos |= set(at)
        ctx.ob("prologue", fn + " passes the configured prologue", len(at) == 1, cs[0].loc() if cs else "", render(b.site_expr(cs[0]))[:160] if cs else "")
    nb = ctx.body(N, r"protocol::noise_params_into_builder$")
    pc = nb.call_sites(r"snow::Builder::prologue$")
    ok = len(pc) == 1 and len(pos) == 1 and S.is_arg(S.peel(nb.site_expr(pc[0])[2][1]), next(iter(pos)) + 1)
    ctx.ob("prologue", "builder.prologue(prologue)", ok, pc[0].loc() if pc else "", render(nb.site_expr(pc[0]))[:160] if pc else "")
    lib.expect_count(ctx, "prologue", "prologue set on every Ok path", nb, [0], [s.bb for s in S.ok_sites(nb)], lib.bbs(pc), (1, 1), "builder.prologue before Ok(builder)")
