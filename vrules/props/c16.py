"""C16 Noise handshake authenticates exactly the remote identity — guards (K1), origin (K5), sibling agreement (K11), who (K4), order (K3)."""
import re

from .. import lib, mir
from ..mir import render

EXPLANATION = ("State::finish returns Ok only when the remote identity key is present and is_valid_signature is true; the verified message is "
               "concat[STATIC_KEY_DOMAIN, static DH key obtained from the snow session], verified with the very identity key that is "
               "returned; the key returned is turned into the PeerId by both upgrade paths; Output::new is called only in finish and "
               "finish only after the three handshake steps of each role; into_authentic signs the same concat with the same domain "
               "constant; both roles feed the configured prologue to the snow builder; the identity key/signature stored for verification "
               "are the ones received in the remote's payload.")
ASSUMPTIONS = ["cryptographic soundness of snow (Noise XX) and of libp2p_identity signature verification", "message mutation behaviour is not executed"]
N = "libp2p_noise"


def check(ctx):
    prog = ctx.prog
    f = ctx.body(N, r"io::handshake::State::finish$")
    oks = [mir.Site(f, x[1], x[2]) for x in f.defs[0] if x[0] == "stmt" and render(f.rvalue_expr(x[3])).startswith("std::result::Result::Ok{")]
    ctx.floor("finish", "Ok return", oks, 1)
    for s in oks:
        ctx.guarded("finish", "Ok requires a valid signature", s,
                    lambda c, r, l: l == "true" and r.startswith("std::option::Option::is_some_and(std::option::Option::as_ref(self.dh_remote_pubkey_sig), closure:"), "is_valid_signature")
        ctx.guarded("finish", "Ok requires a remote identity key", s,
                    lambda c, r, l: l == "Continue" and "ok_or_else(self.id_remote_pubkey" in r, "id_remote_pubkey is Some")
        ctx.guarded("finish", "Ok requires a completed transport transition", s,
                    lambda c, r, l: l == "Continue" and r.startswith("discr(<std::result::Result as std::ops::Try>::branch(libp2p_noise::io::handshake::map_into_transport(self.io)))"), "map_into_transport Ok")
        r = render(f.site_expr(s))
        ctx.ob("finish", "returned key is the verified identity key", re.search(r"^std::result::Result::Ok\{0: tuple\{0: <std::result::Result as std::ops::Try>::branch\(std::option::Option::ok_or_else\(self\.id_remote_pubkey", r) is not None, s.loc(), r[:200])
    bad = f.agg_sites(r"^libp2p_noise::Error$", "BadSignature")
    for s in bad:
        ctx.guarded("finish", "BadSignature exactly when verification fails", s, lambda c, r, l: l == "false" and r.startswith("std::option::Option::is_some_and("), "!is_valid_signature")
    # closure: verify(id_pk, concat[DOMAIN, pubkey], sig)
    sw = [bi for bi in f.live if f.switch_info(bi) and render(f.switch_info(bi)[0]).startswith("std::option::Option::is_some_and(")]
    ctx.floor("finish", "is_some_and test", sw, 1)
    if sw:
        cond = f.switch_info(sw[0])[0]
        cl = lib.closure_of(prog, f, cond)
        ctx.use(cl)
        up = [x for x in mir.walk(cond) if x[0] == "closure"][0][2]
        ups = [render(u) for u in up]
        ctx.ob("verify", "closure captures the identity key and the session's static key",
               any("ok_or_else(self.id_remote_pubkey" in u for u in ups) and any("map_into_transport(self.io))@Continue.0.0" in u for u in ups), "%s:%d" % (cl.file, cl.line), str(ups)[:260])
        v = cl.call_sites(r"libp2p_identity::PublicKey::verify$")
        ctx.floor("verify", "PublicKey::verify call", v, 1)
        for s in v:
            e = cl.site_expr(s)
            a0, a1, a2 = [render(x) for x in e[2]]
            ctx.ob("verify", "verified with the remote identity key", a0 == "^id_pk", s.loc(), a0)
            ctx.ob("verify", "message = DOMAIN ++ static DH key", a1 == "<std::vec::Vec as std::ops::Deref>::deref(std::slice::concat(array{0: core::str::as_bytes(const:libp2p_noise::protocol::STATIC_KEY_DOMAIN), 1: libp2p_noise::<protocol::PublicKey as std::convert::AsRef>::as_ref(^pubkey)}))",
                   s.loc(), a1[:220])
            ctx.ob("verify", "signature is the received one", a2 == "<std::vec::Vec as std::ops::Deref>::deref(s)", s.loc(), a2)
        r0 = [x for x in cl.defs[0]]
        ctx.ob("verify", "closure result is the verify() result", len(r0) == 1 and r0[0][0] == "call" and v and r0[0][1] == v[0].bb, "%s:%d" % (cl.file, cl.line), "is_valid_signature = id_pk.verify(..)")
    dom = prog.const(N, r"protocol::STATIC_KEY_DOMAIN$")
    ctx.ob("verify", "domain separation constant", dom.get("s") == "noise-libp2p-static-key:", msg="STATIC_KEY_DOMAIN = %r" % dom.get("s"))
    # sibling: into_authentic signs the same message
    ia = ctx.body(N, r"protocol::Keypair::into_authentic$")
    sg = ia.call_sites(r"libp2p_identity::Keypair::sign$")
    ctx.floor("sign", "Keypair::sign call", sg, 1)
    for s in sg:
        a1 = render(ia.site_expr(s)[2][1])
        ctx.ob("sign", "signed message = DOMAIN ++ own static DH key (same shape as verified)",
               a1 == "<std::vec::Vec as std::ops::Deref>::deref(std::slice::concat(array{0: core::str::as_bytes(const:libp2p_noise::protocol::STATIC_KEY_DOMAIN), 1: libp2p_noise::<protocol::PublicKey as std::convert::AsRef>::as_ref(self.public)}))", s.loc(), a1[:220])
    # static key comes from the snow session
    it = ctx.body(N, r"io::framed::Codec::into_transport$")
    grs = it.call_sites(r"snow::HandshakeState::get_remote_static$")
    ctx.floor("origin", "get_remote_static", grs, 1)
    fs = it.call_sites(r"protocol::PublicKey::from_slice$")
    ok = len(fs) == 1 and "get_remote_static(self.session)" in render(it.site_expr(fs[0]))
    ctx.ob("origin", "static key = session.get_remote_static()", ok, fs[0].loc() if fs else "", render(it.site_expr(fs[0]))[:200] if fs else "")
    okr = [mir.Site(it, x[1], x[2]) for x in it.defs[0] if x[0] == "stmt" and render(it.rvalue_expr(x[3])).startswith("std::result::Result::Ok{")]
    for s in okr:
        ctx.ob("origin", "into_transport returns that key", "from_slice(" in render(it.site_expr(s)), s.loc(), render(it.site_expr(s))[:200])
    mt = ctx.body(N, r"io::handshake::map_into_transport$")
    okr = [mir.Site(mt, x[1], x[2]) for x in mt.defs[0] if x[0] == "stmt" and render(mt.rvalue_expr(x[3])).startswith("std::result::Result::Ok{")]
    for s in okr:
        ctx.ob("origin", "map_into_transport forwards the key", "Codec::into_transport(" in render(mt.site_expr(s)) and "@Continue.0.0" in render(mt.site_expr(s)), s.loc(), render(mt.site_expr(s))[:200])
    # received identity: recv_identity stores decoded key + signature from the same payload
    ri = ctx.body(N, r"io::handshake::recv_identity::\{closure#0\}$", "coroutine")
    w = ri.field_write_sites("id_remote_pubkey")
    ctx.floor("recv", "id_remote_pubkey store", w, 1)
    for s in w:
        r = render(ri.site_expr(s))
        ctx.ob("recv", "identity key decoded from the received payload", "PublicKey::try_decode_protobuf(" in r and ".identity_key" in r, s.loc(), r[:200])
    w = ri.field_write_sites("dh_remote_pubkey_sig")
    for s in w:
        r = render(ri.site_expr(s))
        ctx.ob("recv", "signature taken from the received payload", ".identity_sig" in r, s.loc(), r[:160])
    whok = set()
    whos = set()
    for b in prog.bodies(N):
        if b.field_write_sites("id_remote_pubkey", r"handshake::State"):
            whok.add(b.npath)
        if b.field_write_sites("dh_remote_pubkey_sig", r"handshake::State"):
            whos.add(b.npath)
    ctx.ob("recv", "only recv_identity stores the remote identity", whok <= {ri.npath} and whos <= {ri.npath}, msg="%s / %s" % (sorted(whok), sorted(whos)))
    # ---- upgrades: order + peer id
    for role, steps in (("InboundConnectionUpgrade", ["recv_empty", "send_identity", "recv_identity"]), ("OutboundConnectionUpgrade", ["send_empty", "recv_identity", "send_identity"])):
        co = ctx.body(N, r"<Config as libp2p_core::upgrade::%s>::upgrade_(in|out)bound::\{closure#0\}$" % role, "coroutine")
        fin = co.call_sites(r"io::handshake::State::finish$")
        ctx.floor("upgrade", role + " finish", fin, 1)
        prev = None
        for st in steps:
            cs = co.call_sites(r"io::handshake::%s$" % st)
            ctx.floor("upgrade", "%s %s" % (role, st), cs, 1)
            lib.precedes(ctx, "upgrade", "%s: %s before finish" % (role, st), co, lib.bbs(cs), lib.bbs(fin), "%s precedes finish()" % st)
            if prev is not None:
                lib.precedes(ctx, "upgrade", "%s: %s after %s" % (role, st, prev[0]), co, prev[1], lib.bbs(cs), "message order of the XX pattern")
            prev = (st, lib.bbs(cs))
        tp = co.call_sites(r"libp2p_identity::PublicKey::to_peer_id$")
        ok = len(tp) == 1 and "State::finish(" in render(co.site_expr(tp[0])) and "@Continue.0.0" in render(co.site_expr(tp[0]))
        ctx.ob("upgrade", role + ": peer id derived from finish()'s key", ok, tp[0].loc() if tp else "", render(co.site_expr(tp[0]))[:200] if tp else "")
        okr = [mir.Site(co, x[1], x[2]) for x in co.defs[0] if x[0] == "stmt" and render(co.rvalue_expr(x[3])).startswith("std::result::Result::Ok{")]
        for s in okr:
            r = render(co.site_expr(s))
            ctx.ob("upgrade", role + ": Ok((peer_id, io)) from finish", "to_peer_id(" in r and "@Continue.0.1" in r, s.loc(), r[:200])
    # Output::new only in finish
    who = {s.body.npath for s in prog.callers(N, r"^libp2p_noise::io::Output::new$")}
    ctx.ob("who", "Output::new only in State::finish", who == {f.npath}, msg=str(sorted(who)))
    who = {s.body.npath for s in prog.callers(N, r"io::handshake::State::finish$")}
    ctx.ob("who", "finish only from the two upgrades", len(who) == 2 and all("upgrade_" in w for w in who), msg=str(sorted(who)))
    # prologue
    for fn in ("into_responder", "into_initiator"):
        b = ctx.body(N, r"^libp2p_noise::Config::%s$" % fn)
        cs = b.call_sites(r"protocol::noise_params_into_builder$")
        ok = len(cs) == 1 and render(b.site_expr(cs[0])[2][1]).endswith("(self.prologue)") or (len(cs) == 1 and "self.prologue" in render(b.site_expr(cs[0])[2][1]))
        ctx.ob("prologue", fn + " passes the configured prologue", ok, cs[0].loc() if cs else "", render(b.site_expr(cs[0])[2][1])[:120] if cs else "")
    nb = ctx.body(N, r"protocol::noise_params_into_builder$")
    pc = nb.call_sites(r"snow::Builder::prologue$")
    ok = len(pc) == 1 and "prologue" in render(nb.site_expr(pc[0])[2][1])
    ctx.ob("prologue", "builder.prologue(prologue)", ok, pc[0].loc() if pc else "", render(nb.site_expr(pc[0]))[:160] if pc else "")
    lib.expect_count(ctx, "prologue", "prologue set on every Ok path", nb, [0], [mir.Site(nb, x[1], x[2]).bb for x in nb.defs[0] if x[0] == "stmt"], lib.bbs(pc), (1, 1), "builder.prologue before Ok(builder)")
