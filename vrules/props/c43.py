"""C43 provider records are only accepted from the provider itself — guards on all paths (K1), operand origin (K5), effect counting on the refusal edges (K2), who-may-call (K4)."""
import re

from .. import lib, mir
from .. import lib_kad as lk
from ..mir import render, strip_generics
from ..lib_kad import R, cnt, tg, K

EXPLANATION = (
    "on_connection_handler_event: the only call of provider_received in the crate lies in the HandlerEvent::AddProvider arm, on every path behind the "
    "edge `provider.node_id == source` (source = the peer id parameter the swarm passes for the connection), and receives exactly the compared "
    "provider and the announced key; the refusing edge reaches no store call and no application event. provider_received: RecordStore::add_provider "
    "and the FilterBoth application event are reachable only through the edge `provider.node_id != local_key.preimage()`, the stored record names the "
    "verified node_id as provider; add_provider has no caller besides provider_received and the local API start_providing (which names the local "
    "node). record_received: store.put and the FilterBoth event are reachable only through the *false* edge of the single test `record.publisher == "
    "Some(local_key.preimage())` (a second condition that re-opens the path, e.g. `&& store.get(key).is_some()`, is a violation), on the true edge no "
    "mutating RecordStore method is reachable and only the PutRecordRes acknowledgement is queued; record.publisher is not rewritten between test and "
    "store; the tested record is the one taken from HandlerEvent::PutRecord. store.put has no caller besides record_received and put_record.")
ASSUMPTIONS = ["`source` is the authenticated remote peer id of the connection (libp2p-swarm contract)",
               "a RecordStore implementation other than MemoryStore may do anything inside put/add_provider (trait contract)"]
TECHNIQUE = ("All patterns are evaluated on a normalised view of the MIR facts (vrules/lib_kad.canon): parameters by position, every "
             "single-definition local expanded to its initialiser, closure captures by index, trivial crate-local helpers (accessors, one-comparison "
             "predicates, one-line constructors) replaced by their bodies, private fields resolved by their type, comparisons normalised over operand "
             "order / mirrored operators / method-call form / `!`, guard sets closed under bool hoisting. Behaviour-preserving refactorings that must stay "
             "silent are archived in /verif/neutral/kad (01-12 and x1-author-combinators.diff).")
SELFTEST = [
    {"mutation": "seeded C43: publisher==local guard weakened with `&& self.store.get(&record.key).is_some()`", "caught_by": "publisher/record_received: store.put only if the publisher is not the local node"},
    {"mutation": "AddProvider arm: `provider.node_id != source` -> `==`", "caught_by": "source/provider_received only for provider.node_id == source"},
    {"mutation": "AddProvider arm: guard deleted", "caught_by": "source/provider_received only for provider.node_id == source"},
    {"mutation": "provider_received: `!=` local -> `==`", "caught_by": "local/add_provider only if the provider is not the local node"},
    {"mutation": "record_received: publisher test `==` -> `!=`", "caught_by": "publisher/record_received: store.put only if the publisher is not the local node"},
]

BH = r"^libp2p_kad::behaviour::Behaviour::"
HE = r"behaviour::Behaviour as libp2p_swarm::NetworkBehaviour>::on_connection_handler_event$"
LOCALKEY = None      # resolved in check(): `self.<kbuckets>.<local_key>.<preimage>` (accessor helpers are shown inlined)
STORE = r"record::store::RecordStore::(\w+)$|RecordStore>::(\w+)$"


def eq_edges(b, a_pat, c_pat, want_equal):
    """Edges on which `a == c` has the given truth (eq/ne, either operand order, `!`, hoisted into a bool local)."""
    return lk.rel_edges(b, a_pat, c_pat, "==" if want_equal else "!=")        # lk.passes() closes them under bool hoisting


def store_calls(b):
    return [s for s in b.call_sites(STORE)]


def check(ctx):
    global LOCALKEY
    prog = lk.canon(ctx)
    bh = r"behaviour::Behaviour$"
    KB_ = lk.fld(prog, bh, r"^kbucket::KBucketsTable<")
    STORE_ = lk.fld(prog, bh, r"^TStore$")
    QUEUE_ = lk.fld(prog, bh, r"^std::collections::VecDeque<libp2p_swarm::ToSwarm<")
    FILT_ = lk.fld(prog, bh, r"StoreInserts$")
    LOCALKEY = "self.%s.%s.%s" % (KB_, lk.fld(prog, r"kbucket::KBucketsTable$", r"^TKey$"), lk.fld(prog, r"kbucket::key::Key$", r"^T$"))
    h = ctx.body(K, HE)
    pr = ctx.body(K, BH + r"provider_received$")
    rr = ctx.body(K, BH + r"record_received$")
    PROV = lk.arg_of_type(pr, r"protocol::KadPeer$")                 # parameters identified by type, not by position
    PKEY = lk.arg_of_type(pr, r"record::Key$")
    RECA = lk.arg_of_type(rr, r"record::Record$")
    EV = lk.arg_of_type(h, r"HandlerEvent$")
    SRC = lk.arg_of_type(h, r"PeerId$")
    # ------------------------------------------------------------------ A: source check
    calls = prog.callers(K, BH + r"provider_received$")
    ctx.ob("source", "provider_received is called only from the inbound AddProvider handler", [s.body.npath for s in calls] == [h.npath], msg=str([s.body.short for s in calls]))
    SRC_OK = eq_edges(h, "^" + EV + r"@AddProvider\.provider\.node_id$", "^" + SRC + "$", True)
    SRC_BAD = eq_edges(h, "^" + EV + r"@AddProvider\.provider\.node_id$", "^" + SRC + "$", False)
    ctx.ob("source", "floor:provider.node_id == source test", len(SRC_OK) == 1 and len(SRC_BAD) == 1, lk.where(h), nontrivial=False, msg="%s %s" % (SRC_OK, SRC_BAD))
    tys = [str(x) for x in h.locals[1:h.argc + 1]]
    ctx.ob("source", "the compared id is the peer-id parameter of on_connection_handler_event, the event its event parameter", h.argc == 4 and "PeerId" in tys[1] and "HandlerEvent" in tys[3], lk.where(h), str(tys)[:200])
    for s in [x for x in calls if x.body is h]:
        ctx.ob("source", "provider_received only for provider.node_id == source", lk.passes(h, s.bb, SRC_OK), s.loc(),
               "every path to provider_received(..) passes the edge on which the announced provider is the sending peer")
        ctx.guarded("source", "provider_received only in the AddProvider arm", s, lambda c, r, l: l == "AddProvider" and r == "discr(%s)" % EV, "HandlerEvent::AddProvider")
        t = R(h, s)
        av = sorted(render(a) for a in h.site_expr(s)[2][1:])
        ctx.ob("source", "the accepted provider is the compared provider, with the announced key", av == sorted([EV + "@AddProvider.key", EV + "@AddProvider.provider"]), s.loc(), t)
    if SRC_BAD:
        reach = h.reachable(tg(SRC_BAD))
        bad_calls = [x for x in h.call_sites() if x.bb in reach and re.search(r"provider_received$|RecordStore|VecDeque::push_back$", strip_generics(h.call_name(x.term)))]
        ctx.ob("source", "a provider announced by someone else changes nothing (no store call, no event)", not bad_calls, lk.where(h), str([R(h, x)[:80] for x in bad_calls]))
    direct = [x for x in store_calls(h) if re.search(r"add_provider$|::put$", strip_generics(h.call_name(x.term)))]
    ctx.ob("source", "the handler itself never stores records or providers directly", not direct, lk.where(h), str([R(h, x)[:80] for x in direct]))
    # ------------------------------------------------------------------ B: local check
    NOT_LOCAL = eq_edges(pr, "^" + PROV + r"\.node_id$", "^" + re.escape(LOCALKEY) + "$", False)
    IS_LOCAL = eq_edges(pr, "^" + PROV + r"\.node_id$", "^" + re.escape(LOCALKEY) + "$", True)
    ctx.ob("local", "floor:provider.node_id != local test", len(NOT_LOCAL) == 1 and len(IS_LOCAL) == 1, lk.where(pr), nontrivial=False, msg="%s %s" % (NOT_LOCAL, IS_LOCAL))
    ap = [s for s in store_calls(pr) if strip_generics(pr.call_name(s.term)).endswith("add_provider")]
    ctx.floor("local", "store.add_provider", ap, 1, exact=True)
    REC = "libp2p_kad::record::ProviderRecord::ProviderRecord{key: %s, provider: %s.node_id, expires: " % (PKEY, PROV)
    for s in ap:
        ctx.ob("local", "add_provider only if the provider is not the local node", lk.passes(pr, s.bb, NOT_LOCAL), s.loc(), "every path to store.add_provider passes provider.node_id != local_key.preimage()")
        a = render(pr.site_expr(s)[2][1])
        ctx.ob("local", "the stored provider is the verified node_id", a.startswith(REC) and a.endswith("addresses: %s.multiaddrs}" % PROV), s.loc(), a[:200])
        ctx.guarded("local", "direct storing only in Unfiltered mode", s, lambda c, r, l: l == "Unfiltered" and r == "discr(self.%s)" % FILT_, "StoreInserts::Unfiltered")
    evs = [s for s in pr.call_sites(r"VecDeque::push_back$") if "InboundRequest::AddProvider" in R(pr, s)]
    ctx.floor("local", "AddProvider events", evs, 2)
    for s in evs:
        ctx.ob("local", "no AddProvider event for the local node as provider", lk.passes(pr, s.bb, NOT_LOCAL), s.loc(), "")
        t = R(pr, s)
        if "record: std::option::Option::Some" in t:
            ctx.ob("local", "the record offered to the application names the verified node_id", "record: std::option::Option::Some{0: " + REC in t, s.loc(), t[-220:])
    if IS_LOCAL:
        reach = pr.reachable(tg(IS_LOCAL))
        bad_calls = [x for x in pr.call_sites() if x.bb in reach and re.search(r"RecordStore|VecDeque::push_back$", strip_generics(pr.call_name(x.term)))]
        ctx.ob("local", "the local node announced as provider changes nothing", not bad_calls, lk.where(pr), str([R(pr, x)[:80] for x in bad_calls]))
    other = [s for s in store_calls(pr) if s not in ap and re.search(r"::(put|remove|remove_provider)$", strip_generics(pr.call_name(s.term)))]
    ctx.ob("local", "provider_received changes the store only through add_provider", not other, lk.where(pr), str([R(pr, x)[:60] for x in other]))
    who = {lk.root_fn(prog, s.body) for s in prog.callers(K, r"record::store::RecordStore::add_provider$|RecordStore>::add_provider$") if "record::store::memory" not in s.body.npath}
    two = {"libp2p_kad::behaviour::Behaviour::provider_received", "libp2p_kad::behaviour::Behaviour::start_providing"}
    bad = sorted(c.npath for c in who if not lk.allowed_fn(prog, K, c, two))
    ctx.ob("local", "add_provider called only by provider_received and start_providing", not bad and len(who) >= 2, msg="callers %s; not permitted %s" % (sorted(c.short for c in who), bad))
    sp = ctx.body(K, BH + r"start_providing$")
    for s in [x for x in store_calls(sp) if strip_generics(sp.call_name(x.term)).endswith("add_provider")]:
        a = render(sp.site_expr(s)[2][1])
        ctx.ob("local", "start_providing stores the local node as provider", re.search(r"ProviderRecord::new\(.*, " + re.escape(LOCALKEY) + r", |provider: " + re.escape(LOCALKEY), a) is not None, s.loc(), a[:240])
    # ------------------------------------------------------------------ C: local publisher
    PUB = r"^std::option::Option::as_ref\(%s\.publisher\)$" % RECA
    LOC = "^" + re.escape("std::option::Option::Some{0: %s}" % LOCALKEY) + "$"
    NOT_PUB = eq_edges(rr, PUB, LOC, False)
    IS_PUB = eq_edges(rr, PUB, LOC, True)
    ctx.ob("publisher", "floor:publisher == local test", len(NOT_PUB) == 1 and len(IS_PUB) == 1, lk.where(rr), nontrivial=False, msg="%s %s" % (NOT_PUB, IS_PUB))
    puts = [s for s in store_calls(rr) if strip_generics(rr.call_name(s.term)).endswith("::put")]
    ctx.floor("publisher", "store.put", puts, 1, exact=True)
    for s in puts:
        ok = lk.passes(rr, s.bb, NOT_PUB)
        ctx.ob("publisher", "record_received: store.put only if the publisher is not the local node", ok, s.loc(),
               "every path to store.put passes the false edge of `record.publisher == Some(local)`" if ok else
               "a path reaches store.put although `record.publisher == Some(local)` held (the guard was weakened by a further condition or removed)")
        a = render(rr.site_expr(s)[2][1])
        ctx.ob("publisher", "the stored record is the tested record", a == "libp2p_kad::<record::Record as std::clone::Clone>::clone(%s)" % RECA, s.loc(), a)
    evs = [s for s in rr.call_sites(r"VecDeque::push_back$") if "InboundRequest::PutRecord" in R(rr, s)]
    ctx.floor("publisher", "PutRecord events", evs, 2)
    for s in evs:
        ctx.ob("publisher", "no PutRecord event (nothing offered for storing) for a record published by the local node", lk.passes(rr, s.bb, NOT_PUB), s.loc(), "")
    if IS_PUB:
        reach = rr.reachable(tg(IS_PUB))
        sc = [x for x in store_calls(rr) if x.bb in reach and re.search(r"::(put|remove|add_provider|remove_provider)$", strip_generics(rr.call_name(x.term)))]
        ctx.ob("publisher", "local publisher: no mutating RecordStore method is reachable", not sc, lk.where(rr), str([R(rr, x)[:80] for x in sc]))
        pb = [x for x in rr.call_sites(r"VecDeque::push_back$") if x.bb in reach]
        ok = len(pb) == 1 and "HandlerIn::PutRecordRes" in R(rr, pb[0]) and cnt(rr, tg(IS_PUB), rr.return_blocks(), pb) == (1, 1)
        ctx.ob("publisher", "local publisher: only the acknowledgement is queued", ok, lk.where(rr), str([R(rr, x)[:120] for x in pb]))
        # the test is not re-opened: from the true edge the rest of the function (the merge/store part) is unreachable
        rest = [x for x in rr.call_sites(r"count_nodes_between$|Record::is_expired$|exp_decrease$") if x.bb in reach]
        ctx.ob("publisher", "local publisher: returns before any further processing", not rest, lk.where(rr), str([R(rr, x)[:60] for x in rest]))
    pw = rr.field_write_sites("publisher")
    ctx.ob("publisher", "record.publisher is not rewritten inside record_received", not pw, lk.where(rr), "%d writes" % len(pw))
    rc = prog.callers(K, BH + r"record_received$")
    ctx.ob("publisher", "record_received is called only from the inbound PutRecord handler", [s.body.npath for s in rc] == [h.npath], msg=str([s.body.short for s in rc]))
    for s in [x for x in rc if x.body is h]:
        t = R(h, s)
        ctx.ob("publisher", "the tested record is the one carried by HandlerEvent::PutRecord", EV + "@PutRecord.record" in [render(a) for a in h.site_expr(s)[2]], s.loc(), t)
    who = {lk.root_fn(prog, s.body) for s in prog.callers(K, r"record::store::RecordStore::put$|RecordStore>::put$") if "record::store::memory" not in s.body.npath}
    two = {"libp2p_kad::behaviour::Behaviour::put_record", "libp2p_kad::behaviour::Behaviour::record_received"}
    bad = sorted(c.npath for c in who if not lk.allowed_fn(prog, K, c, two))
    ctx.ob("publisher", "store.put called only by record_received and put_record", not bad and len(who) >= 2, msg="callers %s; not permitted %s" % (sorted(c.short for c in who), bad))
    other = [s for s in store_calls(rr) if s not in puts and re.search(r"::(remove|add_provider|remove_provider)$", strip_generics(rr.call_name(s.term)))]
    ctx.ob("publisher", "record_received changes the store only through put", not other, lk.where(rr), str([R(rr, x)[:60] for x in other]))

# thorough-tier sensitivity self-test (vrules/selftest.py): one-edit variants of the source that break the property
MUTANTS = [
    {"name": 'source check inverted', "file": 'protocols/kad/src/behaviour.rs',
     "find": '                if provider.node_id != source {\n                    return;\n                }\n',
     "replace": '                if provider.node_id == source {\n                    return;\n                }\n',
     "expect": '^source/provider_received only for', "why": 'third-party provider records accepted'},
    {"name": 'local provider check inverted', "file": 'protocols/kad/src/behaviour.rs',
     "find": '        if &provider.node_id != self.kbuckets.local_key().preimage() {\n            let record = ProviderRecord {',
     "replace": '        if &provider.node_id == self.kbuckets.local_key().preimage() {\n            let record = ProviderRecord {',
     "expect": '^local/add_provider only if', "why": 'local node stored as remote provider'},
    {"name": 'publisher check inverted', "file": 'protocols/kad/src/behaviour.rs',
     "find": '        if record.publisher.as_ref() == Some(self.kbuckets.local_key().preimage()) {',
     "replace": '        if record.publisher.as_ref() != Some(self.kbuckets.local_key().preimage()) {',
     "expect": '^publisher/record_received: store.put only if', "why": 'own record overwritten by replication'},
    {"name": 'source check removed', "file": 'protocols/kad/src/behaviour.rs',
     "find": '                if provider.node_id != source {\n                    return;\n                }\n',
     "replace": '',
     "expect": '^source/provider_received only for', "why": 'third-party provider records accepted'},
]
