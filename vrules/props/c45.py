"""C45 request-response: every request exactly one outcome — per-arm path counting (K2), guards (K1), origin (K5), who-writes (K4), decision table of Handler::poll (K7)."""
import re

from .. import lib, mir
from ..mir import render, strip_generics

EXPLANATION = ("Behaviour::on_connection_handler_event, per handler::Event arm (9): the pending-set removal for the arm's own request id "
               "happens exactly once and, whenever it reports `removed`, exactly one outcome event of the arm's kind is queued (never a "
               "second, never another arm's kind); inbound timeout/failure arms queue nothing when nothing was removed; a Request is "
               "delivered only together with its insertion into pending_inbound_responses. on_connection_closed removes the connection "
               "and drains both pending sets into one ConnectionClosed failure per id; on_dial_failure and preload_new_handler take "
               "(HashMap::remove) the peer's queued requests and produce one DialFailure outcome / one pending-set insertion + handler "
               "hand-over per request; try_send_request returns None exactly on the path that inserted the id and notified a handler; "
               "send_request_with_addresses queues the request (and one Dial) exactly when it was handed back. Request ids: the outbound "
               "counter is written only by its accessor (+1, value returned is the pre-increment copy), inbound ids come from one shared "
               "AtomicU64::fetch_add(1). Handler: every worker_streams completion maps to exactly one event of the right kind (decision "
               "table over Inbound/Outbound x Ok(Ok)/Ok(Err)/Err(Timeout)), every dial-upgrade error and a failed try_push produce one "
               "event for the popped request, queued events/requests are forwarded unchanged.")
ASSUMPTIONS = ["interleaving of swarm and handler events (e.g. a handler event arriving after ConnectionClosed) is not analysed",
               "futures_bounded::FuturesMap yields each pushed future exactly once (completion or timeout)",
               "futures mpsc/oneshot channel semantics; codec implementations",
               "u64 request id counters do not wrap"]
RR = "libp2p_request_response"
EV = r"^libp2p_request_response::Event$"
HEV = r"^libp2p_request_response::handler::Event$"
QUEUE = "self.pending_events"

SELFTEST = [
    {"mutation": "seeded/C45: OutboundUnsupportedProtocols arm no longer calls remove_pending_outbound_response", "caught_by": "arm/OutboundUnsupportedProtocols: pending-set removal exactly once"},
    {"mutation": "InboundTimeout arm: push the InboundFailure before / regardless of `if removed`", "caught_by": "arm/InboundTimeout: outcome only after the id was removed"},
    {"mutation": "InboundStreamFailed arm: `if !removed`", "caught_by": "arm/InboundStreamFailed: removed => exactly one outcome"},
    {"mutation": "ResponseOmission arm: is_pending_inbound instead of remove_pending_inbound_response", "caught_by": "arm/ResponseOmission: pending-set removal exactly once"},
    {"mutation": "on_dial_failure: `.get(&peer)` + iter() instead of `.remove(&peer)`", "caught_by": "dial-failure/queued requests are taken (HashMap::remove)"},
    {"mutation": "on_connection_closed: second loop emits nothing", "caught_by": "closed/pending_outbound_responses: one failure per pending id"},
    {"mutation": "preload_new_handler: register the connection only if it has pending requests", "caught_by": "preload/the connection (with its pending set) is registered on every path"},
    {"mutation": "try_send_request: drop conn.pending_outbound_responses.insert", "caught_by": "try-send/None <=> id tracked and handler notified"},
    {"mutation": "send_request_with_addresses: drop(request) instead of queueing it", "caught_by": "send/a request handed back is queued exactly once (with one dial)"},
    {"mutation": "next_outbound_request_id: `+= 0`", "caught_by": "ids/outbound counter advances by one"},
    {"mutation": "next_outbound_request_id: increment before taking the copy", "caught_by": "ids/accessor returns the pre-increment value"},
    {"mutation": "Handler::poll: (Outbound, Err(Timeout)) arm falls through without an event", "caught_by": "handler-poll/worker result table + every finished worker yields exactly one event"},
    {"mutation": "Handler::poll: (Inbound, Err(Timeout)) reports ResponseOmission", "caught_by": "handler-poll/worker result table"},
    {"mutation": "Handler::poll: popped request dropped instead of pushed to requested_outbound", "caught_by": "handler-poll/an outbound request moves to requested_outbound exactly when its substream is requested"},
    {"mutation": "on_dial_upgrade_error: Timeout arm pushes nothing", "caught_by": "dial-upgrade-error/Timeout -> OutboundTimeout"},
    {"mutation": "on_fully_negotiated_outbound: failed try_push reports nothing", "caught_by": "negotiated-outbound/a rejected worker yields exactly one OutboundStreamFailed, an accepted one none"},
]

# arm -> (pending set, request-id field of the handler event, (Event variant, sub-adt, sub-variant), conditional?)
ARMS = {
    "Response": ("outbound", "request_id", ("Message", "Message", "Response"), False),
    "OutboundTimeout": ("outbound", "0", ("OutboundFailure", "OutboundFailure", "Timeout"), False),
    "OutboundUnsupportedProtocols": ("outbound", "0", ("OutboundFailure", "OutboundFailure", "UnsupportedProtocols"), False),
    "OutboundStreamFailed": ("outbound", "request_id", ("OutboundFailure", "OutboundFailure", "Io"), False),
    "ResponseSent": ("inbound", "0", ("ResponseSent", None, None), False),
    "ResponseOmission": ("inbound", "0", ("InboundFailure", "InboundFailure", "ResponseOmission"), False),
    "InboundTimeout": ("inbound", "0", ("InboundFailure", "InboundFailure", "Timeout"), True),
    "InboundStreamFailed": ("inbound", "request_id", ("InboundFailure", "InboundFailure", "Io"), True),
}


def outcome_of(e, adt_pat=EV):
    """(variant, sub-variant, rendered request_id) of the first Event aggregate inside expression e, or None."""
    rx = re.compile(adt_pat)
    for s in mir.walk(e):
        if s[0] == "agg" and s[1] == "adt" and rx.search(strip_generics(s[2])):
            f = dict(s[4])
            sub = None
            rid = f.get("request_id", f.get("0"))
            for key in ("error", "message"):
                x = f.get(key)
                if x is not None and x[0] == "agg" and x[1] == "adt":
                    sub = x[3]
                    if key == "message":
                        rid = dict(x[4]).get("request_id")
            return (s[3], sub, render(rid) if rid is not None else None)
    return None


def queue_pushes(b, queue=QUEUE, adt_pat=EV):
    """[(site, outcome)] for VecDeque::push_back(queue, ..Event..) sites."""
    out = []
    for s in b.call_sites(r"VecDeque::push_back$"):
        e = b.site_expr(s)
        if render(e[2][0]) != queue:
            continue
        o = outcome_of(e[2][1], adt_pat)
        if o is not None:
            out.append((s, o))
    return out


def truth_edges(b, site, value):
    """CFG edges on which the bool result of the call at `site` is known to be `value` (looks through `!`)."""
    out = set()
    for bi in b.live:
        info = b.switch_info(bi)
        if not info:
            continue
        cond, labs = info
        neg = False
        while cond[0] == "un" and cond[1] == "Not":
            cond = cond[2]
            neg = not neg
        if not (cond[0] == "call" and cond[3] == site.bb):
            continue
        want = "true" if (value != neg) else "false"
        for tgt, ls in labs.items():
            if ls == {want}:
                out.add((bi, tgt))
    return out


def loop_of(b, into_iter_site):
    """(next_site, some_target, none_target) of the `for` loop fed by the into_iter call at `into_iter_site`."""
    for s in b.call_sites(r"Iterator>::next$"):
        a0 = b.site_expr(s)[2][0]
        if a0[0] != "local":
            continue
        init = b.init_expr(a0[1])
        if init[0] == "call" and init[3] == into_iter_site.bb:
            some = [t for _, t in lib.switch_edges_on_site(b, s, {"Some"})]
            none = [t for _, t in lib.switch_edges_on_site(b, s, {"None"})]
            if len(some) == 1 and len(none) == 1:
                return s, some[0], none[0]
    return None


def per_element(ctx, rule, inst, b, loop, marker_bbs, desc, where=""):
    """Exactly one marker between taking an element (Some edge) and asking for the next one."""
    nxt, some, none = loop
    got = lib.count_range(b, [some], [nxt.bb], marker_bbs)
    ctx.ob(rule, inst, got == (1, 1), where or nxt.loc(), "%s: per drained element %s (expected (1, 1))" % (desc, got))


def check(ctx):
    prog = ctx.prog
    # ================================================================= on_connection_handler_event
    h = ctx.body(RR, r"<Behaviour as libp2p_swarm::NetworkBehaviour>::on_connection_handler_event$")
    rets = h.return_blocks()
    pushes = queue_pushes(h)
    ctx.floor("arm", "outcome pushes in on_connection_handler_event", pushes, 9)
    all_push_bbs = lib.bbs([s for s, _ in pushes])
    sw = h.switch_info(0)
    arms_seen = set()
    if sw and render(sw[0]) == "discr(event)":
        for ls in sw[1].values():
            arms_seen |= set(ls)
    ctx.ob("arm", "floor:handler::Event arms", arms_seen == set(ARMS) | {"Request"}, nontrivial=False,
           msg="arms of the dispatch: %s" % sorted(arms_seen))
    for arm, (side, idf, (evv, _, subv), conditional) in ARMS.items():
        ents = lib.arm_entry(h, r"^discr\(event\)$", arm)
        if len(ents) != 1:
            ctx.ob("arm", "%s: arm entry" % arm, False, msg="arm not found: %s" % ents)
            continue
        ent = ents[0][1]
        region = h.reachable([ent])
        rid = "event@%s.%s" % (arm, idf)
        rem = [s for s in h.call_sites(r"Behaviour::remove_pending_%s_response$" % side) if s.bb in region]
        wrong = [s for s in h.call_sites(r"Behaviour::remove_pending_%s_response$" % ("inbound" if side == "outbound" else "outbound")) if s.bb in region]
        got = lib.count_range(h, [ent], rets, lib.bbs(rem))
        ctx.ob("arm", "%s: pending-set removal exactly once" % arm, got == (1, 1) and not wrong, rem[0].loc() if rem else "%s:%d" % (h.file, h.line),
               "remove_pending_%s_response on all paths of the arm: %s (expected (1, 1)); calls on the other set: %d" % (side, got, len(wrong)))
        for s in rem:
            a = [render(x) for x in h.site_expr(s)[2]]
            ctx.ob("arm", "%s: removal is keyed by this event's peer/connection/request id" % arm, a[1:] == ["peer", "connection_id", rid], s.loc(), str(a[1:]))
        mine = [(s, o) for s, o in pushes if s.bb in region]
        right = [s for s, o in mine if o[0] == evv and o[1] == subv]
        ctx.ob("arm", "%s: only its own outcome kind" % arm, len(right) == len(mine) and len(mine) >= 1, mine[0][0].loc() if mine else "",
               "outcome events queued in the arm: %s (expected only %s/%s)" % ([o[:2] for _, o in mine], evv, subv))
        for s, o in mine:
            ctx.ob("arm", "%s: outcome carries this event's request id" % arm, o[2] == rid, s.loc(), "request_id = %s" % o[2])
            pe = render(h.site_expr(s))
            ctx.ob("arm", "%s: outcome carries this event's peer and connection" % arm, "peer: peer, connection_id: connection_id" in pe, s.loc(), pe[90:200])
        # whenever removed: exactly one outcome; never two
        false_edges, true_edges = set(), set()
        for s in rem:
            false_edges |= truth_edges(h, s, False)
            true_edges |= truth_edges(h, s, True)
        got = lib.count_range(h, [ent], rets, lib.bbs(right), blocked_edges=false_edges)
        ctx.ob("arm", "%s: removed => exactly one outcome" % arm, got == (1, 1), right[0].loc() if right else "",
               "outcome pushes on every path of the arm on which the id was removed: %s (expected (1, 1))" % (got,))
        got = lib.count_range(h, [ent], rets, all_push_bbs)
        ctx.ob("arm", "%s: at most one outcome" % arm, got is not None and got[1] <= 1, msg="outcome pushes on all paths: %s" % (got,))
        if conditional:
            ftg = [t for _, t in false_edges]
            got = lib.count_range(h, ftg, rets, all_push_bbs) if ftg else None
            ctx.ob("arm", "%s: nothing queued when nothing was removed" % arm, got == (0, 0), rem[0].loc() if rem else "",
                   "outcome pushes on the not-removed edge: %s (expected (0, 0))" % (got,))
            for s, _ in mine:
                ok = bool(true_edges) and h.must_pass_edges(s.bb, true_edges, ent)
                ctx.ob("arm", "%s: outcome only after the id was removed" % arm, ok, s.loc(),
                       "every path of the arm to the push passes the `removed == true` edge" if ok else "a path reaches the push without `removed` being known true")
    # Request arm
    ents = lib.arm_entry(h, r"^discr\(event\)$", "Request")
    if len(ents) == 1:
        ent = ents[0][1]
        region = h.reachable([ent])
        gc = [s for s in h.call_sites(r"Behaviour::get_connection_mut$") if s.bb in region]
        ctx.floor("arm", "Request: get_connection_mut", gc, 1)
        ins = [s for s in h.call_sites(r"HashSet::insert$") if s.bb in region and ".pending_inbound_responses" in render(h.site_expr(s)[2][0])]
        mine = [(s, o) for s, o in pushes if s.bb in region]
        ctx.ob("arm", "Request: only Message::Request is queued", [o[:2] for _, o in mine] == [("Message", "Request")], msg=str([o[:2] for _, o in mine]))
        for g in gc[:1]:
            a = [render(x) for x in h.site_expr(g)[2]]
            ctx.ob("arm", "Request: connection looked up by this event's peer/connection", a[1:] == ["peer", "connection_id"], g.loc(), str(a))
            some = [t for _, t in lib.switch_edges_on_site(h, g, {"Some"})]
            none = [t for _, t in lib.switch_edges_on_site(h, g, {"None"})]
            gi = lib.count_range(h, some, rets, lib.bbs(ins)) if some else None
            gp = lib.count_range(h, some, rets, lib.bbs([s for s, _ in mine])) if some else None
            ctx.ob("arm", "Request: delivered <=> tracked in pending_inbound_responses", gi == (1, 1) and gp == (1, 1), g.loc(),
                   "on the known-connection edge: insert %s, delivery %s (expected (1, 1) each)" % (gi, gp))
            gn = lib.count_range(h, none, rets, all_push_bbs) if none else None
            ctx.ob("arm", "Request: not delivered for an unknown connection", gn == (0, 0), g.loc(), "pushes on the None edge: %s" % (gn,))
        for s in ins:
            e = h.site_expr(s)
            ctx.ob("arm", "Request: tracked id is the delivered id", render(e[2][1]) == "event@Request.request_id" and "get_connection_mut(self, peer, connection_id)@Some.0" in render(e[2][0]), s.loc(), render(e)[-120:])
        for s, o in mine:
            ctx.ob("arm", "Request: delivered id is the handler's id", o[2] == "event@Request.request_id", s.loc(), str(o))
    else:
        ctx.ob("arm", "Request: arm entry", False, msg=str(ents))

    # ================================================================= removal helpers
    for side in ("outbound", "inbound"):
        b = ctx.body(RR, r"^libp2p_request_response::Behaviour::remove_pending_%s_response$" % side)
        d = b.defs.get(0, [])
        r = render(b.site_expr(mir.Site(b, d[0][1], d[0][2]))) if len(d) == 1 else ""
        ctx.ob("helper", "remove_pending_%s_response = get_connection_mut(..).map(remove).unwrap_or(false)" % side,
               re.match(r"^std::option::Option::unwrap_or\(std::option::Option::map\(libp2p_request_response::Behaviour::get_connection_mut\(self, peer, connection_id\), closure:.*\[request\]\), 0\)$", r) is not None,
               "%s:%d" % (b.file, b.line), r[:200])
        cl = [c for c in prog.children(b) if c.kind == "closure"]
        ok = False
        txt = ""
        if len(cl) == 1:
            ctx.use(cl[0])
            d = cl[0].defs.get(0, [])
            txt = render(cl[0].site_expr(mir.Site(cl[0], d[0][1], d[0][2]))) if len(d) == 1 else ""
            ok = txt == "std::collections::HashSet::remove(c.pending_%s_responses, ^request)" % side
        ctx.ob("helper", "remove_pending_%s_response removes from pending_%s_responses" % (side, side), ok, "%s:%d" % (b.file, b.line), txt)
    g = ctx.body(RR, r"^libp2p_request_response::Behaviour::get_connection_mut$")
    txt = " ".join(render(c.site_expr(s)) for c in [g] + _descendants(prog, g) for s in c.call_sites())
    ctx.ob("helper", "get_connection_mut selects by peer and connection id", "HashMap::get_mut(self.connected, peer)" in txt and
           "<libp2p_swarm::ConnectionId as std::cmp::PartialEq>::eq(c.id, ^connection_id)" in txt and "Iterator>::find(" in txt, "%s:%d" % (g.file, g.line), txt[:160])

    # ================================================================= on_connection_closed
    c = ctx.body(RR, r"^libp2p_request_response::Behaviour::on_connection_closed$")
    crets = c.return_blocks()
    cp = queue_pushes(c)
    ctx.floor("closed", "outcome pushes in on_connection_closed", cp, 2, exact=True)
    for fld, want in (("pending_inbound_responses", ("InboundFailure", "ConnectionClosed")), ("pending_outbound_responses", ("OutboundFailure", "ConnectionClosed"))):
        its = [s for s in c.call_sites(r"IntoIterator>::into_iter$") if render(c.site_expr(s)[2][0]).endswith("." + fld)]
        ctx.floor("closed", "drain of " + fld, its, 1, exact=True)
        for it in its:
            got = lib.count_range(c, [0], crets, [it.bb])
            ctx.ob("closed", "%s drained on every path" % fld, got == (1, 1), it.loc(), "into_iter on all paths: %s" % (got,))
            base = c.site_expr(it)[2][0]
            removed = False
            for x in mir.walk(base):
                if x[0] == "closure":
                    cb = prog.closure_body(c, x[1])
                    if cb.call_sites(r"(SmallVec|Vec)::(remove|swap_remove)$"):
                        removed = True
            ctx.ob("closed", "%s: the drained connection was removed from `connected`" % fld, removed, it.loc(),
                   "the set belongs to the value returned by connections.remove(position)")
            lp = loop_of(c, it)
            if lp is None:
                ctx.ob("closed", "%s: loop found" % fld, False, it.loc(), "for-loop over the set not recognised")
                continue
            inloop = [(s, o) for s, o in cp if s.bb in c.reachable([lp[1]], stop_nodes=[lp[0].bb])]
            ctx.ob("closed", "%s -> %s::%s" % (fld, want[0], want[1]), [o[:2] for _, o in inloop] == [want], lp[0].loc(), str([o[:2] for _, o in inloop]))
            per_element(ctx, "closed", "%s: one failure per pending id" % fld, c, lp, lib.bbs([s for s, _ in inloop]), "ConnectionClosed failure")
            for s, o in inloop:
                ctx.ob("closed", "%s: failure carries the drained id" % fld, o[2] is not None and o[2].endswith("Iterator>::next(iter)@Some.0"), s.loc(), str(o[2]))
                ctx.ob("closed", "%s: failure carries the closed peer/connection" % fld, "peer: arg2.peer_id, connection_id: arg2.connection_id" in render(c.site_expr(s)), s.loc(), "")
    pos = c.call_sites(r"Iterator>::position$")
    ok = False
    for s in pos:
        cb = lib.closure_of(prog, c, c.site_expr(s))
        if cb is not None:
            d = cb.defs.get(0, [])
            ok = len(d) == 1 and render(cb.site_expr(mir.Site(cb, d[0][1], d[0][2]))) == "<libp2p_swarm::ConnectionId as std::cmp::PartialEq>::eq(c.id, ^connection_id)"
    ctx.ob("closed", "the removed connection is the closed one (c.id == connection_id)", ok, pos[0].loc() if pos else "", "position(|c| c.id == connection_id)")

    # ================================================================= on_dial_failure
    d = ctx.body(RR, r"^libp2p_request_response::Behaviour::on_dial_failure$")
    dp = queue_pushes(d)
    ctx.floor("dial-failure", "outcome pushes in on_dial_failure", dp, 1, exact=True)
    rm = [s for s in d.call_sites(r"HashMap::remove$") if render(d.site_expr(s)[2][0]) == "self.pending_outbound_requests"]
    ctx.floor("dial-failure", "pending_outbound_requests.remove", rm, 1, exact=True)
    its = d.call_sites(r"IntoIterator>::into_iter$")
    for it in its:
        src = render(d.site_expr(it)[2][0])
        ctx.ob("dial-failure", "queued requests are taken (HashMap::remove)", src.startswith("std::collections::HashMap::remove(self.pending_outbound_requests, arg2.peer_id@Some.0)@Some.0"), it.loc(), src[:140])
        lp = loop_of(d, it)
        if lp is None:
            ctx.ob("dial-failure", "loop found", False, it.loc())
            continue
        per_element(ctx, "dial-failure", "one DialFailure outcome per queued request", d, lp, lib.bbs([s for s, _ in dp]), "OutboundFailure::DialFailure")
    ctx.ob("dial-failure", "floor:loop over the removed requests", len(its) == 1, nontrivial=False, msg="%d loops" % len(its))
    for s in rm:
        some = [t for _, t in lib.switch_edges_on_site(d, s, {"Some"})]
        got = lib.count_range(d, some, d.return_blocks(), lib.bbs(its)) if some else None
        ctx.ob("dial-failure", "removed requests are always drained", got == (1, 1), s.loc(), "loop entered on the Some edge: %s" % (got,))
    for s, o in dp:
        ctx.ob("dial-failure", "outcome kind", o[:2] == ("OutboundFailure", "DialFailure"), s.loc(), str(o[:2]))
        ctx.ob("dial-failure", "outcome carries the queued request's id and the dialled peer", o[2] is not None and o[2].endswith("Iterator>::next(iter)@Some.0.request_id") and
               "peer: arg2.peer_id@Some.0," in render(d.site_expr(s)), s.loc(), str(o[2]))

    # ================================================================= preload_new_handler
    p = ctx.body(RR, r"^libp2p_request_response::Behaviour::preload_new_handler$")
    prets = p.return_blocks()
    rm = [s for s in p.call_sites(r"HashMap::remove$") if render(p.site_expr(s)) == "std::collections::HashMap::remove(self.pending_outbound_requests, peer)"]
    ctx.floor("preload", "pending_outbound_requests.remove(peer)", rm, 1, exact=True)
    its = p.call_sites(r"IntoIterator>::into_iter$")
    ins = [s for s in p.call_sites(r"HashSet::insert$") if render(p.site_expr(s)[2][0]) == "connection.pending_outbound_responses"]
    obe = p.call_sites(r"ConnectionHandler>::on_behaviour_event$")
    ctx.floor("preload", "pending_outbound_responses.insert", ins, 1, exact=True)
    ctx.floor("preload", "handler.on_behaviour_event", obe, 1, exact=True)
    for it in its:
        src = render(p.site_expr(it)[2][0])
        ctx.ob("preload", "queued requests are taken (HashMap::remove)", src == "std::collections::HashMap::remove(self.pending_outbound_requests, peer)@Some.0", it.loc(), src[:140])
        lp = loop_of(p, it)
        if lp is None:
            ctx.ob("preload", "loop found", False, it.loc())
            continue
        per_element(ctx, "preload", "each queued request is tracked on the new connection", p, lp, lib.bbs(ins), "pending_outbound_responses.insert")
        per_element(ctx, "preload", "each queued request is handed to the new handler", p, lp, lib.bbs(obe), "handler.on_behaviour_event")
    ctx.ob("preload", "floor:loop over the removed requests", len(its) == 1, nontrivial=False, msg="%d loops" % len(its))
    for s in rm:
        some = [t for _, t in lib.switch_edges_on_site(p, s, {"Some"})]
        got = lib.count_range(p, some, prets, lib.bbs(its)) if some else None
        ctx.ob("preload", "removed requests are always drained", got == (1, 1), s.loc(), "loop entered on the Some edge: %s" % (got,))
    for s in ins:
        ctx.ob("preload", "tracked id is the queued request's id", render(p.site_expr(s)[2][1]).endswith("Iterator>::next(iter)@Some.0.request_id"), s.loc(), render(p.site_expr(s)[2][1])[-60:])
    for s in obe:
        a = p.site_expr(s)[2]
        ctx.ob("preload", "the queued request itself is handed over", render(a[0]) == "handler" and render(a[1]).endswith("Iterator>::next(iter)@Some.0"), s.loc(), render(a[1])[-60:])
    cpush = [s for s in p.call_sites(r"SmallVec::push$|Vec::push$") if render(p.site_expr(s)) ==
             "smallvec::SmallVec::push(std::collections::hash_map::Entry::or_default(std::collections::HashMap::entry(self.connected, peer)), connection)"]
    got = lib.count_range(p, [0], prets, lib.bbs(cpush))
    ctx.ob("preload", "the connection (with its pending set) is registered on every path", got == (1, 1), cpush[0].loc() if cpush else "", "connected.entry(peer).or_default().push(connection): %s" % (got,))
    callers = prog.callers(RR, r"Behaviour::preload_new_handler$")
    ctx.floor("preload", "callers of preload_new_handler", callers, 2)
    for s in callers:
        got = lib.count_range(s.body, [0], s.body.return_blocks(), [s.bb])
        ctx.ob("preload", "%s preloads the new handler exactly once" % s.body.short.split("::")[-1], got == (1, 1), s.loc(), str(got))

    # ================================================================= try_send_request / send_request_with_addresses
    t = ctx.body(RR, r"^libp2p_request_response::Behaviour::try_send_request$")
    ins = [s for s in t.call_sites(r"HashSet::insert$") if render(t.site_expr(s)[2][0]).endswith(".pending_outbound_responses")]
    note = [s for s in t.call_sites(r"VecDeque::push_back$") if render(t.site_expr(s)[2][0]) == QUEUE and "ToSwarm::NotifyHandler{" in render(t.site_expr(s)[2][1])]
    ctx.floor("try-send", "pending_outbound_responses.insert", ins, 1, exact=True)
    ctx.floor("try-send", "NotifyHandler push", note, 1, exact=True)
    n_none = n_some = 0
    for dd in t.defs.get(0, []):
        site = mir.Site(t, dd[1], dd[2])
        e = t.site_expr(site)
        if not (e[0] == "agg" and strip_generics(e[2]) == "std::option::Option"):
            ctx.ob("try-send", "result is a literal Option", False, site.loc(), render(e)[:80])
            continue
        gi = lib.count_range(t, [0], [site.bb], lib.bbs(ins))
        gn = lib.count_range(t, [0], [site.bb], lib.bbs(note))
        if e[3] == "None":
            n_none += 1
            ctx.ob("try-send", "None <=> id tracked and handler notified", gi == (1, 1) and gn == (1, 1), site.loc(), "on paths returning None: insert %s, NotifyHandler %s" % (gi, gn))
        else:
            n_some += 1
            ctx.ob("try-send", "Some(request) <=> nothing tracked, nothing sent", gi == (0, 0) and gn == (0, 0) and render(dict(e[4])["0"]) == "request", site.loc(),
                   "on paths returning Some: insert %s, NotifyHandler %s, payload %s" % (gi, gn, render(dict(e[4])["0"])))
    ctx.ob("try-send", "floor:result sites", n_none >= 1 and n_some >= 2, nontrivial=False, msg="None %d Some %d" % (n_none, n_some))
    for s in ins:
        e = t.site_expr(s)
        conn = render(e[2][0])[:-len(".pending_outbound_responses")]
        ctx.ob("try-send", "tracked id is the request's id", render(e[2][1]) == "request.request_id", s.loc(), render(e[2][1]))
        for n in note:
            r = render(t.site_expr(n)[2][1])
            ctx.ob("try-send", "the notified handler is the connection that tracks the id", "handler: libp2p_swarm::NotifyHandler::One{0: %s.id}" % conn in r and r.endswith("event: request}") and "peer_id: peer," in r, n.loc(), r[-80:])
        ctx.ob("try-send", "connection belongs to the target peer", "HashMap::get_mut(self.connected, peer)@Some.0" in conn, s.loc(), conn[:100])
    sr = ctx.body(RR, r"^libp2p_request_response::Behaviour::send_request_with_addresses$")
    srets = sr.return_blocks()
    ts = sr.call_sites(r"Behaviour::try_send_request$")
    nid = sr.call_sites(r"Behaviour::next_outbound_request_id$")
    ctx.floor("send", "try_send_request call", ts, 1, exact=True)
    got = lib.count_range(sr, [0], srets, lib.bbs(nid))
    ctx.ob("send", "one fresh id per request", got == (1, 1) and len(nid) == 1, nid[0].loc() if nid else "", "next_outbound_request_id calls on all paths: %s" % (got,))
    dial = [s for s in sr.call_sites(r"VecDeque::push_back$") if render(sr.site_expr(s)[2][0]) == QUEUE and "ToSwarm::Dial{" in render(sr.site_expr(s)[2][1])]
    qpush = [s for s in sr.call_sites(r"SmallVec::push$|Vec::push$") if "HashMap::entry(self.pending_outbound_requests, peer)" in render(sr.site_expr(s)[2][0])]
    for s in ts:
        some = [x for _, x in lib.switch_edges_on_site(sr, s, {"Some"})]
        none = [x for _, x in lib.switch_edges_on_site(sr, s, {"None"})]
        gq, gd = (lib.count_range(sr, some, srets, lib.bbs(qpush)), lib.count_range(sr, some, srets, lib.bbs(dial))) if some else (None, None)
        ctx.ob("send", "a request handed back is queued exactly once (with one dial)", gq == (1, 1) and gd == (1, 1), s.loc(), "Some edge: queue push %s, Dial %s" % (gq, gd))
        gq = lib.count_range(sr, none, srets, lib.bbs(qpush) + lib.bbs(dial)) if none else None
        ctx.ob("send", "a request already sent is not queued again", gq == (0, 0), s.loc(), "None edge: queue push / Dial %s" % (gq,))
        a = render(sr.site_expr(s)[2][2])
        ctx.ob("send", "the message carries the fresh id", "request_id: libp2p_request_response::Behaviour::next_outbound_request_id(self)" in a, s.loc(), a[:120])
    for s in qpush:
        ctx.ob("send", "the queued request is the one handed back", render(sr.site_expr(s)[2][1]).endswith("@Some.0") and "Behaviour::try_send_request(" in render(sr.site_expr(s)[2][1]) and
               "Entry::or_default(" in render(sr.site_expr(s)[2][0]), s.loc(), "pending_outbound_requests.entry(peer).or_default().push(request)")
    rd = sr.defs.get(0, [])
    ctx.ob("send", "the returned id is the message's id", len(rd) == 1 and rd[0][0] == "stmt" and render(sr.rvalue_expr(rd[0][3])) == "libp2p_request_response::Behaviour::next_outbound_request_id(self)",
           msg=str([render(sr.rvalue_expr(x[3])) for x in rd if x[0] == "stmt"]))

    # ================================================================= ids
    nb = ctx.body(RR, r"^libp2p_request_response::Behaviour::next_outbound_request_id$")
    writers = {}
    for b in prog.bodies(RR):
        for s in b.field_write_sites("next_outbound_request_id"):
            writers.setdefault(b.npath, []).append(s)
    ctx.ob("ids", "outbound counter written only by its accessor", set(writers) == {nb.npath}, msg=str(sorted(writers)))
    ws = writers.get(nb.npath, [])
    for s in ws:
        r = render(nb.site_expr(s))
        ctx.ob("ids", "outbound counter advances by one", r == "AddWithOverflow(self.next_outbound_request_id.0, 1).0", s.loc(), r)
    rd = nb.defs.get(0, [])
    ok = False
    why = "return value is not a copy of the counter taken before the increment"
    if len(rd) == 1 and rd[0][0] == "stmt" and rd[0][3]["k"] == "use" and rd[0][3]["o"].get("k") in ("copy", "move") and "pr" not in rd[0][3]["o"]["p"] and len(ws) == 1:
        x = rd[0][3]["o"]["p"]["l"]
        xd = nb.defs.get(x, [])
        if len(xd) == 1 and xd[0][0] == "stmt" and render(nb.rvalue_expr(xd[0][3])) == "self.next_outbound_request_id":
            before = (xd[0][1] == ws[0].bb and xd[0][2] < ws[0].si) or (xd[0][1] != ws[0].bb and nb.dominates(xd[0][1], ws[0].bb))
            ok = before
            why = "copy at bb%d precedes the increment: %s" % (xd[0][1], before)
    ctx.ob("ids", "accessor returns the pre-increment value", ok, "%s:%d" % (nb.file, nb.line), why)
    callers = prog.callers(RR, r"Behaviour::next_outbound_request_id$")
    ctx.ob("ids", "accessor called only when a request is created", {s.body.npath for s in callers} == {sr.npath}, msg=str(sorted({s.body.npath for s in callers})))
    aggs = {}
    for b in prog.bodies(RR):
        for s in b.agg_sites(r"^libp2p_request_response::(Out|In)boundRequestId$"):
            aggs.setdefault(strip_generics(s.stmt["r"]["adt"]).split("::")[-1], []).append(s)
    ob_ = aggs.get("OutboundRequestId", [])
    ctx.ob("ids", "OutboundRequestId constructed only as the initial counter", len(ob_) == 1 and ob_[0].body.npath.endswith("Behaviour::with_codec") and render(ob_[0].body.site_expr(ob_[0])).endswith("{0: 1}"),
           ob_[0].loc() if ob_ else "", str([(s.body.short, render(s.body.site_expr(s))[-40:]) for s in ob_]))
    ib = aggs.get("InboundRequestId", [])
    ctx.ob("ids", "InboundRequestId constructed only from the shared atomic counter", len(ib) == 1 and ib[0].body.npath.endswith("handler::Handler::next_inbound_request_id") and
           re.search(r"\{0: std::sync::atomic::Atomic(U64)?::fetch_add\(<std::sync::Arc as std::ops::Deref>::deref\(self\.inbound_request_id\), 1, ", render(ib[0].body.site_expr(ib[0]))) is not None,
           ib[0].loc() if ib else "", str([(s.body.short, render(s.body.site_expr(s))[-120:]) for s in ib]))
    hn = prog.callers(RR, r"handler::Handler::new$")
    ctx.floor("ids", "Handler::new call sites", hn, 2)
    for s in hn:
        a = render(s.body.site_expr(s)[2][3])
        ctx.ob("ids", "every handler shares the behaviour's inbound id counter", a == "<std::sync::Arc as std::clone::Clone>::clone(self.next_inbound_request_id)", s.loc(), a)
    hnew = ctx.body(RR, r"^libp2p_request_response::handler::Handler::new$")
    hs = [render(hnew.site_expr(s)) for s in hnew.agg_sites(r"handler::Handler$")]
    ctx.ob("ids", "Handler stores the shared counter", len(hs) == 1 and "inbound_request_id: inbound_request_id" in hs[0], msg=hs[0][:200] if hs else "")

    # ================================================================= Handler::poll
    hp = ctx.body(RR, r"<handler::Handler as libp2p_swarm::ConnectionHandler>::poll$")
    hrets = hp.return_blocks()
    wp = hp.call_sites(r"FuturesMap::poll_unpin$")
    ctx.floor("handler-poll", "worker_streams.poll_unpin", wp, 1, exact=True)
    want = {("Inbound", "Ok", "Err"): "InboundStreamFailed", ("Outbound", "Ok", "Err"): "OutboundStreamFailed",
            ("Inbound", "Err", None): "InboundTimeout", ("Outbound", "Err", None): "OutboundTimeout"}
    rows = {}
    passthru = []
    results = []
    for dd in hp.defs.get(0, []):
        if dd[0] != "stmt":
            continue
        site = mir.Site(hp, dd[1], dd[2])
        e = hp.site_expr(site)
        results.append((site, e))
    ready_t = [t for _, t in lib.switch_edges_on_site(hp, wp[0], {"Ready"}, r"^discr\(futures_bounded::FuturesMap::poll_unpin\(self\.worker_streams, cx\)\)$")] if wp else []
    ctx.ob("handler-poll", "floor:Ready edge of worker_streams", len(ready_t) == 1, nontrivial=False, msg=str(ready_t))
    inready = hp.reachable(ready_t) if ready_t else set()
    res_in = [(s, e) for s, e in results if s.bb in inready and s.bb not in hp.reachable([t for _, t in lib.switch_edges_on_site(hp, wp[0], {"Pending"})] if wp else [])]
    for s, e in res_in:
        gs = hp.guards_on_all_paths(s.bb)
        who = outer = inner = None
        for text, labels, _, cond in gs:
            if not text.startswith("discr(") or "poll_unpin(" not in text:
                continue
            if len(labels) != 1:
                continue
            lab = next(iter(labels))
            if text.endswith("@Ready.0.0)"):
                who = lab
            elif text.endswith("@Ready.0.1)"):
                outer = lab
            elif text.endswith("@Ready.0.1@Ok.0)"):
                inner = lab
        o = outcome_of(e, HEV)
        r = render(e)
        if o is None:
            passthru.append((s, who, outer, inner, r))
        else:
            rows[(who, outer, inner)] = (o, s, r)
    got = {k: v[0][0] for k, v in rows.items()}
    ctx.ob("handler-poll", "worker result table", got == want, wp[0].loc() if wp else "", "(kind, outer, inner) -> handler event: %s (expected %s)" % (got, want))
    for k, (o, s, r) in rows.items():
        idsrc = "@Ready.0.0@%s.0" % k[0]
        ctx.ob("handler-poll", "%s carries the id of the finished worker" % o[0], o[2] is not None and o[2].endswith(idsrc) and r.startswith("std::task::Poll::Ready{0: libp2p_swarm::ConnectionHandlerEvent::NotifyBehaviour{0: "), s.loc(), "request id %s" % o[2])
    ctx.ob("handler-poll", "Ok(Ok(event)) is forwarded unchanged", len(passthru) == 1 and passthru[0][2:4] == ("Ok", "Ok") and
           re.match(r"^std::task::Poll::Ready\{0: libp2p_swarm::ConnectionHandlerEvent::NotifyBehaviour\{0: .*@Ready\.0\.1@Ok\.0@Ok\.0\}\}$", passthru[0][4]) is not None,
           passthru[0][0].loc() if passthru else "", str([(x[1], x[2], x[3], x[4][-60:]) for x in passthru]))
    if ready_t:
        got = lib.count_range(hp, ready_t, hrets, lib.bbs([s for s, _ in res_in]))
        ctx.ob("handler-poll", "every finished worker yields exactly one event", got == (1, 1), wp[0].loc(), "result assignments on every path from the Ready edge: %s" % (got,))
    # queued events / inbound requests / outbound requests
    for fld, what in (("pending_events", "queued event"), ("pending_outbound", "queued outbound request")):
        pops = [s for s in hp.call_sites(r"VecDeque::pop_front$") if render(hp.site_expr(s)[2][0]) == "self." + fld]
        ctx.floor("handler-poll", "pop_front of " + fld, pops, 1, exact=True)
        for s in pops:
            some = [t for _, t in lib.switch_edges_on_site(hp, s, {"Some"})]
            mine = [(rs, e) for rs, e in results if some and rs.bb in hp.reachable(some)]
            popped = "std::collections::VecDeque::pop_front(self.%s)@Some.0" % fld
            if fld == "pending_events":
                ok = len(mine) == 1 and render(mine[0][1]) == "std::task::Poll::Ready{0: libp2p_swarm::ConnectionHandlerEvent::NotifyBehaviour{0: %s}}" % popped
                ctx.ob("handler-poll", "a queued event is delivered unchanged", ok and lib.count_range(hp, some, hrets, [mine[0][0].bb]) == (1, 1), s.loc(), str([render(e)[-90:] for _, e in mine]))
            else:
                rq = [x for x in hp.call_sites(r"VecDeque::push_back$") if render(hp.site_expr(x)) == "std::collections::VecDeque::push_back(self.requested_outbound, %s)" % popped]
                got = lib.count_range(hp, some, hrets, lib.bbs(rq)) if some else None
                ok = len(mine) == 1 and "ConnectionHandlerEvent::OutboundSubstreamRequest{" in render(mine[0][1])
                ctx.ob("handler-poll", "an outbound request moves to requested_outbound exactly when its substream is requested", ok and got == (1, 1), s.loc(), "requested_outbound.push_back(request) on the Some edge: %s" % (got,))
    req = [(s, e) for s, e in results if (outcome_of(e, HEV) or (None,))[0] == "Request"]
    ctx.ob("handler-poll", "an inbound request is reported with the id and sender received from its worker", len(req) == 1 and
           re.search(r"request_id: .*inbound_receiver, cx\)@Ready\.0@Some\.0\.0, request: .*@Some\.0\.1, sender: .*@Some\.0\.2\}", render(req[0][1])) is not None,
           req[0][0].loc() if req else "", render(req[0][1])[-200:] if req else "")
    obev = ctx.body(RR, r"<handler::Handler as libp2p_swarm::ConnectionHandler>::on_behaviour_event$")
    pb = [s for s in obev.call_sites(r"VecDeque::push_back$") if render(obev.site_expr(s)) == "std::collections::VecDeque::push_back(self.pending_outbound, request)"]
    ctx.ob("handler-poll", "on_behaviour_event queues the request once", lib.count_range(obev, [0], obev.return_blocks(), lib.bbs(pb)) == (1, 1), "%s:%d" % (obev.file, obev.line), "pending_outbound.push_back(request)")

    # ================================================================= dial upgrade error / try_push failure
    de = ctx.body(RR, r"^libp2p_request_response::handler::Handler::on_dial_upgrade_error$")
    popped = "std::option::Option::expect(std::collections::VecDeque::pop_front(self.requested_outbound), 'negotiated a stream without a pending message')"
    pops = [s for s in de.call_sites(r"VecDeque::pop_front$") if render(de.site_expr(s)[2][0]) == "self.requested_outbound"]
    got = lib.count_range(de, [0], de.return_blocks(), lib.bbs(pops))
    ctx.ob("dial-upgrade-error", "the failed request is taken from requested_outbound exactly once", got == (1, 1), pops[0].loc() if pops else "", str(got))
    dpush = queue_pushes(de, QUEUE, HEV)
    ctx.floor("dial-upgrade-error", "handler events queued", dpush, 3)
    for arm, evn in (("Timeout", "OutboundTimeout"), ("NegotiationFailed", "OutboundUnsupportedProtocols"), ("Io", "OutboundStreamFailed")):
        ents = lib.arm_entry(de, r"^discr\(arg2\.error\)$", arm)
        if len(ents) != 1:
            ctx.ob("dial-upgrade-error", "%s -> %s" % (arm, evn), False, msg="arm not found")
            continue
        mine = [(s, o) for s, o in dpush if s.bb in de.reachable([ents[0][1]])]
        right = [s for s, o in mine if o[0] == evn]
        got = lib.count_range(de, [ents[0][1]], de.return_blocks(), lib.bbs(right))
        gall = lib.count_range(de, [ents[0][1]], de.return_blocks(), lib.bbs([s for s, _ in dpush]))
        ctx.ob("dial-upgrade-error", "%s -> %s" % (arm, evn), got == (1, 1) and gall == (1, 1), right[0].loc() if right else "", "%s pushes %s, all pushes %s" % (evn, got, gall))
        for s, o in mine:
            ctx.ob("dial-upgrade-error", "%s: event carries the popped request's id" % arm, o[2] == popped + ".request_id", s.loc(), str(o[2])[-60:])
    fo = ctx.body(RR, r"^libp2p_request_response::handler::Handler::on_fully_negotiated_outbound$")
    forets = fo.return_blocks()
    pops = [s for s in fo.call_sites(r"VecDeque::pop_front$") if render(fo.site_expr(s)[2][0]) == "self.requested_outbound"]
    got = lib.count_range(fo, [0], forets, lib.bbs(pops))
    ctx.ob("negotiated-outbound", "the negotiated request is taken from requested_outbound exactly once", got == (1, 1), pops[0].loc() if pops else "", str(got))
    tp = fo.call_sites(r"FuturesMap::try_push$")
    ctx.floor("negotiated-outbound", "worker_streams.try_push", tp, 1, exact=True)
    fpush = queue_pushes(fo, QUEUE, HEV)
    mir.RENDER_MAX[0] = 30
    try:
        for s in tp:
            e = fo.site_expr(s)
            ctx.ob("negotiated-outbound", "worker is keyed by the popped request's id", render(e[2][1]) == "libp2p_request_response::handler::RequestId::Outbound{0: %s.request_id}" % popped, s.loc(), render(e[2][1])[-80:])
            errs = set()
            for bi in fo.live:
                info = fo.switch_info(bi)
                if info and render(info[0]).startswith("std::result::Result::is_err(futures_bounded::FuturesMap::try_push("):
                    for tgt, ls in info[1].items():
                        errs.add((tgt, tuple(sorted(ls))))
            tt = [t for t, ls in errs if ls == ("true",)]
            ft = [t for t, ls in errs if ls == ("false",)]
            gt = lib.count_range(fo, tt, forets, lib.bbs([x for x, _ in fpush])) if tt else None
            gf = lib.count_range(fo, ft, forets, lib.bbs([x for x, _ in fpush])) if ft else None
            ctx.ob("negotiated-outbound", "a rejected worker yields exactly one OutboundStreamFailed, an accepted one none", gt == (1, 1) and gf == (0, 0) and [o[0] for _, o in fpush] == ["OutboundStreamFailed"], s.loc(),
                   "is_err edge: %s, accepted edge: %s, events %s" % (gt, gf, [o[0] for _, o in fpush]))
            cb = lib.closure_of(prog, fo, e)
            oks = []
            if cb is not None:
                ctx.use(cb)
                for dd in cb.defs.get(0, []):
                    if dd[0] == "stmt":
                        oks.append(render(cb.rvalue_expr(dd[3])))
                cl_e = [x for x in mir.walk(e) if x[0] == "closure"][0]
                ups = [render(u) for u in cl_e[2]]
                ctx.ob("negotiated-outbound", "the worker captures the popped request's id", popped + ".request_id" in ups, s.loc(), str([u[-40:] for u in ups]))
            ctx.ob("negotiated-outbound", "the worker's only success result is Response for the captured id", len(oks) == 1 and
                   oks[0].startswith("std::result::Result::Ok{0: libp2p_request_response::handler::Event::Response{request_id: ^request_id, "), s.loc(), str([o[:110] for o in oks]))
        for s, o in fpush:
            ctx.ob("negotiated-outbound", "failure carries the popped request's id", o[2] == popped + ".request_id", s.loc(), str(o[2])[-60:])
        # inbound worker
        fi = ctx.body(RR, r"^libp2p_request_response::handler::Handler::on_fully_negotiated_inbound$")
        tp = fi.call_sites(r"FuturesMap::try_push$")
        ctx.floor("negotiated-inbound", "worker_streams.try_push", tp, 1, exact=True)
        nidc = fi.call_sites(r"Handler::next_inbound_request_id$")
        got = lib.count_range(fi, [0], fi.return_blocks(), lib.bbs(nidc))
        ctx.ob("negotiated-inbound", "one fresh inbound id per stream", got == (1, 1) and len(nidc) == 1, nidc[0].loc() if nidc else "", str(got))
        for s in tp:
            e = fi.site_expr(s)
            fresh = "libp2p_request_response::handler::Handler::next_inbound_request_id(self)"
            ctx.ob("negotiated-inbound", "worker is keyed by the fresh id", render(e[2][1]) == "libp2p_request_response::handler::RequestId::Inbound{0: %s}" % fresh, s.loc(), render(e[2][1])[-90:])
            cb = lib.closure_of(prog, fi, e)
            oks, sends = [], []
            if cb is not None:
                ctx.use(cb)
                for dd in cb.defs.get(0, []):
                    if dd[0] == "stmt":
                        oks.append(render(cb.rvalue_expr(dd[3])))
                sends = [render(cb.site_expr(x)) for x in cb.call_sites(r"SinkExt::send$")]
                cl_e = [x for x in mir.walk(e) if x[0] == "closure"][0]
                ctx.ob("negotiated-inbound", "the worker captures the fresh id", fresh in [render(u) for u in cl_e[2]], s.loc(), "")
            ctx.ob("negotiated-inbound", "the worker's success results are ResponseSent / ResponseOmission for the captured id",
                   sorted(oks) == ["std::result::Result::Ok{0: libp2p_request_response::handler::Event::ResponseOmission{0: ^request_id}}",
                                   "std::result::Result::Ok{0: libp2p_request_response::handler::Event::ResponseSent{0: ^request_id}}"], s.loc(), str(oks))
            ctx.ob("negotiated-inbound", "the request is announced with the captured id", len(sends) == 1 and "tuple{0: ^request_id, " in sends[0], s.loc(), str([x[:160] for x in sends]))
    finally:
        mir.RENDER_MAX[0] = 14


def _descendants(prog, b):
    out = []
    for c in prog.children(b):
        out.append(c)
        out.extend(_descendants(prog, c))
    return out
