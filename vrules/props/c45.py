"""C45 request-response: every request exactly one outcome — per-arm path counting (K2), guards (K1), origin (K5), who-writes (K4), decision table of Handler::poll (K7)."""
import re

from .. import lib, mir
from .. import lib_proto as P
from ..mir import strip_generics

EXPLANATION = ("Behaviour::on_connection_handler_event, per handler::Event arm (9): the pending-set removal for the arm's own request id "
               "happens exactly once and, whenever it reports `removed`, exactly one outcome event of the arm's kind is queued (never a "
               "second, never another arm's kind); inbound timeout/failure arms queue nothing when nothing was removed; a Request is "
               "delivered only together with its insertion into pending_inbound_responses. on_connection_closed removes the connection "
               "and drains both pending sets into one ConnectionClosed failure per id; on_dial_failure and preload_new_handler take "
               "(HashMap::remove) the peer's queued requests and produce one DialFailure outcome / one pending-set insertion + handler "
               "hand-over per request; try_send_request returns None exactly on the path that inserted the id and notified a handler; "
               "send_request_with_addresses queues the request (and one Dial) exactly when it was handed back. Request ids: the outbound "
               "counter is written only by its accessor (+1, value returned is the pre-increment copy), inbound ids come from one shared "
               "AtomicU64::fetch_add(1). Handler: every worker_streams completion maps to exactly one event of the right kind (decision "
               "table over Inbound/Outbound x Ok(Ok)/Ok(Err)/Err(Timeout)), every dial-upgrade error and a failed try_push produce one "
               "event for the popped request, queued events/requests are forwarded unchanged.")
ASSUMPTIONS = ["interleaving of swarm and handler events (e.g. a handler event arriving after ConnectionClosed) is not analysed",
               "futures_bounded::FuturesMap yields each pushed future exactly once (completion or timeout)",
               "futures mpsc/oneshot channel semantics; codec implementations",
               "u64 request id counters do not wrap"]
RR = "libp2p_request_response"
EV = r"^libp2p_request_response::Event$"
HEV = r"^libp2p_request_response::handler::Event$"
BADT = r"^libp2p_request_response::Behaviour$"
CADT = r"^libp2p_request_response::Connection$"
HADT = r"^libp2p_request_response::handler::Handler$"
MADT = r"^libp2p_request_response::handler::OutboundMessage$"

SELFTEST = [
    {"mutation": "seeded/C45: OutboundUnsupportedProtocols arm no longer calls remove_pending_outbound_response", "caught_by": "arm/OutboundUnsupportedProtocols: pending-set removal exactly once"},
    {"mutation": "InboundTimeout arm: push the InboundFailure before / regardless of `if removed`", "caught_by": "arm/InboundTimeout: outcome only after the id was removed"},
    {"mutation": "InboundStreamFailed arm: `if !removed`", "caught_by": "arm/InboundStreamFailed: removed => exactly one outcome"},
    {"mutation": "ResponseOmission arm: is_pending_inbound instead of remove_pending_inbound_response", "caught_by": "arm/ResponseOmission: pending-set removal exactly once"},
    {"mutation": "seeded/C45b: early return extended to `DialPeerConditionFalse(_) | Aborted`", "caught_by": "dial-failure/only DialPeerConditionFalse (or a failure without peer) leaves the queued requests untouched"},
    {"mutation": "on_dial_failure: `.get(&peer)` + iter() instead of `.remove(&peer)`", "caught_by": "dial-failure/queued requests are taken (HashMap::remove)"},
    {"mutation": "on_connection_closed: second loop emits nothing", "caught_by": "closed/pending_outbound_responses: one failure per pending id"},
    {"mutation": "preload_new_handler: register the connection only if it has pending requests", "caught_by": "preload/the connection (with its pending set) is registered on every path"},
    {"mutation": "try_send_request: drop conn.pending_outbound_responses.insert", "caught_by": "try-send/None <=> id tracked and handler notified"},
    {"mutation": "send_request_with_addresses: drop(request) instead of queueing it", "caught_by": "send/a request handed back is queued exactly once (with one dial)"},
    {"mutation": "next_outbound_request_id: `+= 0`", "caught_by": "ids/outbound counter advances by one"},
    {"mutation": "next_outbound_request_id: increment before taking the copy", "caught_by": "ids/accessor returns the pre-increment value"},
    {"mutation": "Handler::poll: (Outbound, Err(Timeout)) arm falls through without an event", "caught_by": "handler-poll/worker result table + every finished worker yields exactly one event"},
    {"mutation": "Handler::poll: (Inbound, Err(Timeout)) reports ResponseOmission", "caught_by": "handler-poll/worker result table"},
    {"mutation": "Handler::poll: popped request dropped instead of pushed to requested_outbound", "caught_by": "handler-poll/an outbound request moves to requested_outbound exactly when its substream is requested"},
    {"mutation": "on_dial_upgrade_error: Timeout arm pushes nothing", "caught_by": "dial-upgrade-error/Timeout -> OutboundTimeout"},
    {"mutation": "on_fully_negotiated_outbound: failed try_push reports nothing", "caught_by": "negotiated-outbound/a rejected worker yields exactly one OutboundStreamFailed, an accepted one none"},
]

# arm -> (pending set, request-id field of the handler event, (Event variant, sub-variant), conditional?)
ARMS = {
    "Response": ("outbound", "request_id", ("Message", "Response"), False),
    "OutboundTimeout": ("outbound", "0", ("OutboundFailure", "Timeout"), False),
    "OutboundUnsupportedProtocols": ("outbound", "0", ("OutboundFailure", "UnsupportedProtocols"), False),
    "OutboundStreamFailed": ("outbound", "request_id", ("OutboundFailure", "Io"), False),
    "ResponseSent": ("inbound", "0", ("ResponseSent", None), False),
    "ResponseOmission": ("inbound", "0", ("InboundFailure", "ResponseOmission"), False),
    "InboundTimeout": ("inbound", "0", ("InboundFailure", "Timeout"), True),
    "InboundStreamFailed": ("inbound", "request_id", ("InboundFailure", "Io"), True),
}


def outcome_of(N, e, adt_pat=EV):
    """(variant, sub-variant, normalised request id, {field: normalised value}) of the first Event aggregate inside e, or None."""
    rx = re.compile(adt_pat)
    for s in mir.walk(e):
        if s[0] == "agg" and s[1] == "adt" and rx.search(strip_generics(s[2])):
            f = dict(s[4])
            sub = None
            rid = f.get("request_id", f.get("0"))
            for key in ("error", "message"):
                x = f.get(key)
                if x is not None and x[0] == "agg" and x[1] == "adt":
                    sub = x[3]
                    if key == "message":
                        rid = dict(x[4]).get("request_id")
            return (s[3], sub, N.r(rid) if rid is not None else None, {k: N.r(v) for k, v in f.items() if v[0] != "agg"})
    return None


def queue_pushes(b, N, queue, adt_pat=EV):
    """[(site, outcome)] for VecDeque::push_back(queue, ..Event..) sites."""
    out = []
    for s in b.call_sites(r"VecDeque::push_back$"):
        e = b.site_expr(s)
        if N.r(e[2][0]) != queue:
            continue
        o = outcome_of(N, e[2][1], adt_pat)
        if o is not None:
            out.append((s, o))
    return out


def loop_of(b, into_iter_site):
    """(next_site, some_target, none_target) of the `for` loop fed by the into_iter call at `into_iter_site`."""
    for s in b.call_sites(r"Iterator>::next$|Iterator::next$"):
        a0 = b.site_expr(s)[2][0]
        if a0[0] != "local":
            continue
        init = b.init_expr(a0[1])
        if init[0] == "call" and init[3] == into_iter_site.bb:
            some = P.targets(P.variant_edges(b, P.is_call_at(s), {"Some"}))
            none = P.targets(P.variant_edges(b, P.is_call_at(s), {"None"}))
            if len(some) == 1 and len(none) == 1:
                return s, some[0], none[0]
    return None


def per_element(ctx, rule, inst, b, loop, marker_bbs, desc, where=""):
    """Exactly one marker between taking an element (Some edge) and asking for the next one."""
    nxt, some, none = loop
    got = lib.count_range(b, [some], [nxt.bb], marker_bbs)
    ctx.ob(rule, inst, got == (1, 1), where or nxt.loc(), "%s: per drained element %s (expected (1, 1))" % (desc, got))


def elem_of(b, N, loop):
    """Normalised text of the loop element (`next(iter)@+`)."""
    return N.site(loop[0]) + "@+"


def removes_from(prog, fb, field, depth=0):
    """Body fb (or one of its closures) removes an element from a set stored in `.field`."""
    for c in [fb] + _descendants(prog, fb):
        for s in c.call_sites(r"HashSet::remove$|HashSet::take$"):
            a0 = c.site_expr(s)[2][0]
            if a0[0] == "field" and a0[2] == field:
                return True
    return False


def removal_sites(prog, h, field):
    """Call sites in h that remove from the pending set `field`: directly, or through a crate function that does (one level)."""
    out = []
    for s in h.call_sites():
        name = strip_generics(h.call_name(s.term))
        if re.search(r"HashSet::(remove|take)$", name):
            a0 = h.site_expr(s)[2][0]
            if a0[0] == "field" and a0[2] == field:
                out.append(s)
        elif name.startswith("libp2p_request_response::"):
            fb = prog.find(RR, "^" + re.escape(name) + "$")
            if len(fb) == 1 and removes_from(prog, fb[0], field):
                out.append(s)
    return out


def check(ctx):
    _check(ctx, ctx.prog)


def _check(ctx, prog):
    # ---- private fields by role
    Q = "self." + P.field_by_type(prog, RR, BADT, r"^std::collections::VecDeque<libp2p_swarm::ToSwarm<")
    F_CONNECTED = P.field_by_type(prog, RR, BADT, r"^std::collections::HashMap<libp2p_core::PeerId, smallvec::SmallVec<\[Connection")
    F_PENDREQ = P.field_by_type(prog, RR, BADT, r"^std::collections::HashMap<libp2p_core::PeerId, smallvec::SmallVec<\[handler::OutboundMessage")
    F_NEXTOUT = P.field_by_type(prog, RR, BADT, r"^OutboundRequestId$")
    F_NEXTIN = P.field_by_type(prog, RR, BADT, r"^std::sync::Arc<std::sync::atomic::Atomic")
    CONNECTED, PENDREQ = "self." + F_CONNECTED, "self." + F_PENDREQ
    C_ID = P.field_by_type(prog, RR, CADT, r"ConnectionId$")
    SETS = {"outbound": P.field_by_type(prog, RR, CADT, r"HashSet<OutboundRequestId>"), "inbound": P.field_by_type(prog, RR, CADT, r"HashSet<InboundRequestId>")}
    M_ID = P.field_by_type(prog, RR, MADT, r"^OutboundRequestId$")
    HQ = "self." + P.field_by_type(prog, RR, HADT, r"^std::collections::VecDeque<handler::Event<")
    H_WORK = "self." + P.field_by_type(prog, RR, HADT, r"FuturesMap<")
    H_RECV = "self." + P.field_by_type(prog, RR, HADT, r"mpsc::Receiver<")
    H_INID = P.field_by_type(prog, RR, HADT, r"^std::sync::Arc<std::sync::atomic::Atomic")
    obev = ctx.body(RR, r"<handler::Handler as libp2p_swarm::ConnectionHandler>::on_behaviour_event$")
    OB = P.Norm(obev)
    pb = [s for s in obev.call_sites(r"VecDeque::push_back$") if OB.r(obev.site_expr(s)[2][1]) == "$2"]
    msgq = [f["n"] for v in prog.adt(RR, HADT)["variants"] for f in v["fields"] if re.search(r"^std::collections::VecDeque<handler::OutboundMessage<", f["ty"])]
    if len(pb) != 1 or len(msgq) != 2:
        raise mir.RuleError("handler request queues not identified: %d pushes, fields %s" % (len(pb), msgq))
    a0 = obev.site_expr(pb[0])[2][0]
    F_POUT = a0[2] if a0[0] == "field" else None
    if F_POUT not in msgq:
        raise mir.RuleError("on_behaviour_event does not push into a request queue")
    H_POUT, H_REQ = "self." + F_POUT, "self." + [f for f in msgq if f != F_POUT][0]
    # ================================================================= on_connection_handler_event(self, peer = $2, connection_id = $3, event = $4)
    h = ctx.body(RR, r"<Behaviour as libp2p_swarm::NetworkBehaviour>::on_connection_handler_event$")
    N = P.Norm(h)
    rets = h.return_blocks()
    pushes = queue_pushes(h, N, Q)
    ctx.floor("arm", "outcome pushes in on_connection_handler_event", pushes, 9)
    all_push_bbs = lib.bbs([s for s, _ in pushes])
    entries = {}
    for bi in h.live:
        info = h.switch_info(bi)
        if info and N.r(info[0]) == "discr($4)":
            for tgt, ls in info[1].items():
                for l in ls:
                    entries[l] = tgt
    ctx.ob("arm", "floor:handler::Event arms", set(entries) == set(ARMS) | {"Request"}, nontrivial=False, msg="arms of the dispatch: %s" % sorted(entries))
    for arm, (side, idf, (evv, subv), conditional) in ARMS.items():
        if arm not in entries:
            ctx.ob("arm", "%s: arm entry" % arm, False, msg="arm not found")
            continue
        ent = entries[arm]
        region = h.reachable([ent])
        rid = "$4@%s" % arm if idf == "0" else "$4@%s.%s" % (arm, idf)
        rem = [s for s in removal_sites(prog, h, SETS[side]) if s.bb in region]
        wrong = [s for s in removal_sites(prog, h, SETS["inbound" if side == "outbound" else "outbound"]) if s.bb in region]
        got = lib.count_range(h, [ent], rets, lib.bbs(rem))
        # the removal may sit behind a connection lookup (`match get_connection_mut { Some(c) => c.set.remove(id), None => false }`):
        # at most one per path, and every outcome of the arm is preceded by it (checked below)
        ctx.ob("arm", "%s: pending-set removal exactly once" % arm, bool(rem) and got is not None and got[1] == 1 and not wrong, rem[0].loc() if rem else "%s:%d" % (h.file, h.line),
               "removals from the pending %s set on the paths of the arm: %s (expected at most one per path, at least one site); removals from the other set: %d" % (side, got, len(wrong)))
        for s in rem:
            a = [N.r(x) for x in h.site_expr(s)[2]]
            ctx.ob("arm", "%s: removal is keyed by this event's peer/connection/request id" % arm, rid in a and (("$2" in a and "$3" in a) or any("$2" in x and "$3" in x for x in a)), s.loc(), str(a[1:]))
        mine = [(s, o) for s, o in pushes if s.bb in region]
        right = [s for s, o in mine if o[0] == evv and o[1] == subv]
        ctx.ob("arm", "%s: only its own outcome kind" % arm, len(right) == len(mine) and len(mine) >= 1, mine[0][0].loc() if mine else "",
               "outcome events queued in the arm: %s (expected only %s/%s)" % ([o[:2] for _, o in mine], evv, subv))
        for s, o in mine:
            ctx.ob("arm", "%s: outcome carries this event's request id" % arm, o[2] == rid, s.loc(), "request_id = %s" % o[2])
            ctx.ob("arm", "%s: outcome carries this event's peer and connection" % arm, (o[3].get("peer"), o[3].get("connection_id")) == ("$2", "$3"), s.loc(), str(o[3]))
        false_edges, true_edges = set(), set()
        for s in rem:
            false_edges |= {(b_, t_) for b_, t_ in P.truth_edges(h, P.is_call_at(s), False, ent) if b_ in region}
            true_edges |= {(b_, t_) for b_, t_ in P.truth_edges(h, P.is_call_at(s), True, ent) if b_ in region}
        for s, _ in mine:
            ok = bool(rem) and P.passes_nodes(h, [ent], s.bb, lib.bbs(rem))
            ctx.ob("arm", "%s: the outcome is preceded by the removal" % arm, ok, s.loc(), "every path of the arm to the outcome push passes the pending-set removal" if ok else
                   "an outcome is queued on a path that did not remove the id from the pending set (a later ConnectionClosed would report it again)")
        got = lib.count_range(h, [ent], rets, lib.bbs(right), blocked_edges=false_edges)
        ctx.ob("arm", "%s: removed => exactly one outcome" % arm, got == (1, 1), right[0].loc() if right else "",
               "outcome pushes on every path of the arm on which the id was removed: %s (expected (1, 1))" % (got,))
        got = lib.count_range(h, [ent], rets, all_push_bbs)
        ctx.ob("arm", "%s: at most one outcome" % arm, got is not None and got[1] <= 1, msg="outcome pushes on all paths: %s" % (got,))
        if conditional:
            ftg = P.targets(false_edges)
            got = lib.count_range(h, ftg, rets, all_push_bbs) if ftg else None
            ctx.ob("arm", "%s: nothing queued when nothing was removed" % arm, got == (0, 0), rem[0].loc() if rem else "",
                   "outcome pushes on the not-removed edge: %s (expected (0, 0))" % (got,))
            for s, _ in mine:
                ok = bool(true_edges) and h.must_pass_edges(s.bb, true_edges, ent)
                ctx.ob("arm", "%s: outcome only after the id was removed" % arm, ok, s.loc(),
                       "every path of the arm to the push passes the `removed == true` edge" if ok else "a path reaches the push without `removed` being known true")
    # Request arm
    if "Request" in entries:
        ent = entries["Request"]
        region = h.reachable([ent])
        ins = [s for s in h.call_sites(r"HashSet::insert$") if s.bb in region and (lambda a: a[0] == "field" and a[2] == SETS["inbound"])(h.site_expr(s)[2][0])]
        ctx.floor("arm", "Request: insert into the pending inbound set", ins, 1)
        mine = [(s, o) for s, o in pushes if s.bb in region]
        ctx.ob("arm", "Request: only Message::Request is queued", [o[:2] for _, o in mine] == [("Message", "Request")], msg=str([o[:2] for _, o in mine]))
        for s in ins[:1]:
            conn = h.site_expr(s)[2][0][1]
            look = conn
            while look[0] in ("field", "downcast"):
                look = look[1]
            look = P._untry(look)
            if P.call_is(look, r"^std::(option::Option|result::Result)::(expect|unwrap)$"):
                look = look[2][0]
            lr = N.r(look)
            ctx.ob("arm", "Request: connection looked up by this event's peer/connection", look[0] == "call" and "$2" in lr and "$3" in lr, s.loc(), lr[:160])
            some = P.targets(P.outcome_edges(h, lambda y: y[0] == "call" and look[0] == "call" and y[3] == look[3], True))
            none = P.targets(P.outcome_edges(h, lambda y: y[0] == "call" and look[0] == "call" and y[3] == look[3], False))
            gi = lib.count_range(h, some, rets, lib.bbs(ins)) if some else None
            gp = lib.count_range(h, some, rets, lib.bbs([x for x, _ in mine])) if some else None
            ctx.ob("arm", "Request: delivered <=> tracked in pending_inbound_responses", gi == (1, 1) and gp == (1, 1), s.loc(),
                   "on the known-connection edge: insert %s, delivery %s (expected (1, 1) each)" % (gi, gp))
            gn = lib.count_range(h, none, rets, all_push_bbs) if none else None
            ctx.ob("arm", "Request: not delivered for an unknown connection", gn == (0, 0), s.loc(), "pushes on the None edge: %s" % (gn,))
        for s in ins:
            e = h.site_expr(s)
            ctx.ob("arm", "Request: tracked id is the delivered id", N.r(e[2][1]) == "$4@Request.request_id", s.loc(), N.r(e)[-120:])
        for s, o in mine:
            ctx.ob("arm", "Request: delivered id is the handler's id", o[2] == "$4@Request.request_id", s.loc(), str(o[:3]))
    else:
        ctx.ob("arm", "Request: arm entry", False, msg=str(sorted(entries)))

    # ================================================================= removal helpers (when the removal is delegated)
    helpers = set()
    for side in ("outbound", "inbound"):
        for s in removal_sites(prog, h, SETS[side]):
            name = strip_generics(h.call_name(s.term))
            if name.startswith("libp2p_request_response::"):
                helpers.add((side, name))
    lookups = {}
    for side, name in sorted(helpers):
        b = ctx.body(RR, "^" + re.escape(name) + "$")
        BN = P.Norm(b)
        short = name.split("::")[-1]
        # helper(self, peer = $2, connection_id = $3, request = $4): value flow, independent of the spelling
        # (`lookup.map(|c| c.set.remove(&request)).unwrap_or(false)` or `match lookup { Some(c) => c.set.remove(&request), None => false }`):
        # the result is the HashSet::remove report of the right set of the looked-up connection, and false when there is none
        look = [(s_, cb) for s_, cb in P.crate_callees(prog, b)] or []
        lk = [s_ for s_ in b.call_sites() if "$2" in BN.site(s_) and "$3" in BN.site(s_) and not P.call_is(b.site_expr(s_), r"Option::(map|and_then|unwrap_or)")]
        ok_l = len(lk) >= 1
        for s_, cb in look:
            if lk and s_.bb == lk[0].bb:
                lookups[cb.npath] = cb
        rs = P.ret_exprs(b)
        flow = False
        detail = ""
        rm_sites = []
        for c_ in [b] + _descendants(prog, b):
            for x in c_.call_sites(r"HashSet::(remove|take)$"):
                a = c_.site_expr(x)[2]
                if a[0][0] == "field" and a[0][2] == SETS[side]:
                    rm_sites.append((c_, x, P.rr(prog, c_, a[1])))
        key_ok = len(rm_sites) == 1 and rm_sites[0][2] == "$4"
        if len(rm_sites) == 1 and ok_l:
            rb, rx, _ = rm_sites[0]
            if rb is b:
                # match form: `_0` is the remove report on the found edge, a constant false elsewhere
                found = P.outcome_edges(b, P.is_call_at(lk[0]), True)
                vals = [(s_, e) for s_, e in rs]
                rep = [s_ for s_, e in vals if e[0] == "call" and e[3] == rx.bb]
                fl = [s_ for s_, e in vals if P.const_val(e) == 0]
                flow = len(rep) == 1 and len(rep) + len(fl) == len(vals) and len(fl) >= 1 and P.must_pass(b, rep[0].bb, found) and \
                    all(not P.must_pass(b, f.bb, found) for f in fl)
                detail = "match form: report on the Some edge, false otherwise"
            else:
                # combinator form: unwrap_or(map(lookup, |c| c.set.remove(..)), false)
                e = rs[0][1] if len(rs) == 1 else ("unknown", "?")
                flow = P.call_is(e, r"Option::unwrap_or$") and P.const_val(e[2][1]) == 0 and P.call_is(e[2][0], r"Option::map$") and e[2][0][2][0][0] == "call" and e[2][0][2][0][3] == lk[0].bb and \
                    [P.Norm(rb).r(x) for _, x in P.ret_exprs(rb)] == [P.Norm(rb).site(rx)]
                detail = "combinator form: lookup.map(remove).unwrap_or(false)"
        ctx.ob("helper", "%s returns the removal report of the looked-up connection, false if there is none" % short, flow, "%s:%d" % (b.file, b.line), detail or BN.r(rs[0][1])[:160] if rs else "")
        ctx.ob("helper", "%s removes the given request id from the pending %s set" % (short, side), key_ok, "%s:%d" % (b.file, b.line), str([(x[1].loc(), x[2]) for x in rm_sites]))
    ctx.ob("helper", "floor:removal helpers", len(helpers) in (0, 2), nontrivial=False, msg=str(sorted(helpers)))
    for gname, g in sorted(lookups.items()):
        txt = []
        eqs = set()
        for c in [g] + _descendants(prog, g):
            CN_ = P.Norm(c)
            for s in c.call_sites():
                txt.append(CN_.site(s))
            for _, x in P.ret_exprs(c):
                cm = P.cmpnf(x)
                if cm and cm[0] == "Eq":
                    eqs.add(tuple(sorted([P.rr(prog, c, cm[1]), P.rr(prog, c, cm[2])])))
        ctx.ob("helper", "the connection lookup selects by peer and connection id", any(t_ == "std::collections::HashMap::get_mut(%s, $2)" % CONNECTED for t_ in txt) and
               ("$2.%s" % C_ID, "$3") in eqs, "%s:%d" % (g.file, g.line), str(sorted(eqs)))
    ctx.ob("helper", "floor:connection lookup", len(lookups) <= 1 and (len(lookups) == 1 or not helpers), nontrivial=False, msg=str(sorted(lookups)))

    # ================================================================= on_connection_closed(self, closed = $2)
    osw = ctx.body(RR, r"<Behaviour as libp2p_swarm::NetworkBehaviour>::on_swarm_event$")
    is_ev = (lambda e: e[0] == "arg" and e[1] == 2)
    c = ctx.use(P.fn_in_arm(prog, osw, is_ev, "ConnectionClosed"))
    CN = P.Norm(c)
    crets = c.return_blocks()
    cviews = P.views(prog, c)
    cp_all = []
    drains = {"inbound": [], "outbound": []}
    for B, vsite, vargs in cviews:
        BN = P.Norm(B)
        is_m = B.names.get(1) == "self"
        bcp = queue_pushes(B, BN, Q)
        cp_all += [(B, x) for x in bcp]
        for side, want in (("inbound", ("InboundFailure", "ConnectionClosed")), ("outbound", ("OutboundFailure", "ConnectionClosed"))):
            fld = SETS[side]
            for it in [s for s in B.call_sites(r"IntoIterator>::into_iter$|HashSet::(drain|into_iter|iter)$") if (lambda a: a[0] == "field" and a[2] == fld)(B.site_expr(s)[2][0])]:
                drains[side].append(it)
                where = "" if vsite is None else " (in helper %s)" % B.short.split("::")[-1]
                got = lib.count_range(B, [0], B.return_blocks(), [it.bb])
                gcall = lib.count_range(c, [0], crets, [vsite.bb]) if vsite is not None else (1, 1)
                ctx.ob("closed", "pending %s set drained on every path" % side, got == (1, 1) and gcall == (1, 1), it.loc(), "iteration on all paths: %s%s, helper called on all paths: %s" % (got, where, gcall))
                # the connection whose set is drained, in on_connection_closed's terms
                base = B.site_expr(it)[2][0][1]
                if vsite is not None and base[0] == "arg":
                    base = c.site_expr(vsite)[2][base[1] - 1]
                    holder = c
                else:
                    holder = B
                removed = any(P.call_is(x, r"(SmallVec|Vec)::(remove|swap_remove)$") for x in mir.walk(base))
                for x in mir.walk(base):
                    if x[0] == "closure" and prog.closure_body(holder, x[1]).call_sites(r"(SmallVec|Vec)::(remove|swap_remove)$"):
                        removed = True
                ctx.ob("closed", "pending %s set: the drained connection was removed from `connected`" % side, removed and holder is c, it.loc(),
                       "the set belongs to the value returned by connections.remove(position)")
                lp = loop_of(B, it)
                if lp is None:
                    ctx.ob("closed", "pending %s set: loop found" % side, False, it.loc(), "for-loop over the set not recognised")
                    continue
                inloop = [(s, o) for s, o in bcp if s.bb in B.reachable([lp[1]], stop_nodes=[lp[0].bb])]
                ctx.ob("closed", "pending %s set -> %s::%s" % (side, want[0], want[1]), [o[:2] for _, o in inloop] == [want], lp[0].loc(), str([o[:2] for _, o in inloop]))
                per_element(ctx, "closed", "pending %s set: one failure per pending id" % side, B, lp, lib.bbs([s for s, _ in inloop]), "ConnectionClosed failure")
                for s, o in inloop:
                    ctx.ob("closed", "pending %s set: failure carries the drained id" % side, o[2] == elem_of(B, BN, lp), s.loc(), str(o[2]))
                    pc = (P.to_caller(o[3].get("peer"), is_m, vargs), P.to_caller(o[3].get("connection_id"), is_m, vargs))
                    ctx.ob("closed", "pending %s set: failure carries the closed peer/connection" % side, pc == ("$2.peer_id", "$2.connection_id"), s.loc(), str(pc))
    ctx.floor("closed", "outcome pushes on connection close", cp_all, 2, exact=True)
    for side in ("inbound", "outbound"):
        ctx.floor("closed", "drain of the pending %s set" % side, drains[side], 1, exact=True)
    pos = c.call_sites(r"Iterator>::position$|Iterator::position$")
    ok = False
    for s in pos:
        for _, cb in P.closures_in(prog, c, c.site_expr(s))[:1]:
            for _, x in P.ret_exprs(cb):
                cm = P.cmpnf(x)
                ok = cm is not None and cm[0] == "Eq" and sorted([P.Norm(cb).r(cm[1]), P.rr(prog, cb, cm[2])]) == sorted(["$2.%s" % C_ID, "$2.connection_id"])
    ctx.ob("closed", "the removed connection is the closed one (c.id == connection_id)", ok, pos[0].loc() if pos else "", "position(|c| c.id == connection_id)")

    # ================================================================= on_dial_failure(self, failure = $2)
    d = ctx.use(P.fn_in_arm(prog, osw, is_ev, "DialFailure"))
    DN = P.Norm(d)
    dp = queue_pushes(d, DN, Q)
    ctx.floor("dial-failure", "outcome pushes in on_dial_failure", dp, 1, exact=True)
    rm = [s for s in d.call_sites(r"HashMap::remove$") if DN.r(d.site_expr(s)[2][0]) == PENDREQ]
    ctx.floor("dial-failure", "pending_outbound_requests.remove", rm, 1, exact=True)
    TAKEN = DN.site(rm[0]) + "@+" if rm else "?"
    its = [s for s in d.call_sites(r"IntoIterator>::into_iter$") if "." + F_PENDREQ in DN.site(s)]
    for it in its:
        src = DN.r(d.site_expr(it)[2][0])
        ctx.ob("dial-failure", "queued requests are taken (HashMap::remove)", src == TAKEN and DN.r(d.site_expr(rm[0])[2][1]) == "$2.peer_id@+", it.loc(), src[:140])
        lp = loop_of(d, it)
        if lp is None:
            ctx.ob("dial-failure", "loop found", False, it.loc())
            continue
        per_element(ctx, "dial-failure", "one DialFailure outcome per queued request", d, lp, lib.bbs([s for s, _ in dp]), "OutboundFailure::DialFailure")
        for s, o in dp:
            ctx.ob("dial-failure", "outcome carries the queued request's id and the dialled peer", o[2] == elem_of(d, DN, lp) + "." + M_ID and o[3].get("peer") == "$2.peer_id@+", s.loc(), str(o[2:]))
    ctx.ob("dial-failure", "floor:loop over the removed requests", len(its) == 1, nontrivial=False, msg="%d loops" % len(its))
    for s in rm:
        some = P.targets(P.outcome_edges(d, P.is_call_at(s), True))
        got = lib.count_range(d, some, d.return_blocks(), lib.bbs(its)) if some else None
        ctx.ob("dial-failure", "removed requests are always drained", got == (1, 1), s.loc(), "loop entered on the Some edge: %s" % (got,))
    for s, o in dp:
        ctx.ob("dial-failure", "outcome kind", o[:2] == ("OutboundFailure", "DialFailure"), s.loc(), str(o[:2]))
    # which dial errors may leave the queued requests untouched: only DialPeerConditionFalse (another dial is still pending) and a failure without peer
    skip_ok = set(P.outcome_edges(d, lambda y: DN.r(y) == "$2.peer_id", False))
    labels_seen = set()
    for bi in d.live:
        info = d.switch_info(bi)
        if info and info[0][0] == "discr" and DN.r(info[0][1]) == "$2.error":
            for tg, ls in info[1].items():
                labels_seen |= set(ls)
                if ls and ls <= {"DialPeerConditionFalse"}:
                    skip_ok.add((bi, tg))
    for s in rm:
        r_ = d.reachable_bool([0], blocked_nodes=[s.bb], blocked_edges=skip_ok | P.const_dead_edges(d))
        leak = sorted(set(d.return_blocks()) & r_)
        ctx.ob("dial-failure", "only DialPeerConditionFalse (or a failure without peer) leaves the queued requests untouched", not leak, s.loc(),
               "every other dial error reaches pending_outbound_requests.remove(peer)" if not leak else
               "the function can return without draining the peer's queued requests on a dial error other than DialPeerConditionFalse: those requests never get an outcome")

    # ================================================================= preload_new_handler(self, handler = $2, peer = $3, connection_id = $4, remote_address = $5)
    hei = ctx.body(RR, r"<Behaviour as libp2p_swarm::NetworkBehaviour>::handle_established_inbound_connection$")
    hcal = {cb.npath: cb for _, cb in P.crate_callees(prog, hei)}
    pre = [cb for cb in hcal.values() if cb.names.get(1) == "self"]
    ctor = [cb for cb in hcal.values() if cb.names.get(1) != "self"]
    if len(pre) != 1 or len(ctor) != 1:
        raise mir.RuleError("handle_established_inbound_connection: expected one handler constructor and one preload method, found %s" % sorted(hcal))
    p = ctx.use(pre[0])
    hnew = ctx.use(ctor[0])
    PN = P.Norm(p, ids=True)
    prets = p.return_blocks()
    rm = [s for s in p.call_sites(r"HashMap::remove$") if PN.site(s) == "std::collections::HashMap::remove(%s, $3)" % PENDREQ]
    ctx.floor("preload", "pending_outbound_requests.remove(peer)", rm, 1, exact=True)
    its = [s for s in p.call_sites(r"IntoIterator>::into_iter$") if "." + F_PENDREQ in PN.site(s)]
    ins = [s for s in p.call_sites(r"HashSet::insert$") if (lambda a: a[0] == "field" and a[2] == SETS["outbound"] and a[1][0] == "local")(p.site_expr(s)[2][0])]
    obe = p.call_sites(r"ConnectionHandler>::on_behaviour_event$")
    ctx.floor("preload", "pending_outbound_responses.insert", ins, 1, exact=True)
    ctx.floor("preload", "handler.on_behaviour_event", obe, 1, exact=True)
    CL = p.site_expr(ins[0])[2][0][1][1] if ins else None
    ctx.ob("preload", "the pending set belongs to the new Connection", CL is not None and PN.r(p.init_expr(CL)) == "libp2p_request_response::Connection::new($4, $5)", msg=PN.r(p.init_expr(CL)) if CL is not None else "")
    for it in its:
        src = PN.r(p.site_expr(it)[2][0])
        ctx.ob("preload", "queued requests are taken (HashMap::remove)", bool(rm) and src == PN.site(rm[0]) + "@+", it.loc(), src[:140])
        lp = loop_of(p, it)
        if lp is None:
            ctx.ob("preload", "loop found", False, it.loc())
            continue
        per_element(ctx, "preload", "each queued request is tracked on the new connection", p, lp, lib.bbs(ins), "pending_outbound_responses.insert")
        per_element(ctx, "preload", "each queued request is handed to the new handler", p, lp, lib.bbs(obe), "handler.on_behaviour_event")
        EL = elem_of(p, PN, lp)
        for s in ins:
            ctx.ob("preload", "tracked id is the queued request's id", PN.r(p.site_expr(s)[2][1]) == EL + "." + M_ID, s.loc(), PN.r(p.site_expr(s)[2][1])[-60:])
        for s in obe:
            a = p.site_expr(s)[2]
            ctx.ob("preload", "the queued request itself is handed over", PN.r(a[0]) == "$2" and PN.r(a[1]) == EL, s.loc(), PN.r(a[1])[-60:])
    ctx.ob("preload", "floor:loop over the removed requests", len(its) == 1, nontrivial=False, msg="%d loops" % len(its))
    for s in rm:
        some = P.targets(P.outcome_edges(p, P.is_call_at(s), True))
        got = lib.count_range(p, some, prets, lib.bbs(its)) if some else None
        ctx.ob("preload", "removed requests are always drained", got == (1, 1), s.loc(), "loop entered on the Some edge: %s" % (got,))
    cpush = [s for s in p.call_sites(r"SmallVec::push$|Vec::push$") if PN.site(s) ==
             "smallvec::SmallVec::push(std::collections::hash_map::Entry::or_default(std::collections::HashMap::entry(%s, $3)), %%%s)" % (CONNECTED, CL)]
    got = lib.count_range(p, [0], prets, lib.bbs(cpush))
    ctx.ob("preload", "the connection (with its pending set) is registered on every path", got == (1, 1), cpush[0].loc() if cpush else "", "connected.entry(peer).or_default().push(connection): %s" % (got,))
    callers = prog.callers(RR, "^" + re.escape(p.npath) + "$")
    ctx.floor("preload", "callers of preload_new_handler", callers, 2)
    for s in callers:
        got = lib.count_range(s.body, [0], s.body.return_blocks(), [s.bb])
        ctx.ob("preload", "%s preloads the new handler exactly once" % s.body.short.split("::")[-1], got == (1, 1), s.loc(), str(got))

    # ================================================================= try_send_request(self, peer = $2, request = $3)
    sr = ctx.body(RR, r"^libp2p_request_response::Behaviour::send_request_with_addresses$")
    scal = {cb.npath: cb for _, cb in P.crate_callees(prog, sr)}
    nbs = [cb for cb in scal.values() if cb.field_write_sites(F_NEXTOUT)]
    tss = [cb for cb in scal.values() if not cb.field_write_sites(F_NEXTOUT) and cb.names.get(1) == "self"]
    if len(nbs) != 1 or len(tss) != 1:
        raise mir.RuleError("send_request_with_addresses: id accessor / send helper not identified among %s" % sorted(scal))
    nb, t = ctx.use(nbs[0]), ctx.use(tss[0])
    TN = P.Norm(t)
    ins = [s for s in t.call_sites(r"HashSet::insert$") if (lambda a: a[0] == "field" and a[2] == SETS["outbound"])(t.site_expr(s)[2][0])]
    note = [s for s in t.call_sites(r"VecDeque::push_back$") if TN.r(t.site_expr(s)[2][0]) == Q and [x for x in mir.walk(t.site_expr(s)[2][1]) if x[0] == "agg" and x[3] == "NotifyHandler"]]
    ctx.floor("try-send", "pending_outbound_responses.insert", ins, 1, exact=True)
    ctx.floor("try-send", "NotifyHandler push", note, 1, exact=True)
    n_none = n_some = 0
    for site, e in P.ret_exprs(t):
        if not (e[0] == "agg" and strip_generics(e[2]) == "std::option::Option"):
            ctx.ob("try-send", "result is a literal Option", False, site.loc(), TN.r(e)[:80])
            continue
        gi = lib.count_range(t, [0], [site.bb], lib.bbs(ins))
        gn = lib.count_range(t, [0], [site.bb], lib.bbs(note))
        if e[3] == "None":
            n_none += 1
            ctx.ob("try-send", "None <=> id tracked and handler notified", gi == (1, 1) and gn == (1, 1), site.loc(), "on paths returning None: insert %s, NotifyHandler %s" % (gi, gn))
        else:
            n_some += 1
            ctx.ob("try-send", "Some(request) <=> nothing tracked, nothing sent", gi == (0, 0) and gn == (0, 0) and TN.r(dict(e[4])["0"]) == "$3", site.loc(),
                   "on paths returning Some: insert %s, NotifyHandler %s, payload %s" % (gi, gn, TN.r(dict(e[4])["0"])))
    ctx.ob("try-send", "floor:result sites", n_none >= 1 and n_some >= 2, nontrivial=False, msg="None %d Some %d" % (n_none, n_some))
    for s in ins:
        e = t.site_expr(s)
        conn = TN.r(e[2][0][1])
        ctx.ob("try-send", "tracked id is the request's id", TN.r(e[2][1]) == "$3." + M_ID, s.loc(), TN.r(e[2][1]))
        for n_ in note:
            nh = [x for x in mir.walk(t.site_expr(n_)[2][1]) if x[0] == "agg" and x[3] == "NotifyHandler"][0]
            f = {k: TN.r(v) for k, v in nh[4]}
            ctx.ob("try-send", "the notified handler is the connection that tracks the id", f.get("handler") == "libp2p_swarm::NotifyHandler::One{0: %s.%s}" % (conn, C_ID) and f.get("event") == "$3" and f.get("peer_id") == "$2", n_.loc(), str(f)[-160:])
        ctx.ob("try-send", "connection belongs to the target peer", "std::collections::HashMap::get_mut(%s, $2)@+" % CONNECTED in conn, s.loc(), conn[:100])
    # ================================================================= send_request_with_addresses(self, peer = $2, request = $3, addresses = $4)
    SN = P.Norm(sr)
    srets = sr.return_blocks()
    ts = sr.call_sites("^" + re.escape(t.npath) + "$")
    nid = sr.call_sites("^" + re.escape(nb.npath) + "$")
    ctx.floor("send", "try_send_request call", ts, 1, exact=True)
    got = lib.count_range(sr, [0], srets, lib.bbs(nid))
    ctx.ob("send", "one fresh id per request", got == (1, 1) and len(nid) == 1, nid[0].loc() if nid else "", "fresh-id calls on all paths: %s" % (got,))
    dial = [s for s in sr.call_sites(r"VecDeque::push_back$") if SN.r(sr.site_expr(s)[2][0]) == Q and [x for x in mir.walk(sr.site_expr(s)[2][1]) if x[0] == "agg" and x[3] == "Dial"]]
    qpush = [s for s in sr.call_sites(r"SmallVec::push$|Vec::push$") if SN.r(sr.site_expr(s)[2][0]) == "std::collections::hash_map::Entry::or_default(std::collections::HashMap::entry(%s, $2))" % PENDREQ]
    for s in ts:
        some = P.targets(P.outcome_edges(sr, P.is_call_at(s), True))
        none = P.targets(P.outcome_edges(sr, P.is_call_at(s), False))
        gq, gd = (lib.count_range(sr, some, srets, lib.bbs(qpush)), lib.count_range(sr, some, srets, lib.bbs(dial))) if some else (None, None)
        ctx.ob("send", "a request handed back is queued exactly once (with one dial)", gq == (1, 1) and gd == (1, 1), s.loc(), "Some edge: queue push %s, Dial %s" % (gq, gd))
        gq = lib.count_range(sr, none, srets, lib.bbs(qpush) + lib.bbs(dial)) if none else None
        ctx.ob("send", "a request already sent is not queued again", gq == (0, 0), s.loc(), "None edge: queue push / Dial %s" % (gq,))
        msg = sr.site_expr(s)[2][2]
        mid = dict(msg[4]).get(M_ID) if msg[0] == "agg" else None
        ctx.ob("send", "the message carries the fresh id", mid is not None and mid[0] == "call" and bool(nid) and mid[3] == nid[0].bb, s.loc(), SN.r(msg)[:120])
        for q in qpush:
            ctx.ob("send", "the queued request is the one handed back", SN.r(sr.site_expr(q)[2][1]) == SN.site(s) + "@+", q.loc(), "pending_outbound_requests.entry(peer).or_default().push(request)")
    rd = [e for _, e in P.ret_exprs(sr)]
    ctx.ob("send", "the returned id is the message's id", len(rd) == 1 and rd[0][0] == "call" and bool(nid) and rd[0][3] == nid[0].bb, msg=str([SN.r(x) for x in rd]))

    # ================================================================= ids
    NB = P.Norm(nb)
    writers = {}
    for b in prog.bodies(RR):
        for s in b.field_write_sites(F_NEXTOUT):
            writers.setdefault(b.npath, []).append(s)
    ctx.ob("ids", "outbound counter written only by its accessor", set(writers) == {nb.npath}, msg=str(sorted(writers)))
    ws = writers.get(nb.npath, [])
    for s in ws:
        r = NB.site(s)
        ctx.ob("ids", "outbound counter advances by one", r in ("AddWithOverflow(self.%s.0, 1).0" % F_NEXTOUT, "AddWithOverflow(1, self.%s.0).0" % F_NEXTOUT), s.loc(), r)
    rd = nb.defs.get(0, [])
    ok = False
    why = "return value is not a copy of the counter taken before the increment"
    if len(rd) == 1 and rd[0][0] == "stmt" and rd[0][3]["k"] == "use" and rd[0][3]["o"].get("k") in ("copy", "move") and "pr" not in rd[0][3]["o"]["p"] and len(ws) == 1:
        x = rd[0][3]["o"]["p"]["l"]
        xd = nb.defs.get(x, [])
        if len(xd) == 1 and xd[0][0] == "stmt" and NB.r(nb.rvalue_expr(xd[0][3])) == "self." + F_NEXTOUT:
            before = (xd[0][1] == ws[0].bb and xd[0][2] < ws[0].si) or (xd[0][1] != ws[0].bb and nb.dominates(xd[0][1], ws[0].bb))
            ok = before
            why = "copy at bb%d precedes the increment: %s" % (xd[0][1], before)
    ctx.ob("ids", "accessor returns the pre-increment value", ok, "%s:%d" % (nb.file, nb.line), why)
    callers = prog.callers(RR, "^" + re.escape(nb.npath) + "$")
    ctx.ob("ids", "accessor called only when a request is created", {s.body.npath for s in callers} == {sr.npath}, msg=str(sorted({s.body.npath for s in callers})))
    aggs = {}
    for b in prog.bodies(RR):
        for s in b.agg_sites(r"^libp2p_request_response::(Out|In)boundRequestId$"):
            aggs.setdefault(strip_generics(s.stmt["r"]["adt"]).split("::")[-1], []).append(s)
    ob_ = aggs.get("OutboundRequestId", [])
    ctx.ob("ids", "OutboundRequestId constructed only as the initial counter", len(ob_) == 1 and ob_[0].body.npath.endswith("Behaviour::with_codec") and P.const_val(dict(ob_[0].body.site_expr(ob_[0])[4])["0"]) is not None,
           ob_[0].loc() if ob_ else "", str([(s.body.short, P.nr(s.body, s.body.site_expr(s))[-40:]) for s in ob_]))
    ib = aggs.get("InboundRequestId", [])
    ibs = [P.nr(s.body, s.body.site_expr(s)) for s in ib]
    ctx.ob("ids", "InboundRequestId constructed only from the shared atomic counter", len(ib) == 1 and
           re.search(r"\{0: std::sync::atomic::Atomic(U64)?::fetch_add\((<std::sync::Arc as std::ops::Deref>::deref\()?self\.%s\)?, 1, " % re.escape(H_INID), ibs[0]) is not None,
           ib[0].loc() if ib else "", str([x[-120:] for x in ibs]))
    fresh_in = ib[0].body if ib else None
    hag = [x for _, e in P.ret_exprs(hnew) for x in mir.walk(e) if x[0] == "agg" and x[1] == "adt" and strip_generics(x[2]) == "libp2p_request_response::handler::Handler"]
    idx = None
    if len(hag) == 1:
        v = dict(hag[0][4]).get(H_INID)
        idx = v[1] if v is not None and v[0] == "arg" else None
    ctx.ob("ids", "Handler stores the shared counter", idx is not None, msg="constructor argument #%s" % idx)
    hn = prog.callers(RR, "^" + re.escape(hnew.npath) + "$")
    ctx.floor("ids", "Handler::new call sites", hn, 2)
    for s in hn:
        a = P.nr(s.body, s.body.site_expr(s)[2][idx - 1]) if idx else "?"
        ctx.ob("ids", "every handler shares the behaviour's inbound id counter", a == "clone(self.%s)" % F_NEXTIN, s.loc(), a)

    # ================================================================= Handler::poll(self, cx = $2)
    hp = ctx.body(RR, r"<handler::Handler as libp2p_swarm::ConnectionHandler>::poll$")
    HN = P.Norm(hp)
    hrets = hp.return_blocks()
    wp = [s for s in hp.call_sites(r"poll_unpin$|FuturesMap::poll$") if HN.r(hp.site_expr(s)[2][0]) == H_WORK]
    ctx.floor("handler-poll", "worker_streams poll", wp, 1, exact=True)
    WP = HN.site(wp[0]) if wp else "?"
    want = {("Inbound", "Ok", "Err"): "InboundStreamFailed", ("Outbound", "Ok", "Err"): "OutboundStreamFailed",
            ("Inbound", "Err", None): "InboundTimeout", ("Outbound", "Err", None): "OutboundTimeout"}
    rows = {}
    passthru = []
    results = P.ret_exprs(hp)
    ready_t = P.targets(P.variant_edges(hp, P.is_call_at(wp[0]), {"Ready"})) if wp else []
    pend_t = P.targets(P.variant_edges(hp, P.is_call_at(wp[0]), {"Pending"})) if wp else []
    ctx.ob("handler-poll", "floor:Ready edge of worker_streams", len(ready_t) == 1, nontrivial=False, msg=str(ready_t))
    inready = hp.reachable(ready_t) if ready_t else set()
    res_in = [(s, e) for s, e in results if s.bb in inready and s.bb not in hp.reachable(pend_t)]
    for s, e in res_in:
        who = outer = inner = None
        for text, labels, _, cond in hp.guards_on_all_paths(s.bb):
            if cond[0] != "discr" or len(labels) != 1:
                continue
            rc = HN.r(cond[1])
            lab = next(iter(labels))
            if rc == WP + "@Ready.0":
                who = lab
            elif rc == WP + "@Ready.1":
                outer = lab
            elif rc == WP + "@Ready.1@+":
                inner = lab
        o = outcome_of(HN, e, HEV)
        r = HN.r(e)
        if o is None:
            passthru.append((s, who, outer, inner, r))
        else:
            rows[(who, outer, inner)] = (o, s, r)
    got = {k: v[0][0] for k, v in rows.items()}
    ctx.ob("handler-poll", "worker result table", got == want, wp[0].loc() if wp else "", "(kind, outer, inner) -> handler event: %s (expected %s)" % (got, want))
    NOTIFY = "std::task::Poll::Ready{0: libp2p_swarm::ConnectionHandlerEvent::NotifyBehaviour{0: "
    for k, (o, s, r) in rows.items():
        ctx.ob("handler-poll", "%s carries the id of the finished worker" % o[0], o[2] == "%s@Ready.0@%s" % (WP, k[0]) and r.startswith(NOTIFY), s.loc(), "request id %s" % o[2])
    ctx.ob("handler-poll", "Ok(Ok(event)) is forwarded unchanged", len(passthru) == 1 and passthru[0][2:4] == ("Ok", "Ok") and passthru[0][4] == NOTIFY + WP + "@Ready.1@+@+}}",
           passthru[0][0].loc() if passthru else "", str([(x[1], x[2], x[3], x[4][-60:]) for x in passthru]))
    if ready_t:
        got = lib.count_range(hp, ready_t, hrets, lib.bbs([s for s, _ in res_in]))
        ctx.ob("handler-poll", "every finished worker yields exactly one event", got == (1, 1), wp[0].loc(), "result assignments on every path from the Ready edge: %s" % (got,))
    for fld, kind in ((HQ, "events"), (H_POUT, "requests")):
        pops = [s for s in hp.call_sites(r"VecDeque::pop_front$") if HN.r(hp.site_expr(s)[2][0]) == fld]
        ctx.floor("handler-poll", "pop_front of queued " + kind, pops, 1, exact=True)
        for s in pops:
            some = P.targets(P.outcome_edges(hp, P.is_call_at(s), True))
            mine = [(rs, e) for rs, e in results if some and rs.bb in hp.reachable(some)]
            popped = HN.site(s) + "@+"
            if kind == "events":
                ok = len(mine) == 1 and HN.r(mine[0][1]) == NOTIFY + popped + "}}"
                ctx.ob("handler-poll", "a queued event is delivered unchanged", ok and lib.count_range(hp, some, hrets, [mine[0][0].bb]) == (1, 1), s.loc(), str([HN.r(e)[-90:] for _, e in mine]))
            else:
                rq = [x for x in hp.call_sites(r"VecDeque::push_back$") if HN.site(x) == "std::collections::VecDeque::push_back(%s, %s)" % (H_REQ, popped)]
                got = lib.count_range(hp, some, hrets, lib.bbs(rq)) if some else None
                ok = len(mine) == 1 and [x for x in mir.walk(mine[0][1]) if x[0] == "agg" and x[3] == "OutboundSubstreamRequest"]
                ctx.ob("handler-poll", "an outbound request moves to requested_outbound exactly when its substream is requested", bool(ok) and got == (1, 1), s.loc(), "requested_outbound.push_back(request) on the Some edge: %s" % (got,))
    req = [(s, outcome_of(HN, e, HEV)) for s, e in results if (outcome_of(HN, e, HEV) or (None,))[0] == "Request"]
    RCV = "futures::StreamExt::poll_next_unpin(%s, $2)@+@Ready" % H_RECV
    ok = len(req) == 1 and req[0][1][2] == RCV + ".0"
    if ok:
        e = [e for s, e in results if s is req[0][0]][0]
        f = [dict(x[4]) for x in mir.walk(e) if x[0] == "agg" and x[3] == "Request"][0]
        ok = HN.r(f.get("sender", ("unknown", "?"))) == RCV + ".2" and HN.r(f.get("request", ("unknown", "?"))) == RCV + ".1"
    ctx.ob("handler-poll", "an inbound request is reported with the id and sender received from its worker", ok, req[0][0].loc() if req else "", str(req[0][1][:3]) if req else "")
    ctx.ob("handler-poll", "on_behaviour_event queues the request once", lib.count_range(obev, [0], obev.return_blocks(), lib.bbs(pb)) == (1, 1), "%s:%d" % (obev.file, obev.line), "pending_outbound.push_back(request)")

    # ================================================================= dial upgrade error / try_push failure
    oce = ctx.body(RR, r"<handler::Handler as libp2p_swarm::ConnectionHandler>::on_connection_event$")
    de = ctx.use(P.fn_in_arm(prog, oce, is_ev, "DialUpgradeError"))
    DE = P.Norm(de)
    POPPED = "std::collections::VecDeque::pop_front(%s)@+" % H_REQ
    pops = [s for s in de.call_sites(r"VecDeque::pop_front$") if DE.r(de.site_expr(s)[2][0]) == H_REQ]
    got = lib.count_range(de, [0], de.return_blocks(), lib.bbs(pops))
    ctx.ob("dial-upgrade-error", "the failed request is taken from requested_outbound exactly once", got == (1, 1), pops[0].loc() if pops else "", str(got))
    dpush = queue_pushes(de, DE, HQ, HEV)
    ctx.floor("dial-upgrade-error", "handler events queued", dpush, 3)
    for arm, evn in (("Timeout", "OutboundTimeout"), ("NegotiationFailed", "OutboundUnsupportedProtocols"), ("Io", "OutboundStreamFailed")):
        ents = P.targets(P.variant_edges(de, lambda y: DE.r(y) == "$2.error", {arm}))
        if len(ents) != 1:
            ctx.ob("dial-upgrade-error", "%s -> %s" % (arm, evn), False, msg="arm not found")
            continue
        mine = [(s, o) for s, o in dpush if s.bb in de.reachable(ents)]
        right = [s for s, o in mine if o[0] == evn]
        got = lib.count_range(de, ents, de.return_blocks(), lib.bbs(right))
        gall = lib.count_range(de, ents, de.return_blocks(), lib.bbs([s for s, _ in dpush]))
        ctx.ob("dial-upgrade-error", "%s -> %s" % (arm, evn), got == (1, 1) and gall == (1, 1), right[0].loc() if right else "", "%s pushes %s, all pushes %s" % (evn, got, gall))
        for s, o in mine:
            ctx.ob("dial-upgrade-error", "%s: event carries the popped request's id" % arm, o[2] == POPPED + "." + M_ID, s.loc(), str(o[2])[-60:])
    fo = ctx.use(P.fn_in_arm(prog, oce, is_ev, "FullyNegotiatedOutbound"))
    FO = P.Norm(fo)
    forets = fo.return_blocks()
    pops = [s for s in fo.call_sites(r"VecDeque::pop_front$") if FO.r(fo.site_expr(s)[2][0]) == H_REQ]
    got = lib.count_range(fo, [0], forets, lib.bbs(pops))
    ctx.ob("negotiated-outbound", "the negotiated request is taken from requested_outbound exactly once", got == (1, 1), pops[0].loc() if pops else "", str(got))
    tp = [s for s in fo.call_sites(r"FuturesMap::try_push$") if FO.r(fo.site_expr(s)[2][0]) == H_WORK]
    ctx.floor("negotiated-outbound", "worker_streams.try_push", tp, 1, exact=True)
    fpush = queue_pushes(fo, FO, HQ, HEV)
    for s in tp:
        e = fo.site_expr(s)
        ctx.ob("negotiated-outbound", "worker is keyed by the popped request's id", FO.r(e[2][1]) == "libp2p_request_response::handler::RequestId::Outbound{0: %s.%s}" % (POPPED, M_ID), s.loc(), FO.r(e[2][1])[-80:])
        failed = P.truth_edges(fo, lambda y: P.call_is(y, r"Result::is_err$") and y[2][0][0] == "call" and y[2][0][3] == s.bb, True) | P.outcome_edges(fo, P.is_call_at(s), False) | \
            P.truth_edges(fo, lambda y: P.call_is(y, r"Result::is_ok$") and y[2][0][0] == "call" and y[2][0][3] == s.bb, False)
        accepted = P.truth_edges(fo, lambda y: P.call_is(y, r"Result::is_err$") and y[2][0][0] == "call" and y[2][0][3] == s.bb, False) | P.outcome_edges(fo, P.is_call_at(s), True) | \
            P.truth_edges(fo, lambda y: P.call_is(y, r"Result::is_ok$") and y[2][0][0] == "call" and y[2][0][3] == s.bb, True)
        gt = lib.count_range(fo, P.targets(failed), forets, lib.bbs([x for x, _ in fpush])) if failed else None
        gf = lib.count_range(fo, P.targets(accepted), forets, lib.bbs([x for x, _ in fpush])) if accepted else None
        ctx.ob("negotiated-outbound", "a rejected worker yields exactly one OutboundStreamFailed, an accepted one none", gt == (1, 1) and gf == (0, 0) and [o[0] for _, o in fpush] == ["OutboundStreamFailed"], s.loc(),
               "rejected edge: %s, accepted edge: %s, events %s" % (gt, gf, [o[0] for _, o in fpush]))
        cb, ups = P.upvar_sources(prog, fo, e)
        oks = []
        if cb is not None:
            ctx.use(cb)
            CB = P.Norm(cb)
            upr = [FO.r(u) for u in ups]
            want_id = POPPED + "." + M_ID
            for _, x in P.ret_exprs(cb):
                if x[0] == "agg" and x[3] == "Ok":
                    o = outcome_of(CB, x, HEV)
                    oks.append((o[0], upr[int(o[2][1:])] if o and o[2] and o[2][1:].isdigit() and int(o[2][1:]) < len(upr) else o[2]) if o else ("?", CB.r(x)[:60]))
            ctx.ob("negotiated-outbound", "the worker's only success result is Response for the popped request's id", oks == [("Response", want_id)], s.loc(), str(oks))
        else:
            ctx.ob("negotiated-outbound", "the worker's only success result is Response for the popped request's id", False, s.loc(), "worker future not found")
    for s, o in fpush:
        ctx.ob("negotiated-outbound", "failure carries the popped request's id", o[2] == POPPED + "." + M_ID, s.loc(), str(o[2])[-60:])
    # inbound worker
    fi = ctx.use(P.fn_in_arm(prog, oce, is_ev, "FullyNegotiatedInbound"))
    FI = P.Norm(fi)
    tp = [s for s in fi.call_sites(r"FuturesMap::try_push$") if FI.r(fi.site_expr(s)[2][0]) == H_WORK]
    ctx.floor("negotiated-inbound", "worker_streams.try_push", tp, 1, exact=True)
    nidc = fi.call_sites("^" + re.escape(fresh_in.npath) + "$") if fresh_in is not None else []
    got = lib.count_range(fi, [0], fi.return_blocks(), lib.bbs(nidc))
    ctx.ob("negotiated-inbound", "one fresh inbound id per stream", got == (1, 1) and len(nidc) == 1, nidc[0].loc() if nidc else "", str(got))
    FRESH = FI.site(nidc[0]) if nidc else "?"
    for s in tp:
        e = fi.site_expr(s)
        ctx.ob("negotiated-inbound", "worker is keyed by the fresh id", FI.r(e[2][1]) == "libp2p_request_response::handler::RequestId::Inbound{0: %s}" % FRESH, s.loc(), FI.r(e[2][1])[-90:])
        cb, ups = P.upvar_sources(prog, fi, e)
        oks, sends = [], []
        if cb is not None:
            ctx.use(cb)
            CB = P.Norm(cb)
            upr = [FI.r(u) for u in ups]

            def up(txt):
                return upr[int(txt[1:])] if txt and txt.startswith("^") and txt[1:].isdigit() and int(txt[1:]) < len(upr) else txt
            for _, x in P.ret_exprs(cb):
                if x[0] == "agg" and x[3] == "Ok":
                    o = outcome_of(CB, x, HEV)
                    oks.append((o[0], up(o[2])) if o else ("?", CB.r(x)[:60]))
            for x in cb.call_sites(r"SinkExt::send$|Sender::try_send$|Sender::start_send$"):
                pay = cb.site_expr(x)[2][1]
                sends.append(up(CB.r(dict(pay[4])["0"])) if pay[0] == "agg" and pay[1] == "tuple" else CB.r(pay)[:60])
        ctx.ob("negotiated-inbound", "the worker's success results are ResponseSent / ResponseOmission for the fresh id", sorted(oks) == [("ResponseOmission", FRESH), ("ResponseSent", FRESH)], s.loc(), str(oks))
        ctx.ob("negotiated-inbound", "the request is announced with the fresh id", sends == [FRESH], s.loc(), str(sends))


def _descendants(prog, b):
    out = []
    for c in prog.children(b):
        out.append(c)
        out.extend(_descendants(prog, c))
    return out
