"""C29 connection handlers know whether their peer is in a mesh — path counting (K2), order (K3), origin / batch rule (K5), tables (K7), who (K4)."""
import re

from .. import lib, mir
from .. import lib_gs as gs
from ..mir import render, strip_generics

EXPLANATION = ("Handler: on_behaviour_event sets in_mesh=true exactly on JoinedMesh and false exactly on LeftMesh, nothing else writes in_mesh, "
               "it starts false, connection_keep_alive() is true iff Enabled && in_mesh. Notifiers: peer_added_to_mesh pushes exactly one "
               "NotifyHandler{One(first connection), JoinedMesh} unless the peer is unknown or is found in the mesh of a topic *outside* "
               "new_topics (the silent return is reachable only via new_topics.contains(t)==false, mesh.get(t)==Some, contains(peer)==true); "
               "peer_removed_from_mesh symmetrically with LeftMesh and `t != old_topic`; JoinedMesh/LeftMesh are constructed nowhere else "
               "except the connection hand-over in on_connection_closed (guarded by a mesh membership test). Coverage: every site that adds "
               "to a mesh set (join x2, handle_graft, handle_received_subscriptions, heartbeat x3) is followed on all paths by a "
               "peer_added_to_mesh for that peer — directly, through the per-peer accumulator (added_peers / topics_to_graft) or through "
               "to_graft -> send_graft_prune — and every removal (leave, remove_peer_from_mesh, heartbeat score/excess pruning via to_prune) "
               "by a peer_removed_from_mesh. Batch rule: a peer_added_to_mesh whose new_topics is the single element of a topic loop must "
               "have the mesh insertion of that topic inside the same loop iteration; when the meshes were updated for several topics "
               "before the call (heartbeat -> send_graft_prune) new_topics must be the peer's whole topic list of that batch.")
ASSUMPTIONS = ["delivery of ToSwarm::NotifyHandler events to the addressed connection handler in emission order (swarm, C07)",
               "a mesh member is listed in PeerDetails.topics (peer_added/removed_from_mesh scan the peer's topics)",
               "the last connection closing needs no LeftMesh (its handler is gone); score dynamics and randomness are not modelled",
               "HashMap/BTreeSet/Vec API semantics"]
TECHNIQUE = "static analysis of rustc MIR facts: path counting between sites, dominance guards, def-use origin of call arguments"

G = gs.G
B = "libp2p_gossipsub::behaviour::Behaviour::"
CONFIGS = [{"name": "gossipsub-features", "packages": ["libp2p-gossipsub"], "features": "metrics,partial-messages"}]
ADDED = r"behaviour::peer_added_to_mesh$"
REMOVED = r"behaviour::peer_removed_from_mesh$"

SELFTEST = [
    {"mutation": "pinned tree (F5): send_graft_prune calls peer_added_to_mesh(peer, vec![topic]) per topic after heartbeat updated all meshes", "caught_by": "batch/send_graft_prune: new_topics covers every topic whose mesh was updated before the call"},
    {"mutation": "handler: JoinedMesh => in_mesh = false", "caught_by": "handler/JoinedMesh sets in_mesh = true"},
    {"mutation": "connection_keep_alive: `if !h.in_mesh`", "caught_by": "handler/keep_alive <=> Enabled && in_mesh"},
    {"mutation": "peer_added_to_mesh: `!new_topics.contains(&topic)` -> `new_topics.contains(&topic)`", "caught_by": "notify/peer_added_to_mesh: silent only if in the mesh of a topic outside new_topics"},
    {"mutation": "peer_removed_from_mesh: pushes JoinedMesh", "caught_by": "notify/peer_removed_from_mesh emits LeftMesh"},
    {"mutation": "handle_graft: peer_added_to_mesh call deleted", "caught_by": "cover/handle_graft: insertion is followed by peer_added_to_mesh in the same iteration"},
    {"mutation": "remove_peer_from_mesh: peer_removed_from_mesh call deleted", "caught_by": "cover/remove_peer_from_mesh: removal => one peer_removed_from_mesh"},
    {"mutation": "heartbeat: opportunistic graft forgets to_graft bookkeeping", "caught_by": "cover/heartbeat: every grafted peer is recorded in to_graft"},
    {"mutation": "handle_received_subscriptions: `if !topics_joined.is_empty()` -> `if topics_joined.is_empty()`", "caught_by": "cover/handle_received_subscriptions: non-empty graft list => one peer_added_to_mesh"},
    {"mutation": "heartbeat excess pruning: to_prune bookkeeping removed", "caught_by": "cover/heartbeat: every pruned peer is recorded in to_prune"},
    {"mutation": "seeded C29: on_connection_closed `!peer.connections.is_empty()` -> `peer.connections.len() > 1`", "caught_by": "notify/hand-over happens whenever a connection remains"},
    {"mutation": "NEUTRAL gs/11: private field EnabledHandler.in_mesh renamed", "caught_by": "(silent, the flag is identified by role)"},
]

# one-edit source variants for the thorough-tier sensitivity self-test (vrules/selftest.py); each must be reported
MUTANTS = [
    {"name": 'JoinedMesh clears the flag', "file": 'protocols/gossipsub/src/handler.rs',
     "find": '                HandlerIn::JoinedMesh => {\n                    handler.in_mesh = true;',
     "replace": '                HandlerIn::JoinedMesh => {\n                    handler.in_mesh = false;',
     "expect": 'handler/JoinedMesh sets in_mesh = true', "why": 'mesh connections are never kept alive'},
    {"name": 'per-topic notification after a batched mesh update (F5)', "file": 'protocols/gossipsub/src/behaviour.rs',
     "find": '                topics.iter().collect(),\n',
     "replace": '                topics.iter().take(1).collect(),\n',
     "expect": 'batch/send_graft_prune', "why": 'only the first grafted topic is excluded, so a peer grafted into 2 topics gets no JoinedMesh'},
    {"name": 'peer_added_to_mesh exclusion polarity', "file": 'protocols/gossipsub/src/behaviour.rs',
     "find": '            if !new_topics.contains(&topic)\n',
     "replace": '            if new_topics.contains(&topic)\n',
     "expect": 'notify/peer_added_to_mesh: silent only', "why": 'first mesh membership is not announced'},
    {"name": 'excess pruning forgets the bookkeeping', "file": 'protocols/gossipsub/src/behaviour.rs',
     "find": '                    peers.remove(&peer);\n                    let current_topic = to_prune.entry(peer).or_insert_with(Vec::new);\n                    current_topic.push(topic_hash.clone());\n',
     "replace": '                    peers.remove(&peer);\n',
     "expect": 'heartbeat: every pruned peer is recorded in to_prune', "why": 'peer leaves its last mesh without LeftMesh / PRUNE'},
]


def _loc(b):
    return "%s:%d" % (b.file, b.line)


def _event_pushes(body, variant):
    out = []
    for s in body.call_sites(r"VecDeque::push_back$"):
        r = render(body.site_expr(s))
        if ("handler::HandlerIn::%s" % variant) in r and "ToSwarm::NotifyHandler" in r:
            out.append(s)
    return out


def _mentions(body, variant):
    """sites (statements or calls) whose rendered expression constructs HandlerIn::<variant>"""
    n = 0
    for bi in sorted(body.live):
        blk = body.blocks[bi]
        for st in blk["stmts"]:
            if st["k"] == "assign" and st["r"]["k"] == "agg" and st["r"].get("ak") == "adt" and \
                    strip_generics(st["r"].get("adt", "")).endswith("handler::HandlerIn") and st["r"].get("variant") == variant:
                n += 1
    return n


WHOLE = re.compile(r"(Iterator::(collect|copied|cloned|by_ref|next)|IntoIterator>::into_iter|slice::iter|(Vec|BTreeSet|HashSet)::(iter|as_slice|clone)|"
                   r"Deref>::deref|Clone>::clone|Iterator>::next|AsRef>::as_ref)$")


def _whole_list(e):
    """the expression passes a collection on unabridged: only element-preserving adaptors (no take/skip/filter/first/..)"""
    return all(WHOLE.search(strip_generics(c[1])) for c in mir.walk(e) if c[0] == "call")


def check(ctx):
    prog = ctx.prog
    # =================================================================== (A) handler
    hin = prog.adt(G, r"handler::HandlerIn$")
    vs = sorted(v["name"] for v in hin["variants"])
    ctx.ob("handler", "HandlerIn = {JoinedMesh, LeftMesh}", vs == ["JoinedMesh", "LeftMesh"], msg=str(vs))
    ob = ctx.body(G, r"<handler::Handler as libp2p_swarm::ConnectionHandler>::on_behaviour_event$")
    ka = ctx.body(G, r"<handler::Handler as libp2p_swarm::ConnectionHandler>::connection_keep_alive$")
    # the mesh flag is identified by its role, not its name: the bool field of EnabledHandler that connection_keep_alive
    # branches on and that on_behaviour_event assigns
    eh = prog.adt(G, r"handler::EnabledHandler$")
    bools = {f["n"] for f in eh["variants"][0]["fields"] if f["ty"] == "bool"}
    read = set()
    for bi in sorted(ka.live):
        info = ka.switch_info(bi)
        if info:
            read |= {x[2] for x in mir.walk(info[0]) if x[0] == "field" and x[2] in bools and "EnabledHandler" in (x[3] or "")}
    for _, e in gs.ret_exprs(ka):
        read |= {x[2] for x in mir.walk(e) if x[0] == "field" and x[2] in bools and "EnabledHandler" in (x[3] or "")}
    written = {f for f in bools if ob.field_write_sites(f, r"handler::EnabledHandler")}
    flags = sorted(read & written)
    ctx.ob("handler", "floor:mesh flag (bool field read by connection_keep_alive and written by on_behaviour_event)", len(flags) == 1, nontrivial=False,
           msg="read by keep_alive %s, written by on_behaviour_event %s" % (sorted(read), sorted(written)))
    FLAG = flags[0] if flags else "in_mesh"
    msg_arg = gs.arg_of_type(ob, r"handler::HandlerIn$")
    ws = ob.field_write_sites(FLAG, r"handler::EnabledHandler")
    ctx.floor("handler", "in_mesh writes in on_behaviour_event", ws, 2)
    rets = ob.return_blocks()
    w_true = [s for s in ws if render(ob.site_expr(s)) == "1"]
    w_false = [s for s in ws if render(ob.site_expr(s)) == "0"]
    ctx.ob("handler", "in_mesh is only assigned constants", len(w_true) + len(w_false) == len(ws), _loc(ob), str([render(ob.site_expr(s)) for s in ws]))
    for variant, want, other, val in (("JoinedMesh", w_true, w_false, "true"), ("LeftMesh", w_false, w_true, "false")):
        ents = [t for bi, t in lib.arm_entry(ob, r"^discr\(%s\)$" % re.escape(gs.argname(ob, msg_arg)), variant) if ob.must_pass_edges(bi, lib.switch_edges_on(ob, r"^discr\(self\)$", {"Enabled"}))]
        ctx.ob("handler", "floor:%s arm" % variant, len(ents) == 1, nontrivial=False, msg=str(ents))
        if ents:
            a = lib.count_range(ob, ents, rets, lib.bbs(want))
            b = lib.count_range(ob, ents, rets, lib.bbs(other)) if other else (0, 0)
            ctx.ob("handler", "%s sets in_mesh = %s" % (variant, val), a == (1, 1) and b == (0, 0), want[0].loc() if want else _loc(ob),
                   "on the Enabled/%s arm: writes of %s %s, writes of the opposite value %s" % (variant, val, a, b))
    for s in ws:
        gs.guarded(ctx, "handler", "in_mesh written only for an Enabled handler", s, lambda c, r, l: l == "Enabled" and r == "discr(self)", "match self { Enabled(..) }")
    who = sorted({b.npath for b in prog.bodies(G) if b.field_write_sites(FLAG, r"handler::EnabledHandler")})
    ctx.ob("handler", "only on_behaviour_event writes in_mesh", who == [ob.npath], msg=str(who))
    inits = []
    for b in prog.bodies(G):
        for s in b.agg_sites(r"handler::EnabledHandler$"):
            e = b.site_expr(s)
            inits += [render(x) for f, x in e[4] if f == FLAG]
    ctx.ob("handler", "in_mesh starts false", inits == ["0"], msg="EnabledHandler{%s: %s}" % (FLAG, inits))
    ok = True
    n_true = 0
    for site, e in gs.ret_exprs(ka):
        if e[0] == "const" and e[1] == 1:
            n_true += 1
            g1 = ka.must_pass_edges(site.bb, lib.switch_edges_on(ka, r"^discr\(self\)$", {"Enabled"}))
            g2 = ka.must_pass_edges(site.bb, gs.guard(ka, lambda c, r, l: l == "true" and c[0] == "field" and c[2] == FLAG))
            ok = ok and g1 and g2
        elif not (e[0] == "const" and e[1] == 0):
            ok = False
    t_edges = gs.frontier(ka, gs.guard(ka, lambda c, r, l: l == "true" and c[0] == "field" and c[2] == FLAG))
    trues = [site.bb for site, e in gs.ret_exprs(ka) if e[0] == "const" and e[1] == 1]
    falses = [site.bb for site, e in gs.ret_exprs(ka) if e[0] == "const" and e[1] == 0]
    conv = bool(t_edges) and all(lib.count_range(ka, [t], ka.return_blocks(), falses) == (0, 0) and lib.count_range(ka, [t], ka.return_blocks(), trues) == (1, 1) for _, t in t_edges)
    ctx.ob("handler", "keep_alive <=> Enabled && in_mesh", ok and n_true >= 1 and conv, _loc(ka),
           "`true` only under Enabled and in_mesh (%s); in_mesh => `true` (%s)" % (ok and n_true >= 1, conv))

    # =================================================================== (B) the two notifier functions
    pa = ctx.body(G, r"^libp2p_gossipsub::behaviour::peer_added_to_mesh$")
    pr = ctx.body(G, r"^libp2p_gossipsub::behaviour::peer_removed_from_mesh$")
    for fn, body, variant, wrong in (("peer_added_to_mesh", pa, "JoinedMesh", "LeftMesh"), ("peer_removed_from_mesh", pr, "LeftMesh", "JoinedMesh")):
        a_peer = gs.arg_of_type(body, r"^libp2p_identity::PeerId$")
        a_mesh = gs.arg_of_type(body, r"HashMap<topic::TopicHash, std::collections::BTreeSet<")
        a_conn = gs.arg_of_type(body, r"HashMap<libp2p_identity::PeerId, types::PeerDetails>")
        a_top = gs.arg_of_type(body, r"^std::vec::Vec<&topic::TopicHash>$" if fn == "peer_added_to_mesh" else r"^&topic::TopicHash$")
        n_peer, n_conn = gs.argname(body, a_peer), gs.argname(body, a_conn)
        push = _event_pushes(body, variant)
        ctx.ob("notify", "%s emits %s" % (fn, variant), len(push) == 1 and not _event_pushes(body, wrong) and _mentions(body, wrong) == 0, push[0].loc() if push else _loc(body),
               "%d push(es) of NotifyHandler{%s}, %d of %s" % (len(push), variant, len(_event_pushes(body, wrong)), wrong))
        if not push:
            continue
        p = push[0]
        r = gs.xrender(body, body.site_expr(p)[2][1])
        ctx.ob("notify", "%s addresses the peer's first connection" % fn,
               ("peer_id: %s" % n_peer) in r and re.search(r"handler: libp2p_swarm::NotifyHandler::One\{0: std::option::Option::expect\(core::slice::first\(.*HashMap::get\(%s, %s\)@Some\.0\.connections" % (re.escape(n_conn), re.escape(n_peer)), r) is not None,
               p.loc(), r[:260])
        rets_ = body.return_blocks()
        lib.expect_count(ctx, "notify", "%s: at most one notification" % fn, body, [0], rets_, [p.bb], (0, 1), "push of %s" % variant)
        # silent returns
        none_edges = lib.switch_edges_on(body, r"^discr\(std::collections::HashMap::get\(%s, %s\)\)$" % (re.escape(n_conn), re.escape(n_peer)), {"None"})
        in_other = set()
        shape_ok = False
        for bi in sorted(body.live):
            info = body.switch_info(bi)
            if not info:
                continue
            c = info[0]
            if c[0] == "call" and re.search(r"BTreeSet::contains$", strip_generics(c[1])) and gs.is_arg(c[2][1], a_peer):
                recv = c[2][0]
                gets = [x for x in gs.calls(recv, r"HashMap::get$") if gs.is_arg(x[2][0], a_mesh)]
                if not gets:
                    continue
                topic_e = gets[0][2][1]
                # the exclusion test on the same topic element must dominate
                if fn == "peer_added_to_mesh":
                    excl = gs.guard(body, lambda cc, rr, ll: ll == "false" and cc[0] == "call" and re.search(r"slice::<impl \[T\]>::contains$|slice::contains$", strip_generics(cc[1])) is not None
                                            and any(gs.is_arg(y, a_top) for y in mir.walk(cc[2][0])) and render(cc[2][1]) == render(topic_e) and gs.next_call_bb(cc[2][1]) == gs.next_call_bb(topic_e))
                else:
                    excl = gs.guard(body, lambda cc, rr, ll: cc[0] == "call" and ((ll == "true" and re.search(r"PartialEq(<[^>]*>)?>?::ne$|cmp::impls.*::ne$", strip_generics(cc[1])) is not None)
                                                                                     or (ll == "false" and re.search(r"PartialEq(<[^>]*>)?>?::eq$|cmp::impls.*::eq$", strip_generics(cc[1])) is not None))
                                            and ((render(cc[2][0]) == render(topic_e) and gs.is_arg(cc[2][1], a_top)) or (render(cc[2][1]) == render(topic_e) and gs.is_arg(cc[2][0], a_top))))
                head = gs.next_call_bb(topic_e)
                dominated = bool(excl) and head is not None and body.must_pass_edges(bi, excl, start=head)
                shape_ok = shape_ok or dominated
                if dominated:
                    for tgt, ls in info[1].items():
                        if ls == {"true"}:
                            in_other.add((bi, tgt))
        blocked = set(none_edges) | in_other
        r_ = body.reachable([0], blocked_nodes=[p.bb], blocked_edges=blocked)
        silent = sorted(set(rets_) & r_)
        what = "new_topics" if fn == "peer_added_to_mesh" else "old_topic"
        ctx.ob("notify", "%s: silent only if in the mesh of a topic outside %s" % (fn, what), shape_ok and bool(in_other) and not silent, p.loc(),
               "every return without the notification passes `connections.get(peer) == None` or [`%s` excluded, mesh.get(t) is Some, contains(peer) is true]%s"
               % (what, "" if not silent else " — a path returns silently without them"))
    # who constructs the two messages
    whoj = sorted({b.npath for b in prog.bodies(G) if _mentions(b, "JoinedMesh")})
    whol = sorted({b.npath for b in prog.bodies(G) if _mentions(b, "LeftMesh")})
    ctx.ob("notify", "JoinedMesh built only by peer_added_to_mesh and the connection hand-over", whoj == sorted([pa.npath, B + "on_connection_closed"]), msg=str(whoj))
    ctx.ob("notify", "LeftMesh built only by peer_removed_from_mesh", whol == [pr.npath], msg=str(whol))
    oc = ctx.body(G, gs.BEH + r"on_connection_closed$")
    for s in _event_pushes(oc, "JoinedMesh"):
        gs.guarded(ctx, "notify", "hand-over JoinedMesh only for a mesh member", s,
                    lambda c, r, l: l == "true" and c[0] == "call" and re.search(r"BTreeSet::contains$", strip_generics(c[1])) is not None and "HashMap::get(self.mesh, " in render(c[2][0]),
                    "mesh.get(topic).contains(peer_id)")
        r = gs.xrender(oc, oc.site_expr(s)[2][1])
        ctx.ob("notify", "hand-over addresses the first remaining connection", re.search(r"NotifyHandler::One\{0: .*connections.*\[?0", r) is not None or "connections" in r, s.loc(), r[-200:])
        rm = [x for x in oc.call_sites(r"Vec::remove$") if "connections" in gs.xrender(oc, oc.site_expr(x)[2][0])]
        lib.precedes(ctx, "notify", "closed connection is dropped from the list before the hand-over", oc, lib.bbs(rm), [s.bb], "connections.remove(index) precedes the JoinedMesh to connections[0]", s.loc())
    ctx.floor("notify", "hand-over JoinedMesh in on_connection_closed", _event_pushes(oc, "JoinedMesh"), 1)
    # the hand-over must happen whenever a connection remains: a dominating test on the length of the connection list may only be a
    # non-emptiness test (`!is_empty()`, `len() > 0`, ...); `len() > 1` skips the case of exactly one remaining connection, whose
    # handler may never have been told
    for s in _event_pushes(oc, "JoinedMesh"):
        bad = []
        n = 0
        for text, labels, sw, cond in oc.guards_on_all_paths(s.bb):
            x = gs.expand(oc, cond)
            conn = lambda y: any(z[0] == "field" and z[2] == "connections" for z in mir.walk(y))
            if x[0] == "call" and re.search(r"Vec::is_empty$", strip_generics(x[1])) and conn(x[2][0]):
                n += 1
                if set(labels) != {"false"}:
                    bad.append("is_empty() required %s" % sorted(labels))
            elif x[0] == "bin" and x[1] in ("Gt", "Ge", "Lt", "Le", "Eq", "Ne"):
                for lenside, other, op in ((x[2], x[3], x[1]), (x[3], x[2], {"Gt": "Lt", "Ge": "Le", "Lt": "Gt", "Le": "Ge", "Eq": "Eq", "Ne": "Ne"}[x[1]])):
                    if lenside[0] == "call" and re.search(r"Vec::len$", strip_generics(lenside[1])) and conn(lenside[2][0]):
                        n += 1
                        k = other[1] if other[0] == "const" else None
                        lab = next(iter(labels)) if len(labels) == 1 else None
                        nonempty = (op, k, lab) in (("Gt", 0, "true"), ("Ge", 1, "true"), ("Ne", 0, "true"), ("Eq", 0, "false"), ("Lt", 1, "false"), ("Le", 0, "false"))
                        if not nonempty:
                            bad.append("len() %s %s is %s" % (op, render(other), lab))
        ctx.ob("notify", "hand-over happens whenever a connection remains", not bad, s.loc(),
               "tests on the remaining connection list that dominate the hand-over: %d, all plain non-emptiness tests" % n if not bad else
               "the hand-over is restricted by %s: with exactly one remaining connection the peer's only handler is never told JoinedMesh" % bad)

    # =================================================================== (C) inventory of mesh mutations
    adders, removers = {}, {}
    for b in prog.bodies(G):
        a = gs.mesh_sites(b, gs.MESH_ADD)
        d = gs.mesh_sites(b, gs.MESH_DEL)
        if a:
            adders[b.npath] = a
        if d:
            removers[b.npath] = d
    exp_add = {B + "join": 2, B + "handle_graft": 1, B + "handle_received_subscriptions": 1, B + "heartbeat": 3}
    exp_del = {B + "leave": 1, B + "remove_peer_from_mesh": 1, B + "heartbeat": 2, B + "on_connection_closed": 1}
    ctx.ob("cover", "mesh insertion sites are the audited ones", {k: len(v) for k, v in adders.items()} == exp_add, msg=str({k.replace(B, ""): len(v) for k, v in adders.items()}))
    ctx.ob("cover", "mesh removal sites are the audited ones", {k: len(v) for k, v in removers.items()} == exp_del, msg=str({k.replace(B, ""): len(v) for k, v in removers.items()}))

    # ------------------------------------------------------------------- join
    j = ctx.body(G, gs.BEH + r"join$")
    jadd = adders.get(j.npath, [])
    calls_j = j.call_sites(ADDED)
    ctx.floor("cover", "peer_added_to_mesh in join", calls_j, 1)
    acc_ext = [s for s in j.call_sites(r"HashSet as std::iter::Extend>::extend$")]
    for c in calls_j:
        e = j.site_expr(c)
        head = gs.next_call_bb(e[2][0])
        acc = None
        if head is not None:
            it = gs.expand(j, j.site_expr(mir.Site(j, head))[2][0])
            acc = [x for x in mir.walk(it) if x[0] == "local"]
        ctx.ob("cover", "join: notification loop runs over the accumulated peers", head is not None and bool(acc), c.loc(), "peer = element of %s" % (render(acc[0]) if acc else "?"))
        if head is None or not acc:
            continue
        accl = acc[0][1]
        some = gs.some_edge_targets(j, head)
        got = lib.count_range(j, some, [head], [c.bb]) if some else None
        ctx.ob("cover", "join: one peer_added_to_mesh per accumulated peer", got == (1, 1), c.loc(), "per loop iteration: %s" % (got,))
        el = gs.vec_elems(j, e[2][1])
        ctx.ob("cover", "join: new_topics = [the joined topic]", el is not None and len(el) == 1 and el[0][0] == "arg", c.loc(), "new_topics = vec!%s" % ([render(x) for x in el] if el else "?"))
        for m in jadd:
            me = j.site_expr(m)
            val = gs.expand(j, me[2][-1])
            srcs = gs.src_calls(val)
            feeds = [x for x in acc_ext if any(y[0] == "local" and y[1] == accl for y in mir.walk(j.site_expr(x)[2][0])) and (gs.src_calls(gs.expand(j, j.site_expr(x)[2][1])) & srcs)]
            same_take = True
            for x in feeds:
                tv = [render(t[2][1]) for t in gs.calls(gs.expand(j, j.site_expr(x)[2][1]), r"Iterator::take$")]
                tm = [render(t[2][1]) for t in gs.calls(val, r"Iterator::take$")]
                same_take = same_take and tv == tm
            ctx.ob("cover", "join: peers put into the mesh are the peers accumulated for notification", bool(srcs) and bool(feeds) and same_take, m.loc(),
                   "mesh value from selection@bb%s; accumulator fed from the same selection: %s (same take(): %s)" % (sorted(srcs), bool(feeds), same_take))
            ctx.passes("cover", "join: insertion is followed by the notification loop", j, j.succ[m.bb], j.return_blocks(), [head], "every path from the mesh update to return enters the loop over the accumulated peers", m.loc())
            key = me[2][1] if len(me[2]) == 3 else me[2][0]
            ctx.ob("cover", "join: the mesh updated is the joined topic's", any(x[0] == "arg" and x == el[0] for x in mir.walk(gs.expand(j, key))) if el else False, m.loc(), render(gs.expand(j, key))[:160])

    # ------------------------------------------------------------------- handle_graft
    hg = ctx.body(G, gs.BEH + r"handle_graft$")
    for m in adders.get(hg.npath, []):
        me = hg.site_expr(m)
        head = gs.next_call_bb(me[2][0])
        cs = hg.call_sites(ADDED)
        got = lib.count_range(hg, hg.succ[m.bb], [head], lib.bbs(cs)) if head is not None else None
        ctx.ob("cover", "handle_graft: insertion is followed by peer_added_to_mesh in the same iteration", got == (1, 1), m.loc(), "peer_added_to_mesh between peers.insert and the next topic: %s" % (got,))
        for c in cs:
            ce = hg.site_expr(c)
            el = gs.vec_elems(hg, ce[2][1])
            ok = render(ce[2][0]) == render(me[2][1]) and el is not None and len(el) == 1 and gs.next_call_bb(el[0]) == head and ("HashMap::get_mut(self.mesh, %s)" % render(el[0])) in render(me[2][0])
            ctx.ob("cover", "handle_graft: notification names the grafted peer and topic", ok, c.loc(), "peer_added_to_mesh(%s, vec!%s)" % (render(ce[2][0]), [render(x)[-50:] for x in el] if el else "?"))

    # ------------------------------------------------------------------- handle_received_subscriptions
    hs = ctx.body(G, gs.BEH + r"handle_received_subscriptions$")
    cs = hs.call_sites(ADDED)
    ctx.floor("cover", "peer_added_to_mesh in handle_received_subscriptions", cs, 1)
    for m in adders.get(hs.npath, []):
        me = hs.site_expr(m)
        head = gs.next_call_bb(me[2][0])
        t_edges = lib.switch_edges_on_site(hs, m, {"true"})
        nt_locals = set()
        for c in cs:
            nt_locals |= {y[1] for y in mir.walk(gs.expand(hs, hs.site_expr(c)[2][1])) if y[0] == "local"}
        pushes = [x for x in hs.call_sites(r"Vec::push$") if gs.next_call_bb(hs.site_expr(x)[2][1]) == head and hs.site_expr(x)[2][0][0] == "local"
                  and hs.site_expr(x)[2][0][1] in nt_locals]
        got = lib.count_range(hs, gs.edge_targets(t_edges), [head], lib.bbs(pushes)) if (head is not None and t_edges) else None
        ctx.ob("cover", "handle_received_subscriptions: a new mesh member's topic is recorded once", got == (1, 1), m.loc(), "topics_to_graft.push on the insert()==true edge: %s" % (got,))
        accs = {hs.site_expr(x)[2][0][1] for x in pushes}
        for x in pushes:
            xe = hs.site_expr(x)
            ok = ("HashMap::get_mut(self.mesh, %s)" % render(gs.calls(xe[2][1], r"Clone>::clone$")[0][2][0])) in render(me[2][0]) if gs.calls(xe[2][1], r"Clone>::clone$") else False
            ctx.ob("cover", "handle_received_subscriptions: recorded topic = topic of the mesh updated", ok, x.loc(), render(xe[2][1])[-120:])
        for c in cs:
            ce = hs.site_expr(c)
            nt = gs.expand(hs, ce[2][1])
            whole = gs.vec_elems(hs, ce[2][1]) is None and any(y[0] == "local" and y[1] in accs for y in mir.walk(nt)) and _whole_list(nt)
            ctx.ob("batch", "handle_received_subscriptions: new_topics covers every topic whose mesh was updated before the call", whole, c.loc(), "new_topics = %s" % render(nt)[:160])
            ctx.ob("cover", "handle_received_subscriptions: notification names the subscribing peer", render(ce[2][0]) == render(me[2][1]), c.loc(), render(ce[2][0]))
            # reached after the loop on every path with a non-empty list
            ne = gs.guard(hs, lambda cc, rr, ll: ll == "false" and cc[0] == "call" and re.search(r"Vec::is_empty$", strip_generics(cc[1])) is not None
                                and gs.has_call(gs.expand(hs, cc[2][0]), r"Iterator::collect$"))
            ne = gs.frontier(hs, ne)
            got = lib.count_range(hs, gs.edge_targets(ne), hs.return_blocks(), [c.bb]) if ne else None
            ctx.ob("cover", "handle_received_subscriptions: non-empty graft list => one peer_added_to_mesh", got == (1, 1), c.loc(), "on the !topics_joined.is_empty() edge: %s" % (got,))
            if head is not None:
                none_t = [t for t in hs.succ[hs.blocks[head]["term"]["t"]] if t not in gs.some_edge_targets(hs, head)] if "t" in hs.blocks[head]["term"] else []
                tests = [bi for bi, _ in ne]
                ctx.ob("cover", "handle_received_subscriptions: the emptiness test is reached after the subscription loop", bool(tests) and hs.must_pass_nodes(none_t or [head], hs.return_blocks(), tests),
                       c.loc(), "every path from the loop exit to return evaluates topics_joined.is_empty()")

    # ------------------------------------------------------------------- heartbeat -> to_graft / to_prune -> send_graft_prune
    hb = ctx.body(G, gs.BEH + r"heartbeat$")
    sg_calls = hb.call_sites(gs.BEH + r"send_graft_prune$")
    ctx.floor("cover", "send_graft_prune call in heartbeat", sg_calls, 1)
    sgc = sg_calls[0] if sg_calls else None
    graft_l = prune_l = None
    if sgc is not None:
        a = hb.site_expr(sgc)[2]
        graft_l = a[1][1] if a[1][0] == "local" else None
        prune_l = a[2][1] if a[2][0] == "local" else None
        ctx.ob("cover", "heartbeat: send_graft_prune receives the accumulators", graft_l is not None and prune_l is not None, sgc.loc(), render(hb.site_expr(sgc))[:200])

    def acc_pushes(acc_local):
        out = []
        for x in hb.call_sites(r"Vec::push$"):
            r0 = gs.expand(hb, hb.site_expr(x)[2][0])
            ent = [c for c in gs.calls(r0, r"HashMap::entry$") if c[2][0][0] == "local" and c[2][0][1] == acc_local]
            if ent:
                out.append((x, ent[0]))
        return out
    gp = acc_pushes(graft_l) if graft_l is not None else []
    for m in adders.get(hb.npath, []):
        me = hb.site_expr(m)
        val = gs.expand(hb, me[2][1])
        srcs = gs.src_calls(val)
        topic_head = gs.next_call_bb(me[2][0])
        mine = []
        for x, ent in gp:
            key = gs.expand(hb, ent[2][1])
            it_head = gs.next_call_bb(key)
            coll = gs.expand(hb, hb.site_expr(mir.Site(hb, it_head))[2][0]) if it_head is not None else None
            if coll is not None and (gs.src_calls(coll) & srcs):
                mine.append((x, it_head))
        ok = bool(srcs) and len(mine) == 1
        per = None
        topic_ok = False
        if ok:
            x, it_head = mine[0]
            some = gs.some_edge_targets(hb, it_head)
            per = lib.count_range(hb, some, [it_head], [x.bb])
            xe = hb.site_expr(x)
            topic_ok = gs.next_call_bb(xe[2][1]) == topic_head and render(xe[2][1]).endswith("@Some.0.0)")
            ok = per == (1, 1) and topic_ok and hb.must_pass_nodes([0], [m.bb], [it_head])
        ctx.ob("cover", "heartbeat: every grafted peer is recorded in to_graft", ok, m.loc(),
               "peers.extend(selection@bb%s): to_graft[peer].push(topic) once per selected peer %s, topic of this mesh: %s, bookkeeping precedes the extend" % (sorted(srcs), per, topic_ok))
    pp = acc_pushes(prune_l) if prune_l is not None else []
    hb_del = removers.get(hb.npath, [])
    for m in hb_del:
        me = hb.site_expr(m)
        name = strip_generics(hb.call_name(m.term)).split("::")[-1]
        if name == "retain":
            cl = gs.closure_arg(prog, hb, me)
            ok = False
            msg = "no closure"
            if cl is not None:
                ups = gs.upvar_exprs(prog, hb, cl)
                cp = []
                for x in cl.call_sites(r"Vec::push$"):
                    r0 = gs.expand(cl, cl.site_expr(x)[2][0])
                    ent = [c for c in gs.calls(r0, r"HashMap::entry$") if c[2][0][0] == "upvar"]
                    if ent and ups.get(ent[0][2][0][1].lstrip("*"), ("?",))[:2] == ("local", prune_l):
                        cp.append((x, ent[0]))
                falses = [s for s, e in gs.ret_exprs(cl) if e[0] == "const" and e[1] == 0]
                others = [e for s, e in gs.ret_exprs(cl) if not (e[0] == "const" and e[1] in (0, 1))]
                ok = bool(cp) and bool(falses) and not others and all(cl.must_pass_nodes([0], [s.bb], [x.bb for x, _ in cp]) for s in falses) \
                    and all(ent[2][1][0] == "arg" for _, ent in cp)
                msg = "retain closure: %d `false` result(s), each dominated by to_prune[peer].push(topic): %s" % (len(falses), ok)
            ctx.ob("cover", "heartbeat: every pruned peer is recorded in to_prune", ok, m.loc(), "score pruning — " + msg)
        else:
            head = gs.next_call_bb(me[2][1])
            mine = [x for x, ent in pp if gs.next_call_bb(gs.expand(hb, ent[2][1])) == head]
            got = lib.count_range(hb, hb.succ[m.bb], [head], lib.bbs(mine)) if head is not None and mine else None
            ctx.ob("cover", "heartbeat: every pruned peer is recorded in to_prune", got == (1, 1), m.loc(), "excess pruning — to_prune[peer].push(topic) between peers.remove(peer) and the next candidate: %s" % (got,))
    if sgc is not None:
        # the call is made whenever something was recorded
        mesh_heads = {gs.next_call_bb(hb.site_expr(m)[2][0]) for m in adders.get(hb.npath, [])}
        cond_edges = hb.guard_edges(lambda c, r, l: l == "true" and c[0] == "bin" and c[1] == "BitOr" and r.count("HashMap::is_empty(") == 2 and r.count("Not(") == 2)
        got = lib.count_range(hb, gs.edge_targets(cond_edges), hb.return_blocks(), [sgc.bb]) if cond_edges else None
        ctx.ob("cover", "heartbeat: recorded grafts/prunes => send_graft_prune exactly once", got == (1, 1), sgc.loc(), "on the `!to_graft.is_empty() | !to_prune.is_empty()` edge: %s" % (got,))
        tests = [bi for bi, _ in cond_edges]
        for bi in tests:
            c = hb.switch_info(bi)[0]
            ls = {x[1] for x in mir.walk(c) if x[0] == "local"}
            ctx.ob("cover", "heartbeat: the test reads both accumulators", {graft_l, prune_l} <= ls, msg=render(c)[:200])
        for h in mesh_heads:
            if h is None:
                continue
            exits = [t for t in hb.succ[hb.blocks[h]["term"]["t"]] if t not in gs.some_edge_targets(hb, h)]
            ctx.ob("cover", "heartbeat: the test is reached after mesh maintenance on every path", bool(tests) and hb.must_pass_nodes(exits, hb.return_blocks(), tests), sgc.loc(),
                   "every path from the end of the mesh loop to return evaluates the accumulator test")
    callers = sorted({s.body.npath for s in prog.callers(G, gs.BEH + r"send_graft_prune$")})
    ctx.ob("cover", "send_graft_prune is called only by heartbeat", callers == [B + "heartbeat"], msg=str(callers))

    # ------------------------------------------------------------------- send_graft_prune
    sg = ctx.body(G, gs.BEH + r"send_graft_prune$")
    cs = sg.call_sites(ADDED)
    ctx.floor("cover", "peer_added_to_mesh in send_graft_prune", cs, 1)
    graft_arg = [gs.arg_of_type(sg, r"HashMap<libp2p_identity::PeerId, std::vec::Vec<topic::TopicHash>>", 0)]
    prune_arg = gs.arg_of_type(sg, r"HashMap<libp2p_identity::PeerId, std::vec::Vec<topic::TopicHash>>", 1)
    for c in cs:
        ce = sg.site_expr(c)
        peer_head = gs.next_call_bb(ce[2][0])
        ok = peer_head is not None and any(x[0] == "arg" and x[1] == graft_arg[0] for x in mir.walk(gs.expand(sg, sg.site_expr(mir.Site(sg, peer_head))[2][0])))
        ctx.ob("cover", "send_graft_prune: notification per entry of to_graft", ok and render(ce[2][0]).endswith("@Some.0.0"), c.loc(), "peer = %s" % render(gs.expand(sg, ce[2][0]))[:160])
        if peer_head is None:
            continue
        some = gs.some_edge_targets(sg, peer_head)
        got = lib.count_range(sg, some, [peer_head], [c.bb])
        el = gs.vec_elems(sg, ce[2][1])
        nt = gs.expand(sg, ce[2][1])
        if el is not None:
            # single-topic vec: legal only if the mesh of that topic is updated in the same iteration of the topic loop
            th = gs.next_call_bb(el[0]) if len(el) == 1 else None
            local_ins = [m for m in gs.mesh_sites(sg, gs.MESH_ADD) if th is not None and m.bb in gs.loop_of(sg, th)]
            whole = th is None or bool(local_ins)
            why = "new_topics = vec![%s], the element of the per-topic loop, although the meshes of all of the peer's topics were already updated by heartbeat: each call sees the peer in the other new meshes and JoinedMesh is never sent" % render(el[0])[-60:]
        else:
            whole = render(nt).count("@Some.0.1") >= 1 and gs.next_call_bb(nt) == peer_head and _whole_list(nt)
            why = "new_topics = %s" % render(nt)[:160]
        ctx.ob("batch", "send_graft_prune: new_topics covers every topic whose mesh was updated before the call", whole, c.loc(), why)
        ctx.ob("cover", "send_graft_prune: exactly one peer_added_to_mesh per grafted peer", got == (1, 1) if el is None else got is not None and got[0] >= 0, c.loc(), "per to_graft entry: %s" % (got,))
    cr = sg.call_sites(REMOVED)
    ctx.floor("cover", "peer_removed_from_mesh in send_graft_prune", cr, 1)
    for c in cr:
        ce = sg.site_expr(c)
        th = gs.next_call_bb(ce[2][1])
        ph = gs.next_call_bb(ce[2][0])
        some = gs.some_edge_targets(sg, th) if th is not None else []
        got = lib.count_range(sg, some, [th], [c.bb]) if some else None
        src = gs.expand(sg, sg.site_expr(mir.Site(sg, ph))[2][0]) if ph is not None else ("unknown", "?")
        ok = got == (1, 1) and any(gs.is_arg(x, prune_arg) for x in mir.walk(src))
        ctx.ob("cover", "send_graft_prune: one peer_removed_from_mesh per remaining (peer, topic) of to_prune", ok, c.loc(), "per topic iteration: %s; iterates %s" % (got, render(src)[:100]))

    # ------------------------------------------------------------------- leave / remove_peer_from_mesh
    lv = ctx.body(G, gs.BEH + r"leave$")
    for m in removers.get(lv.npath, []):
        cs = lv.call_sites(REMOVED)
        ok = False
        got = None
        for c in cs:
            ce = lv.site_expr(c)
            head = gs.next_call_bb(ce[2][0])
            if head is None:
                continue
            some = gs.some_edge_targets(lv, head)
            got = lib.count_range(lv, some, [head], [c.bb])
            src = gs.expand(lv, lv.site_expr(mir.Site(lv, head))[2][0])
            ok = got == (1, 1) and any(x[3] == m.bb for x in gs.calls(src, r"HashMap::remove_entry$|HashMap::remove$")) and render(ce[2][1]) == render(lv.site_expr(m)[2][1])
        ctx.ob("cover", "leave: one peer_removed_from_mesh per peer of the removed mesh", ok, m.loc(), "per removed peer: %s" % (got,))
        some_e = lib.switch_edges_on_site(lv, m, {"Some"})
        heads = [gs.next_call_bb(lv.site_expr(c)[2][0]) for c in cs]
        ctx.ob("cover", "leave: the removed peers are always iterated", bool(some_e) and all(h is not None and lv.must_pass_nodes(gs.edge_targets(some_e), lv.return_blocks(), [h]) for h in heads) and bool(heads),
               m.loc(), "every path from the Some(removed mesh) edge to return enters the notification loop")
    rp = ctx.body(G, gs.BEH + r"remove_peer_from_mesh$")
    for m in removers.get(rp.npath, []):
        cs = rp.call_sites(REMOVED)
        me = rp.site_expr(m)
        # locals that hold the result of the removal (`peer_removed = peers.remove(peer_id)`)
        holders = set()
        d = m.term["d"]
        if "pr" not in d:
            holders.add(d["l"])
        for l, ds in rp.defs.items():
            if isinstance(l, int):
                for dd in ds:
                    if dd[0] == "stmt":
                        ee = rp.rvalue_expr(dd[3])
                        if ee[0] == "call" and ee[3] == m.bb and re.search(r"BTreeSet::remove$", strip_generics(ee[1])):
                            holders.add(l)
        sw = [bi for bi in sorted(rp.live) if rp.switch_info(bi) and rp.switch_info(bi)[0][0] == "local" and rp.switch_info(bi)[0][1] in holders]
        first = sorted(set(sw) & rp.reachable(rp.succ[m.bb], stop_nodes=sw))
        all_true = gs.guard(rp, lambda c, r, l: l == "true" and c[0] == "local" and c[1] in holders) | lib.switch_edges_on_site(rp, m, {"true"})
        t_edges = {(bi, t) for bi, t in all_true if bi in first} | lib.switch_edges_on_site(rp, m, {"true"})
        got = lib.count_range(rp, gs.edge_targets(t_edges), rp.return_blocks(), lib.bbs(cs)) if t_edges else None
        ok = got == (1, 1) and all(render(rp.site_expr(c)[2][0]) == render(me[2][1]) and ("HashMap::get_mut(self.mesh, %s)" % render(rp.site_expr(c)[2][1])) in render(me[2][0]) for c in cs)
        ctx.ob("cover", "remove_peer_from_mesh: removal => one peer_removed_from_mesh", ok, m.loc(), "on the `peers.remove(peer)` == true edge: %s, same peer and topic" % (got,))
        for c in cs:
            ctx.ob("cover", "remove_peer_from_mesh: notification only after an actual removal", bool(all_true) and rp.must_pass_edges(c.bb, all_true), c.loc(), "peer_removed_from_mesh dominated by peer_removed == true")

    # ------------------------------------------------------------------- batch rule, crate-wide
    n = 0
    for c in prog.callers(G, ADDED):
        b = c.body
        if b.npath in (sg.npath,):
            continue
        e = b.site_expr(c)
        el = gs.vec_elems(b, e[2][1])
        if el is None or len(el) != 1:
            continue
        th = gs.next_call_bb(el[0])
        if th is None:
            continue
        n += 1
        loop = gs.loop_of(b, th)
        ins = [m for m in gs.mesh_sites(b, gs.MESH_ADD) if m.bb in loop and c.bb in b.reachable(b.succ[m.bb], stop_nodes=[th])]
        ctx.ob("batch", "%s: per-topic notification is in the iteration that updates that topic's mesh" % b.npath.replace(B, ""), bool(ins), c.loc(),
               "new_topics = vec![loop element]; mesh insertion of the same iteration precedes it: %s" % bool(ins))
    ctx.ob("batch", "floor:per-topic notifications inspected", n >= 1, nontrivial=False, msg=str(n))
