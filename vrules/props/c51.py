"""C51 rendezvous registrations obey TTL, limits and refresh semantics — guards (K1), strict limits (K9), refresh rule (K1), supersede pairing (K2/K3), closure tables (K7), origin (K5), encode/decode agreement (K11)."""
import re

from .. import lib, mir
from .. import lib_proto as P
from ..mir import strip_generics

EXPLANATION = ("Registrations::add: every continuation past the TTL test has min_ttl <= effective_ttl <= max_ttl (Err(InvalidTtl) on the other edges) "
               "and stores / schedules exactly that ttl; the only registrations_for_peer.insert is dominated, for each of the two limits, by "
               "the strict `count >= limit` false edge or by the edge proving that the inserted (peer, namespace) key is already registered "
               "(a refresh adds nothing); Err(Unavailable) is reachable only on the not-a-refresh edge of that same key; before the key is "
               "overwritten the superseded id is taken with remove_by_left(key) and removed from `registrations` on every path; the id "
               "stored in both maps and returned by the expiry timer is the same fresh id; Err paths store nothing. remove / poll(expiry) "
               "drop the id from both maps; an ExpiredRegistration is emitted only for an id that was still stored. get: ids are produced "
               "by a filter over registrations_for_peer that rejects ids contained in the cookie's set and, for a namespaced discover, other "
               "namespaces; at most `limit` ids; the new cookie's set = old set + returned ids and is stored under the returned cookie; a "
               "cookie of another namespace is refused. Cookie wire encoding: 8 big-endian id bytes followed by the namespace, decoded by "
               "the inverse steps.")
ASSUMPTIONS = ["bimap::BiHashMap / hashlink::LruCache semantics (BiHashMap::insert overwrites an existing left key)", "random 64-bit registration ids and cookie ids do not collide",
               "timer accuracy of futures_timer::Delay; LRU eviction of cookies (an evicted cookie restarts pagination) is not analysed",
               "the model comparison over arbitrary histories is not performed; only the per-operation update rules are decided"]
RZ = "libp2p_rendezvous"
R = r"^libp2p_rendezvous::server::Registrations::"
RADT = r"^libp2p_rendezvous::server::Registrations$"
CADT = r"^libp2p_rendezvous::codec::Cookie$"

SELFTEST = [
    {"mutation": "total limit `>` (the tree before the F14 fix 1cf5901)", "caught_by": "add/total limit is strict (or refresh)"},
    {"mutation": "no refresh test before Err(Unavailable) (the tree before the F14 fix) / `(is_refresh || !is_refresh) &&`", "caught_by": "add/Unavailable only for a new (peer, namespace)"},
    {"mutation": "superseded id not removed from `registrations` (the tree before the F14 fix) / `let _ = superseded`", "caught_by": "add/superseded registration is dropped before the key is overwritten"},
    {"mutation": "seeded/C51: TTL bounds applied only to an explicit `new_registration.ttl`, the stored ttl is effective_ttl()", "caught_by": "add/ttl within [min_ttl, max_ttl]"},
    {"mutation": "`ttl >= max_ttl` rejects max_ttl", "caught_by": "add/ttl within [min_ttl, max_ttl]"},
    {"mutation": "`ttl < min_ttl` test deleted", "caught_by": "add/ttl within [min_ttl, max_ttl]"},
    {"mutation": "per-peer limit `>`", "caught_by": "add/per-peer limit is strict (or refresh)"},
    {"mutation": "expiry timer uses max_ttl instead of the registration's ttl", "caught_by": "add/expiry is scheduled after exactly ttl seconds"},
    {"mutation": "get: cookie filter disabled (`if false && ..contains(id)`)", "caught_by": "get/ids already in the cookie are skipped"},
    {"mutation": "get: namespace arm `Some(_) => Some(registration_id)`", "caught_by": "get/a namespaced discover returns only that namespace"},
    {"mutation": "get: reggos_of_last_discover.extend(&ids) removed", "caught_by": "get/new cookie remembers old and new ids"},
    {"mutation": "poll: remove_by_right removed (expired registration stays discoverable)", "caught_by": "expiry/expired id leaves both maps"},
    {"mutation": "Cookie::into_wire_encoding uses to_le_bytes", "caught_by": "cookie/id bytes: encode and decode agree"},
]


def check(ctx):
    _check(ctx, ctx.prog)


def _check(ctx, prog):
    # ---- private fields by role
    F_IDS = P.field_by_type(prog, RZ, RADT, r"^bimap::BiHashMap<")                       # (peer, namespace) <-> id
    F_REGS = P.field_by_type(prog, RZ, RADT, r"^std::collections::HashMap<server::RegistrationId")
    F_COOK = P.field_by_type(prog, RZ, RADT, r"LruCache<")
    F_EXP = P.field_by_type(prog, RZ, RADT, r"FuturesUnordered<")
    F_CFG = P.field_by_type(prog, RZ, RADT, r"Config$")
    IDS, REGS, COOK, EXP, CFG = ("self." + x for x in (F_IDS, F_REGS, F_COOK, F_EXP, F_CFG))
    C_MIN = CFG + "." + P.field_written_by(prog, RZ, r"^libp2p_rendezvous::server::Config::with_min_ttl$")
    C_MAX = CFG + "." + P.field_written_by(prog, RZ, r"^libp2p_rendezvous::server::Config::with_max_ttl$")
    C_PEER = CFG + "." + P.field_written_by(prog, RZ, r"^libp2p_rendezvous::server::Config::with_max_registration_per_peer$")
    C_TOTAL = CFG + "." + P.field_written_by(prog, RZ, r"^libp2p_rendezvous::server::Config::with_max_registration_total$")
    # ================================================================= add(self, new_registration = $2)
    a = ctx.body(RZ, R + r"add$")
    A = P.Norm(a)
    arets = a.return_blocks()
    bins = [s for s in a.call_sites(r"BiHashMap::insert$") if A.r(a.site_expr(s)[2][0]) == IDS]
    rins = [s for s in a.call_sites(r"HashMap::insert$") if A.r(a.site_expr(s)[2][0]) == REGS]
    tpush = [s for s in a.call_sites(r"FuturesUnordered::push$") if A.r(a.site_expr(s)[2][0]) == EXP]
    ctx.floor("add", "(peer, namespace) -> id insert", bins, 1, exact=True)
    ctx.floor("add", "id -> registration insert", rins, 1, exact=True)
    ctx.floor("add", "expiry timer push", tpush, 1, exact=True)
    res = P.ret_exprs(a)
    oks = [(s, e) for s, e in res if e[0] == "agg" and e[3] == "Ok"]
    unav = [(s, e) for s, e in res if A.r(e) == "std::result::Result::Err{0: libp2p_rendezvous::codec::ErrorCode::Unavailable{}}"]
    inval = [(s, e) for s, e in res if A.r(e) == "std::result::Result::Err{0: libp2p_rendezvous::codec::ErrorCode::InvalidTtl{}}"]
    ctx.ob("add", "floor:result kinds", len(oks) == 1 and len(unav) >= 1 and len(inval) >= 1 and len(oks) + len(unav) + len(inval) == len(res), nontrivial=False, msg=str([A.r(e)[:60] for _, e in res]))
    # ---- TTL: the ttl that is stored / returned
    TTL = None
    for s, e in oks:
        reg = dict(e[4])["0"]
        if reg[0] == "agg" and "ttl" in dict(reg[4]):
            TTL = A.r(dict(reg[4])["ttl"])
    ctx.ob("add", "floor:stored ttl", TTL is not None, nontrivial=False, msg=str(TTL))
    le_max = P.rel_edges(a, lambda op, x, y: op == "Le" and A.r(x) == TTL and A.r(y) == C_MAX)
    ge_min = P.rel_edges(a, lambda op, x, y: op == "Le" and A.r(x) == C_MIN and A.r(y) == TTL)
    gt_max = P.rel_edges(a, lambda op, x, y: op == "Lt" and A.r(x) == C_MAX and A.r(y) == TTL)
    lt_min = P.rel_edges(a, lambda op, x, y: op == "Lt" and A.r(x) == TTL and A.r(y) == C_MIN)
    names = {id(s): n for lst, n in ((bins, "insert(key -> id)"), (rins, "insert(id -> registration)"), (tpush, "timer push")) for s in lst}
    for s in bins + rins + tpush + [x for x, _ in oks]:
        nm = names.get(id(s), "Ok")
        ok = P.must_pass(a, s.bb, le_max) and P.must_pass(a, s.bb, ge_min)
        ctx.ob("add", "ttl within [min_ttl, max_ttl]", ok, s.loc(), "%s is reachable only with min_ttl <= ttl <= max_ttl for the ttl that is stored" % nm if ok else
               "%s reachable with a stored ttl outside [min_ttl, max_ttl] (the bounds are not tested on the stored value, or a boundary value is rejected by a non-inclusive test)" % nm)
    for edges, nm in ((gt_max, "ttl > max_ttl"), (lt_min, "ttl < min_ttl")):
        got = lib.count_range(a, P.targets(edges), arets, [s.bb for s, _ in inval]) if edges else None
        eff = [s for s in bins + rins + tpush if edges and s.bb in a.reachable(P.targets(edges))]
        ctx.ob("add", "%s is refused with InvalidTtl and stores nothing" % nm, got == (1, 1) and not eff, inval[0][0].loc() if inval else "", "Err(InvalidTtl) on that edge: %s, stores reachable: %d" % (got, len(eff)))
    for s in rins:
        v = a.site_expr(s)[2][2]
        regs = [x for x in mir.walk(v) if x[0] == "agg" and x[1] == "adt" and strip_generics(x[2]).endswith("codec::Registration")]
        ctx.ob("add", "the stored registration carries the checked ttl", len(regs) == 1 and A.r(dict(regs[0][4]).get("ttl", ("unknown", "?"))) == TTL, s.loc(), A.r(v)[-120:])
    for s in tpush:
        r = A.site(s)
        ctx.ob("add", "expiry is scheduled after exactly ttl seconds", "futures_timer::Delay::new(std::time::Duration::from_secs(%s))" % TTL in r, s.loc(), r[:200])
    # ---- key / id agreement
    KEY = A.r(a.site_expr(bins[0])[2][1]) if bins else "?"
    IDE = a.site_expr(bins[0])[2][2] if bins else ("unknown", "?")
    ID = A.r(IDE)
    ctx.ob("add", "the key is (record.peer_id(), namespace)", KEY == "tuple{0: libp2p_core::PeerRecord::peer_id($2.record), 1: clone($2.namespace)}", bins[0].loc() if bins else "", KEY)
    tim = [P.closures_in(prog, a, a.site_expr(x)) for x in tpush]
    same_id = IDE[0] == "call" and all(y[0] == "call" and y[3] == IDE[3] for x in rins for y in [a.site_expr(x)[2][1]]) and \
        all(len(cs) == 1 and len(cs[0][0][2]) == 1 and cs[0][0][2][0][0] == "call" and cs[0][0][2][0][3] == IDE[3] for cs in tim)
    ctx.ob("add", "one fresh id is used for both maps and the timer", ID == "libp2p_rendezvous::server::RegistrationId::new()" and same_id and len(a.call_sites(r"server::RegistrationId::new$")) == 1, bins[0].loc() if bins else "", ID)
    tc = [P.Norm(cs[0][1]).r(x) for cs in tim if cs for _, x in P.ret_exprs(cs[0][1])]
    ctx.ob("add", "the timer yields the registration's id", tc == ["^0"], msg=str(tc))
    for s, e in oks:
        for x, nm in ((bins, "the key -> id map"), (rins, "the id -> registration map"), (tpush, "the expiry queue")):
            got = lib.count_range(a, [0], [s.bb], lib.bbs(x))
            ctx.ob("add", "Ok => stored once in %s" % nm, got == (1, 1), x[0].loc() if x else "", str(got))
    for s, e in unav + inval:
        got = lib.count_range(a, [0], [s.bb], lib.bbs(bins + rins + tpush))
        ctx.ob("add", "Err => nothing stored", got == (0, 0), s.loc(), str(got))
    # ---- limits + refresh rule
    is_key_test = (lambda e: A.r(e) == "bimap::BiHashMap::contains_left(%s, %s)" % (IDS, KEY))
    refresh = P.truth_edges(a, is_key_test, True)
    fresh = P.truth_edges(a, is_key_test, False)
    cnt = [s for s in a.call_sites(r"Iterator>::count$|Iterator::count$") if IDS in A.site(s)]
    PEERCNT = A.site(cnt[0]) if cnt else "?"
    TOTAL = "bimap::BiHashMap::len(%s)" % IDS
    for s in bins:
        for nm, cexp, lexp in (("per-peer", PEERCNT, C_PEER), ("total", TOTAL, C_TOTAL)):
            good = P.rel_edges(a, lambda op, x, y: op == "Lt" and A.r(x) == cexp and A.r(y) == lexp)
            weak = P.rel_edges(a, lambda op, x, y: op == "Le" and A.r(x) == cexp and A.r(y) == lexp)
            ok = bool(good) and a.must_pass_edges(s.bb, set(good) | set(refresh))
            msg = "every path to the insert is a refresh of the same key or passes `count < limit`"
            if not ok:
                msg = "a new (peer, namespace) can be inserted without a strict %s guard" % nm
                if weak and a.must_pass_edges(s.bb, set(good) | set(weak) | set(refresh)):
                    msg += " — only `count <= limit` protects it, which admits limit + 1"
            ctx.ob("add", "%s limit is strict (or refresh)" % nm, ok, s.loc(), msg)
    for s, e in unav:
        ok = P.must_pass(a, s.bb, fresh)
        ctx.ob("add", "Unavailable only for a new (peer, namespace)", ok, s.loc(),
               "Err(Unavailable) is reachable only when the key is not registered yet" if ok else
               "Err(Unavailable) is reachable without testing whether (peer, namespace) is already registered: a refresh at the limit is refused")
    pc = []
    for s in cnt[:1]:
        for x, cb in P.closures_in(prog, a, a.site_expr(s))[:1]:
            for _, y in P.ret_exprs(cb):
                c = P.cmpnf(y)
                pc.append("%s(%s)" % (c[0], ", ".join(sorted([P.rr(prog, cb, c[1]), P.rr(prog, cb, c[2])]))) if c else P.Norm(cb).r(y))
    ctx.ob("add", "the per-peer count matches the registering peer", pc == ["Eq($2.0, libp2p_core::PeerRecord::peer_id($2.record))"], msg=str(pc))
    # ---- superseded registration removed before the overwrite
    rbl = [s for s in a.call_sites(r"BiHashMap::remove_by_left$") if A.site(s) == "bimap::BiHashMap::remove_by_left(%s, %s)" % (IDS, KEY)]
    viaremove = [s for s in a.call_sites(R + r"remove$")]
    ok = False
    why = "the key -> id insert overwrites an existing key: the superseded id must be taken (remove_by_left(key)) and removed from the id -> registration map first"
    if rbl and bins:
        some = P.targets(P.outcome_edges(a, P.is_call_at(rbl[0]), True))
        rr_ = [s for s in a.call_sites(r"HashMap::remove$") if A.site(s) == "std::collections::HashMap::remove(%s, %s@+.1)" % (REGS, A.site(rbl[0]))]
        g1 = lib.count_range(a, [0], [bins[0].bb], [rbl[0].bb])
        g2 = lib.count_range(a, some, [bins[0].bb], lib.bbs(rr_)) if some else None
        ok = g1 == (1, 1) and g2 == (1, 1)
        why = "remove_by_left(key) before the insert: %s; removal of the superseded id from the id -> registration map on its Some edge: %s" % (g1, g2)
    elif viaremove and bins:
        g1 = lib.count_range(a, [0], [bins[0].bb], lib.bbs(viaremove))
        ok = g1 == (1, 1)
        why = "Registrations::remove(namespace, peer) before the insert: %s" % (g1,)
    ctx.ob("add", "superseded registration is dropped before the key is overwritten", ok, bins[0].loc() if bins else "", why)
    # ================================================================= remove(self, namespace = $2, peer_id = $3)
    rm = ctx.body(RZ, R + r"remove$")
    M = P.Norm(rm)
    rbl = [s for s in rm.call_sites(r"BiHashMap::remove_by_left$") if M.site(s) == "bimap::BiHashMap::remove_by_left(%s, tuple{0: $3, 1: $2})" % IDS]
    ctx.floor("remove", "remove_by_left((peer, namespace))", rbl, 1, exact=True)
    for s in rbl:
        some = P.targets(P.outcome_edges(rm, P.is_call_at(s), True))
        rr_ = [x for x in rm.call_sites(r"HashMap::remove$") if M.site(x) == "std::collections::HashMap::remove(%s, %s@+.1)" % (REGS, M.site(s))]
        g0 = lib.count_range(rm, [0], rm.return_blocks(), [s.bb])
        g1 = lib.count_range(rm, some, rm.return_blocks(), lib.bbs(rr_)) if some else None
        ctx.ob("remove", "unregistering drops the id from both maps", g0 == (1, 1) and g1 == (1, 1), s.loc(), "remove_by_left %s; removal of the id from the id -> registration map on the Some edge %s" % (g0, g1))
    # ================================================================= poll (expiry)
    p = ctx.body(RZ, R + r"poll$")
    PN = P.Norm(p)
    nx = [s for s in p.call_sites(r"poll_next_unpin$|Stream>::poll_next$|Stream::poll_next$") if EXP in PN.r(p.site_expr(s)[2][0])]
    ctx.floor("expiry", "next_expiry poll", nx, 1, exact=True)
    EXPD = PN.site(nx[0]) + "@+@Ready" if nx else "?"
    rbr = [s for s in p.call_sites(r"BiHashMap::remove_by_right$") if PN.site(s) == "bimap::BiHashMap::remove_by_right(%s, %s)" % (IDS, EXPD)]
    rr_ = [s for s in p.call_sites(r"HashMap::remove$") if PN.site(s) == "std::collections::HashMap::remove(%s, %s)" % (REGS, EXPD)]
    ck = [s for s in p.call_sites(r"LruCache::retain$") if PN.r(p.site_expr(s)[2][0]) == COOK]
    ready = P.targets(P.variant_edges(p, P.is_call_at(nx[0]), {"Ready"})) if nx else []
    ends = p.return_blocks() + ([nx[0].bb] if nx else [])
    g = [lib.count_range(p, ready, ends, lib.bbs(x)) if ready else None for x in (rbr, rr_, ck)]
    ctx.ob("expiry", "expired id leaves both maps", g[0] == (1, 1) and g[1] == (1, 1), rbr[0].loc() if rbr else (nx[0].loc() if nx else ""),
           "per expired id: key -> id remove_by_right %s, id -> registration remove %s (expected (1, 1) each)" % (g[0], g[1]))
    ctx.ob("expiry", "expired id leaves the cookies", g[2] == (1, 1), ck[0].loc() if ck else "", "cookies.retain per expired id: %s" % (g[2],))
    for s in ck:
        cb, ups = P.upvar_sources(prog, p, p.site_expr(s))
        calls = [P.Norm(cb).site(x) for x in cb.call_sites(r"HashSet::remove$")] if cb is not None else []
        ctx.ob("expiry", "cookie cleanup removes the expired id", calls == ["std::collections::HashSet::remove($3, ^0)"] and [PN.r(u) for u in ups] == [EXPD], s.loc(), str(calls))
    evs = [(s, e) for s, e in P.ret_exprs(p) if "ExpiredRegistration{" in PN.r(e)]
    ctx.floor("expiry", "ExpiredRegistration result", evs, 1, exact=True)
    for s, e in evs:
        ok = bool(rr_) and P.must_pass(p, s.bb, P.outcome_edges(p, P.is_call_at(rr_[0]), True))
        ctx.ob("expiry", "an expiry event is emitted only for a registration that was still stored", ok and PN.r(e) == "std::task::Poll::Ready{0: libp2p_rendezvous::server::ExpiredRegistration::ExpiredRegistration{0: %s@+}}" % PN.site(rr_[0]), s.loc(), PN.r(e)[-80:])
    # ================================================================= get(self, discover_namespace = $2, cookie = $3, limit = $4)
    g_ = ctx.body(RZ, R + r"get$")
    G = P.Norm(g_, ids=True)
    grets = g_.return_blocks()
    fm = [s for s in g_.call_sites(r"Iterator::filter_map$") if G.r(g_.site_expr(s)[2][0]) == "bimap::BiHashMap::iter(%s)" % IDS]
    ctx.floor("get", "filter_map over the key -> id map", fm, 1, exact=True)
    fc, ups = P.upvar_sources(prog, g_, g_.site_expr(fm[0])) if fm else (None, [])
    if fc is None:
        raise mir.RuleError("get: filter closure not found")
    ctx.use(fc)
    FC = P.Norm(fc)
    # captured: the id set of the presented cookie (a local) and the requested namespace ($2)
    setl = [u for u in ups if u[0] == "local"]
    nsi = [i for i, u in enumerate(ups) if u[0] == "arg" and u[1] == 2]
    seti = [i for i, u in enumerate(ups) if u[0] == "local"]
    ctx.ob("get", "the filter sees the cookie's id set and the requested namespace", len(ups) == 2 and len(setl) == 1 and len(nsi) == 1, fm[0].loc(), str([G.r(u) for u in ups]))
    SETV = "^%d" % seti[0] if seti else "^?"
    NSV = "^%d" % nsi[0] if nsi else "^?"
    CONT = "std::collections::HashSet::contains(%s, $2.1)" % SETV
    seen = P.truth_edges(fc, lambda e: FC.r(e) == CONT, True)
    unseen = P.truth_edges(fc, lambda e: FC.r(e) == CONT, False)
    somes = [(s, e) for s, e in P.ret_exprs(fc) if e[0] == "agg" and e[3] == "Some"]
    ctx.floor("get", "Some(id) results of the filter", somes, 1)
    ns_none = P.outcome_edges(fc, lambda e: FC.r(e) in ("std::option::Option::as_ref(%s)" % NSV, NSV), False)
    ns_eq = P.rel_edges(fc, lambda op, x, y: op == "Eq" and {FC.r(x), FC.r(y)} == {"$2.0.1", "std::option::Option::as_ref(%s)@+" % NSV})
    for s, e in somes:
        ok = P.must_pass(fc, s.bb, unseen)
        ctx.ob("get", "ids already in the cookie are skipped", ok and FC.r(e) == "std::option::Option::Some{0: $2.1}", s.loc(), "Some(registration_id) only on the `!set.contains(id)` edge")
        nsok = fc.must_pass_edges(s.bb, set(ns_none) | set(ns_eq)) if (ns_none or ns_eq) else False
        ctx.ob("get", "a namespaced discover returns only that namespace", nsok, s.loc(), "Some(id) requires discover_namespace == None or == the registration's namespace")
    if seen:
        got = lib.count_range(fc, P.targets(seen), fc.return_blocks(), [s.bb for s, _ in somes])
        ctx.ob("get", "an id contained in the cookie is never returned", got == (0, 0), "%s:%d" % (fc.file, fc.line), "Some results on the contains edge: %s" % (got,))
    else:
        ctx.ob("get", "an id contained in the cookie is never returned", False, "%s:%d" % (fc.file, fc.line), "no test of set.contains(id)")
    SL = setl[0][1] if setl else None
    src = G.r(g_.init_expr(SL)) if SL is not None else ""
    ctx.ob("get", "the id set is the one stored under the presented cookie", src == "std::option::Option::unwrap_or_default(std::option::Option::cloned(std::option::Option::and_then($3, closure[%s])))" % COOK, msg=src[:200])
    lk = [x for x in mir.walk(g_.init_expr(SL)) if x[0] == "closure"] if SL is not None else []
    c1 = [P.Norm(prog.closure_body(g_, x[1])).r(y) for x in lk for _, y in P.ret_exprs(prog.closure_body(g_, x[1]))]
    ctx.ob("get", "the cookie lookup uses the presented cookie", c1 == ["hashlink::LruCache::get(^0, $2)"], msg=str(c1))
    # ids = collect(cloned(take(filter_map, limit)))
    col = [s for s in g_.call_sites(r"Iterator::collect$") if any(y[0] == "call" and y[3] == fm[0].bb for y in mir.walk(g_.site_expr(s)))]
    ids_e = g_.site_expr(col[0]) if col else ("unknown", "?")
    ids = G.r(ids_e)
    tk = [y for y in mir.walk(ids_e) if P.call_is(y, r"Iterator::take$")]
    ctx.ob("get", "at most `limit` ids per discover", len(tk) == 1 and tk[0][2][0][0] == "call" and tk[0][2][0][3] == fm[0].bb and G.r(tk[0][2][1]) == "(std::option::Option::unwrap_or($4, 18446744073709551615) as usize)", msg=G.r(tk[0][2][1]) if tk else ids[-120:])
    ext = [s for s in g_.call_sites(r"Extend>::extend$") if G.site(s) == "<std::collections::HashSet as std::iter::Extend>::extend(%%%s, %s)" % (SL, ids)]
    cins = [s for s in g_.call_sites(r"LruCache::insert$") if G.r(g_.site_expr(s)[2][0]) == COOK]
    oks = [(s, e) for s, e in P.ret_exprs(g_) if e[0] == "agg" and e[3] == "Ok"]
    ctx.floor("get", "Ok result", oks, 1, exact=True)
    for s, e in oks:
        ge, gi = lib.count_range(g_, [0], [s.bb], lib.bbs(ext)), lib.count_range(g_, [0], [s.bb], lib.bbs(cins))
        order = bool(ext) and bool(cins) and g_.dominates(ext[0].bb, cins[0].bb)
        ctx.ob("get", "new cookie remembers old and new ids", ge == (1, 1) and gi == (1, 1) and order, ext[0].loc() if ext else s.loc(), "set.extend(&ids) %s before cookies.insert %s" % (ge, gi))
        tup = dict(e[4])["0"]
        parts = dict(tup[4]) if tup[0] == "agg" else {}
        for x in cins:
            a_ = g_.site_expr(x)[2]
            nc = a_[1][2][0] if P.call_is(a_[1], r"Clone>::clone$|Clone::clone$") else a_[1]
            ctx.ob("get", "the stored set belongs to the returned cookie", G.r(a_[2]) == "%%%s" % SL and "1" in parts and G.r(parts["1"]) == G.r(nc) and
                   G.r(nc) == "std::option::Option::unwrap_or_else(std::option::Option::map($2, fn:libp2p_rendezvous::codec::Cookie::for_namespace), fn:libp2p_rendezvous::codec::Cookie::for_all_namespaces)", x.loc(), G.r(nc)[:160])
        first = G.r(parts.get("0", ("unknown", "?")))
        ctx.ob("get", "the returned registrations are those of the returned ids", first.startswith("std::iter::Iterator::map(<std::vec::Vec as std::iter::IntoIterator>::into_iter(%s), closure[" % ids), s.loc(), first[:80])
    errs = [(s, e) for s, e in P.ret_exprs(g_) if e[0] == "agg" and e[3] == "Err"]
    CNS = "std::option::Option::and_then(std::option::Option::as_ref($3), closure[])@+"
    mism = P.rel_edges(g_, lambda op, x, y: op == "Ne" and {G.r(x), G.r(y)} == {CNS, "std::option::Option::as_ref($2)@+"})
    got = lib.count_range(g_, P.targets(mism), grets, [s.bb for s, _ in errs]) if mism else None
    ctx.ob("get", "a cookie of another namespace is refused", got == (1, 1) and not any(x.bb in g_.reachable(P.targets(mism)) for x in fm + cins), errs[0][0].loc() if errs else "", "Err on the namespace != cookie namespace edge: %s" % (got,))
    for s, e in errs:
        got = lib.count_range(g_, [0], [s.bb], lib.bbs(cins))
        ctx.ob("get", "a refused discover stores no cookie", got == (0, 0), s.loc(), str(got))
    # ================================================================= handle_request
    hr = ctx.body(RZ, r"^libp2p_rendezvous::server::handle_request$")
    ga, ad, rmv = hr.call_sites(R + r"get$"), hr.call_sites(R + r"add$"), hr.call_sites(R + r"remove$")
    ctx.ob("request", "register / unregister / discover go through Registrations::{add, remove, get}", len(ga) == 1 and len(ad) == 1 and len(rmv) == 1, "%s:%d" % (hr.file, hr.line), "get %d add %d remove %d" % (len(ga), len(ad), len(rmv)))
    callers = {n_: sorted({s.body.npath for s in prog.callers(RZ, R + n_ + "$")}) for n_ in ("add", "remove", "get")}
    ctx.ob("request", "the registration store is changed only by handle_request", all(v == [hr.npath] for v in callers.values()), msg=str(callers))
    who = {}
    for b in prog.bodies(RZ):
        if not b.npath.startswith("libp2p_rendezvous::server::"):
            continue
        for fld in (F_IDS, F_REGS):
            for s in lib.field_mut_calls(b, fld):
                who.setdefault(fld, set()).add(b.npath)
    allowed = {"libp2p_rendezvous::server::Registrations::" + n_ for n_ in ("add", "remove", "poll")}
    ctx.ob("request", "both maps are mutated only by add / remove / poll", all(v <= allowed for v in who.values()) and set(who) == {F_IDS, F_REGS}, msg=str({k: sorted(v) for k, v in who.items()}))
    # ================================================================= Cookie wire encoding
    K_ID = P.field_by_type(prog, RZ, CADT, r"^u64$")
    K_NS = P.field_by_type(prog, RZ, CADT, r"Option<")
    enc = ctx.body(RZ, r"^libp2p_rendezvous::codec::Cookie::into_wire_encoding$")
    dec = ctx.body(RZ, r"^libp2p_rendezvous::codec::Cookie::from_wire_encoding$")
    EN, DE = P.Norm(enc), P.Norm(dec)
    exts = enc.call_sites(r"extend_from_slice$")
    e_args = [EN.r(enc.site_expr(s)[2][1]) for s in exts]
    ok_e = len(exts) == 2 and e_args[0] == "core::num::to_be_bytes(self.%s)" % K_ID and "self.%s" % K_NS in e_args[1] and "as_bytes(" in e_args[1] and enc.dominates(exts[0].bb, exts[1].bb)
    so = dec.call_sites(r"Vec::split_off$")
    IDLEN = P.const_val(dec.site_expr(so[0])[2][1]) if so else None
    oks = [(s, e) for s, e in P.ret_exprs(dec) if e[0] == "agg" and e[3] == "Ok"]
    idsrc = ""
    for s, e in oks:
        ck_ = dict(e[4])["0"]
        f = dict(ck_[4]) if ck_[0] == "agg" else {}
        idsrc = DE.r(f.get(K_ID, ("unknown", "?")))
    ok_d = IDLEN == 8 and len(so) == 1 and DE.r(dec.site_expr(so[0])[2][0]) == "$1" and re.match(r"^core::num::from_be_bytes\(.*\$1.*\)$", idsrc) is not None
    ctx.ob("cookie", "id bytes: encode and decode agree", ok_e and ok_d, "%s:%d" % (enc.file, enc.line), "encode: %s | decode: split_off(%s), id = %s" % ([c[-70:] for c in e_args], IDLEN, idsrc[:80]))
    for s, e in oks:
        ge8 = P.rel_edges(dec, lambda op, x, y: op == "Le" and P.const_val(x) == IDLEN and DE.r(y) == "std::vec::Vec::len($1)")
        ctx.ob("cookie", "decoding needs at least the id bytes", IDLEN is not None and P.must_pass(dec, s.bb, ge8), s.loc(), "Ok only with bytes.len() >= %s" % IDLEN)
        ck_ = dict(e[4])["0"]
        f = dict(ck_[4]) if ck_[0] == "agg" else {}
        ns = f.get(K_NS)
        ns_ok = False
        if ns is not None and ns[0] == "local":
            srcs = [DE.r(dec.site_expr(mir.Site(dec, d[1], d[2]))) for d in dec.defs.get(ns[1], [])]
            ns_ok = len(srcs) == 2 and any(x == "std::option::Option::None{}" for x in srcs) and any("std::vec::Vec::split_off($1, %s)" % IDLEN in x for x in srcs)
        ctx.ob("cookie", "decoded cookie = (id from the first bytes, namespace from the rest)", ns_ok, s.loc(), idsrc[:100])
        ctx.ob("cookie", "the namespace is split off before the id is read", bool(so) and dec.dominates(so[0].bb, s.bb), so[0].loc() if so else "", "")
    for fn in ("for_namespace", "for_all_namespaces"):
        b = ctx.body(RZ, r"^libp2p_rendezvous::codec::Cookie::%s$" % fn)
        BN = P.Norm(b)
        ags = [dict(x[4]) for _, e in P.ret_exprs(b) for x in mir.walk(e) if x[0] == "agg" and x[1] == "adt" and strip_generics(x[2]) == "libp2p_rendezvous::codec::Cookie"]
        ok = len(ags) == 1 and BN.r(ags[0][K_ID]) == "rand::random()" and BN.r(ags[0][K_NS]) == ("std::option::Option::Some{0: $1}" if fn == "for_namespace" else "std::option::Option::None{}")
        ctx.ob("cookie", "%s creates a cookie with a random id" % fn, ok, "%s:%d" % (b.file, b.line), str({k: BN.r(v) for k, v in ags[0].items()}) if ags else "")
