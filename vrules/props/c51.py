"""C51 rendezvous registrations obey TTL, limits and refresh semantics — guards (K1), strict limits (K9), refresh rule (K1), supersede pairing (K2/K3), closure tables (K7), origin (K5), encode/decode agreement (K11)."""
import re

from .. import lib, mir
from ..mir import render, strip_generics

EXPLANATION = ("Registrations::add: every continuation past the TTL test has min_ttl <= effective_ttl <= max_ttl (Err(InvalidTtl) on the other edges) "
               "and stores / schedules exactly that ttl; the only registrations_for_peer.insert is dominated, for each of the two limits, by "
               "the strict `count >= limit` false edge or by the edge proving that the inserted (peer, namespace) key is already registered "
               "(a refresh adds nothing); Err(Unavailable) is reachable only on the not-a-refresh edge of that same key; before the key is "
               "overwritten the superseded id is taken with remove_by_left(key) and removed from `registrations` on every path; the id "
               "stored in both maps and returned by the expiry timer is the same fresh id; Err paths store nothing. remove / poll(expiry) "
               "drop the id from both maps; an ExpiredRegistration is emitted only for an id that was still stored. get: ids are produced "
               "by a filter over registrations_for_peer that rejects ids contained in the cookie's set and, for a namespaced discover, other "
               "namespaces; at most `limit` ids; the new cookie's set = old set + returned ids and is stored under the returned cookie; a "
               "cookie of another namespace is refused. Cookie wire encoding: 8 big-endian id bytes followed by the namespace, decoded by "
               "the inverse steps.")
ASSUMPTIONS = ["bimap::BiHashMap / hashlink::LruCache semantics (BiHashMap::insert overwrites an existing left key)", "random 64-bit registration ids and cookie ids do not collide",
               "timer accuracy of futures_timer::Delay; LRU eviction of cookies (an evicted cookie restarts pagination) is not analysed",
               "the model comparison over arbitrary histories is not performed; only the per-operation update rules are decided"]
RZ = "libp2p_rendezvous"
R = r"^libp2p_rendezvous::server::Registrations::"

SELFTEST = [
    {"mutation": "total limit `>` (the tree before the F14 fix 1cf5901)", "caught_by": "add/total limit is strict (or refresh)"},
    {"mutation": "no refresh test before Err(Unavailable) (the tree before the F14 fix) / `(is_refresh || !is_refresh) &&`", "caught_by": "add/Unavailable only for a new (peer, namespace)"},
    {"mutation": "superseded id not removed from `registrations` (the tree before the F14 fix) / `let _ = superseded`", "caught_by": "add/superseded registration is dropped before the key is overwritten"},
    {"mutation": "`ttl >= max_ttl` rejects max_ttl", "caught_by": "add/ttl within [min_ttl, max_ttl]"},
    {"mutation": "`ttl < min_ttl` test deleted", "caught_by": "add/ttl within [min_ttl, max_ttl]"},
    {"mutation": "per-peer limit `>`", "caught_by": "add/per-peer limit is strict (or refresh)"},
    {"mutation": "expiry timer uses max_ttl instead of the registration's ttl", "caught_by": "add/expiry is scheduled after exactly ttl seconds"},
    {"mutation": "get: cookie filter disabled (`if false && ..contains(id)`)", "caught_by": "get/ids already in the cookie are skipped"},
    {"mutation": "get: namespace arm `Some(_) => Some(registration_id)`", "caught_by": "get/a namespaced discover returns only that namespace"},
    {"mutation": "get: reggos_of_last_discover.extend(&ids) removed", "caught_by": "get/new cookie remembers old and new ids"},
    {"mutation": "poll: remove_by_right removed (expired registration stays discoverable)", "caught_by": "expiry/expired id leaves both maps"},
    {"mutation": "Cookie::into_wire_encoding uses to_le_bytes", "caught_by": "cookie/id bytes: encode and decode agree"},
]


def ret_exprs(b):
    return [(mir.Site(b, d[1], d[2]), b.site_expr(mir.Site(b, d[1], d[2]))) for d in b.defs.get(0, [])]


def cmp_edges(b, lhs_pat, rhs_pat, want):
    """Edges on which relation `want` in {'le','ge','lt','gt'} between lhs and rhs is known."""
    table = {"le": {("Gt", "false"), ("Le", "true")}, "ge": {("Lt", "false"), ("Ge", "true")},
             "lt": {("Ge", "false"), ("Lt", "true")}, "gt": {("Le", "false"), ("Gt", "true")}}[want]
    return {(bi, tg) for bi, tg, op, lab in lib.cmp_guard(b, lhs_pat, rhs_pat, None) if (op, lab) in table}


def truth_edges(b, pred, value):
    """Edges on which the bool expression selected by pred(rendered) is known to be `value` (looks through `!`)."""
    out = set()
    for bi in b.live:
        info = b.switch_info(bi)
        if not info:
            continue
        cond, labs = info
        neg = False
        while cond[0] == "un" and cond[1] == "Not":
            cond, neg = cond[2], not neg
        if not pred(render(cond)):
            continue
        want = "true" if (value != neg) else "false"
        for tg, ls in labs.items():
            if ls == {want}:
                out.add((bi, tg))
    return out


def check(ctx):
    mir.RENDER_MAX[0] = 30
    try:
        _check(ctx, ctx.prog)
    finally:
        mir.RENDER_MAX[0] = 14


def _check(ctx, prog):
    a = ctx.body(RZ, R + r"add$")
    arets = a.return_blocks()
    TTL = "libp2p_rendezvous::codec::NewRegistration::effective_ttl(new_registration)"
    bins = [s for s in a.call_sites(r"BiHashMap::insert$") if render(a.site_expr(s)[2][0]) == "self.registrations_for_peer"]
    rins = [s for s in a.call_sites(r"HashMap::insert$") if render(a.site_expr(s)[2][0]) == "self.registrations"]
    tpush = [s for s in a.call_sites(r"FuturesUnordered::push$") if render(a.site_expr(s)[2][0]) == "self.next_expiry"]
    ctx.floor("add", "registrations_for_peer.insert", bins, 1, exact=True)
    ctx.floor("add", "registrations.insert", rins, 1, exact=True)
    ctx.floor("add", "expiry timer push", tpush, 1, exact=True)
    res = ret_exprs(a)
    oks = [(s, e) for s, e in res if e[0] == "agg" and e[3] == "Ok"]
    unav = [(s, e) for s, e in res if render(e) == "std::result::Result::Err{0: libp2p_rendezvous::codec::ErrorCode::Unavailable{}}"]
    inval = [(s, e) for s, e in res if render(e) == "std::result::Result::Err{0: libp2p_rendezvous::codec::ErrorCode::InvalidTtl{}}"]
    ctx.ob("add", "floor:result kinds", len(oks) == 1 and len(unav) >= 1 and len(inval) >= 1 and len(oks) + len(unav) + len(inval) == len(res), nontrivial=False, msg=str([render(e)[:60] for _, e in res]))
    # ---- TTL
    le_max = cmp_edges(a, "^" + re.escape(TTL) + "$", r"^self\.config\.max_ttl$", "le")
    ge_min = cmp_edges(a, "^" + re.escape(TTL) + "$", r"^self\.config\.min_ttl$", "ge")
    gt_max = cmp_edges(a, "^" + re.escape(TTL) + "$", r"^self\.config\.max_ttl$", "gt")
    lt_min = cmp_edges(a, "^" + re.escape(TTL) + "$", r"^self\.config\.min_ttl$", "lt")
    for s in bins + rins + tpush + [x for x, _ in oks]:
        nm = "Ok" if s.si is not None else strip_generics(a.call_name(s.term)).split("::")[-1] + "(" + render(a.site_expr(s)[2][0]).split(".")[-1] + ")"
        ok = bool(le_max) and bool(ge_min) and a.must_pass_edges(s.bb, le_max) and a.must_pass_edges(s.bb, ge_min)
        ctx.ob("add", "ttl within [min_ttl, max_ttl]", ok, s.loc(), "%s is reachable only with min_ttl <= ttl <= max_ttl" % nm if ok else "%s reachable with a ttl outside [min_ttl, max_ttl] (or a boundary value is rejected by a non-inclusive test)" % nm)
    for edges, nm in ((gt_max, "ttl > max_ttl"), (lt_min, "ttl < min_ttl")):
        got = lib.count_range(a, [t for _, t in edges], arets, [s.bb for s, _ in inval]) if edges else None
        eff = [s for s in bins + rins + tpush if edges and s.bb in a.reachable([t for _, t in edges])]
        ctx.ob("add", "%s is refused with InvalidTtl and stores nothing" % nm, got == (1, 1) and not eff, inval[0][0].loc() if inval else "", "Err(InvalidTtl) on that edge: %s, stores reachable: %d" % (got, len(eff)))
    for s, e in oks:
        r = render(e)
        ctx.ob("add", "the stored / returned registration carries the checked ttl", "ttl: %s}" % TTL in r and all("ttl: %s}" % TTL in render(a.site_expr(x)) for x in rins), s.loc(), r[-120:])
    for s in tpush:
        r = render(a.site_expr(s))
        ctx.ob("add", "expiry is scheduled after exactly ttl seconds", "futures_timer::Delay::new(std::time::Duration::from_secs(%s))" % TTL in r, s.loc(), r[:200])
    # ---- key / id agreement
    KEY = render(a.site_expr(bins[0])[2][1]) if bins else "?"
    ID = render(a.site_expr(bins[0])[2][2]) if bins else "?"
    ctx.ob("add", "the key is (record.peer_id(), namespace)", KEY == "tuple{0: libp2p_core::PeerRecord::peer_id(new_registration.record), 1: libp2p_rendezvous::<codec::Namespace as std::clone::Clone>::clone(new_registration.namespace)}", bins[0].loc() if bins else "", KEY)
    ctx.ob("add", "one fresh id is used for both maps and the timer", ID == "libp2p_rendezvous::server::RegistrationId::new()" and all(render(a.site_expr(x)[2][1]) == ID for x in rins) and
           all("[%s]" % ID in render(a.site_expr(x)) for x in tpush) and len(a.call_sites(r"server::RegistrationId::new$")) == 1, bins[0].loc() if bins else "", ID)
    tc = [c for c in prog.children(a) if c.kind == "closure" and [render(x) for _, x in ret_exprs(c)] == ["^registration_id"]]
    ctx.ob("add", "the timer yields the registration's id", len(tc) == 1, msg="closure returning ^registration_id: %d" % len(tc))
    for s, e in oks:
        for x in bins + rins + tpush:
            got = lib.count_range(a, [0], [s.bb], [x.bb])
            ctx.ob("add", "Ok => stored once in %s" % render(a.site_expr(x)[2][0]).split(".")[-1], got == (1, 1), x.loc(), str(got))
    for s, e in unav + inval:
        got = lib.count_range(a, [0], [s.bb], lib.bbs(bins + rins + tpush))
        ctx.ob("add", "Err => nothing stored", got == (0, 0), s.loc(), str(got))
    # ---- limits + refresh rule
    is_key_test = lambda r: r == "bimap::BiHashMap::contains_left(self.registrations_for_peer, %s)" % KEY
    refresh = truth_edges(a, is_key_test, True)
    fresh = truth_edges(a, is_key_test, False)
    PEERCNT = r"^<std::iter::Filter as std::iter::Iterator>::count\(std::iter::Iterator::filter\(bimap::BiHashMap::left_values\(self\.registrations_for_peer\), closure:[^\[]*\[libp2p_core::PeerRecord::peer_id\(new_registration\.record\)\]\)\)$"
    TOTAL = r"^bimap::BiHashMap::len\(self\.registrations_for_peer\)$"
    for s in bins:
        for nm, cpat, lpat in (("per-peer", PEERCNT, r"^self\.config\.max_registrations_per_peer$"), ("total", TOTAL, r"^self\.config\.max_registrations_total$")):
            good, weak = lib.strict_limit_edges(a, cpat, lpat)
            ok = bool(good) and a.must_pass_edges(s.bb, set(good) | set(refresh))
            msg = "every path to the insert is a refresh of the same key or passes `count < limit`"
            if not ok:
                msg = "a new (peer, namespace) can be inserted without a strict %s guard" % nm
                if weak and a.must_pass_edges(s.bb, set(good) | set(weak) | set(refresh)):
                    msg += " — only `count > limit` protects it, which admits limit + 1"
            ctx.ob("add", "%s limit is strict (or refresh)" % nm, ok, s.loc(), msg)
    for s, e in unav:
        ok = bool(fresh) and a.must_pass_edges(s.bb, fresh)
        ctx.ob("add", "Unavailable only for a new (peer, namespace)", ok, s.loc(),
               "Err(Unavailable) is reachable only when the key is not registered yet" if ok else
               "Err(Unavailable) is reachable without testing whether (peer, namespace) is already registered: a refresh at the limit is refused")
    cl = [c for c in prog.children(a) if c.kind == "closure" and [render(x) for _, x in ret_exprs(c)] == ["std::cmp::impls::eq(arg2.0, ^peer)"]]
    ctx.ob("add", "the per-peer count matches the registering peer", len(cl) == 1, msg="closure `p == &peer`: %d" % len(cl))
    # ---- superseded registration removed before the overwrite
    rbl = [s for s in a.call_sites(r"BiHashMap::remove_by_left$") if render(a.site_expr(s)) == "bimap::BiHashMap::remove_by_left(self.registrations_for_peer, %s)" % KEY]
    viaremove = [s for s in a.call_sites(R + r"remove$")]
    ok = False
    why = "registrations_for_peer.insert(key, id) overwrites an existing key: the superseded id must be taken (remove_by_left(key)) and removed from `registrations` first"
    if rbl and bins:
        some = [t for _, t in lib.switch_edges_on_site(a, rbl[0], {"Some"})]
        rr = [s for s in a.call_sites(r"HashMap::remove$") if render(a.site_expr(s)) == "std::collections::HashMap::remove(self.registrations, %s@Some.0.1)" % render(a.site_expr(rbl[0]))]
        g1 = lib.count_range(a, [0], [bins[0].bb], [rbl[0].bb])
        g2 = lib.count_range(a, some, [bins[0].bb], lib.bbs(rr)) if some else None
        ok = g1 == (1, 1) and g2 == (1, 1)
        why = "remove_by_left(key) before the insert: %s; registrations.remove(superseded) on its Some edge: %s" % (g1, g2)
    elif viaremove and bins:
        g1 = lib.count_range(a, [0], [bins[0].bb], lib.bbs(viaremove))
        ok = g1 == (1, 1)
        why = "Registrations::remove(namespace, peer) before the insert: %s" % (g1,)
    ctx.ob("add", "superseded registration is dropped before the key is overwritten", ok, bins[0].loc() if bins else "", why)
    # ================================================================= remove
    rm = ctx.body(RZ, R + r"remove$")
    rbl = [s for s in rm.call_sites(r"BiHashMap::remove_by_left$") if render(rm.site_expr(s)) == "bimap::BiHashMap::remove_by_left(self.registrations_for_peer, tuple{0: peer_id, 1: namespace})"]
    ctx.floor("remove", "remove_by_left((peer, namespace))", rbl, 1, exact=True)
    for s in rbl:
        some = [t for _, t in lib.switch_edges_on_site(rm, s, {"Some"})]
        rr = [x for x in rm.call_sites(r"HashMap::remove$") if render(rm.site_expr(x)) == "std::collections::HashMap::remove(self.registrations, %s@Some.0.1)" % render(rm.site_expr(s))]
        g0 = lib.count_range(rm, [0], rm.return_blocks(), [s.bb])
        g1 = lib.count_range(rm, some, rm.return_blocks(), lib.bbs(rr)) if some else None
        ctx.ob("remove", "unregistering drops the id from both maps", g0 == (1, 1) and g1 == (1, 1), s.loc(), "remove_by_left %s; registrations.remove(id) on the Some edge %s" % (g0, g1))
    # ================================================================= poll (expiry)
    p = ctx.body(RZ, R + r"poll$")
    nx = [s for s in p.call_sites(r"StreamExt::poll_next_unpin$") if render(p.site_expr(s)[2][0]) == "self.next_expiry"]
    ctx.floor("expiry", "next_expiry.poll_next_unpin", nx, 1, exact=True)
    EXP = "std::option::Option::expect(%s@Ready.0, 'This stream should never finish because it is initialised with a pending future')" % render(p.site_expr(nx[0])) if nx else "?"
    rbr = [s for s in p.call_sites(r"BiHashMap::remove_by_right$") if render(p.site_expr(s)) == "bimap::BiHashMap::remove_by_right(self.registrations_for_peer, %s)" % EXP]
    rr = [s for s in p.call_sites(r"HashMap::remove$") if render(p.site_expr(s)) == "std::collections::HashMap::remove(self.registrations, %s)" % EXP]
    ck = [s for s in p.call_sites(r"LruCache::retain$") if render(p.site_expr(s)[2][0]) == "self.cookies"]
    ready = [t for _, t in lib.switch_edges_on_site(p, nx[0], {"Ready"})] if nx else []
    ends = p.return_blocks() + ([nx[0].bb] if nx else [])
    g = [lib.count_range(p, ready, ends, lib.bbs(x)) if ready else None for x in (rbr, rr, ck)]
    ctx.ob("expiry", "expired id leaves both maps", g[0] == (1, 1) and g[1] == (1, 1), rbr[0].loc() if rbr else (nx[0].loc() if nx else ""),
           "per expired id: registrations_for_peer.remove_by_right %s, registrations.remove %s (expected (1, 1) each)" % (g[0], g[1]))
    ctx.ob("expiry", "expired id leaves the cookies", g[2] == (1, 1), ck[0].loc() if ck else "", "cookies.retain per expired id: %s" % (g[2],))
    for s in ck:
        c = lib.closure_of(prog, p, p.site_expr(s))
        calls = [render(c.site_expr(x)) for x in c.call_sites(r"HashSet::remove$")] if c is not None else []
        ctx.ob("expiry", "cookie cleanup removes the expired id", calls == ["std::collections::HashSet::remove(registrations, ^expired_registration)"], s.loc(), str(calls))
    evs = [(s, e) for s, e in ret_exprs(p) if "ExpiredRegistration{" in render(e)]
    ctx.floor("expiry", "ExpiredRegistration result", evs, 1, exact=True)
    for s, e in evs:
        ok = bool(rr) and p.must_pass_edges(s.bb, lib.switch_edges_on_site(p, rr[0], {"Some"}))
        ctx.ob("expiry", "an expiry event is emitted only for a registration that was still stored", ok and render(e) == "std::task::Poll::Ready{0: libp2p_rendezvous::server::ExpiredRegistration::ExpiredRegistration{0: %s@Some.0}}" % render(p.site_expr(rr[0])), s.loc(), render(e)[-80:])
    # ================================================================= get
    g_ = ctx.body(RZ, R + r"get$")
    grets = g_.return_blocks()
    fm = [s for s in g_.call_sites(r"Iterator::filter_map$") if render(g_.site_expr(s)[2][0]) == "bimap::BiHashMap::iter(self.registrations_for_peer)"]
    ctx.floor("get", "filter_map over registrations_for_peer", fm, 1, exact=True)
    fc = lib.closure_of(prog, g_, g_.site_expr(fm[0])) if fm else None
    if fc is None:
        raise mir.RuleError("get: filter closure not found")
    ctx.use(fc)
    ce = [x for x in mir.walk(g_.site_expr(fm[0])) if x[0] == "closure"][0]
    ctx.ob("get", "the filter sees the cookie's id set and the requested namespace", [render(u) for u in ce[2]] == ["reggos_of_last_discover", "discover_namespace"], fm[0].loc(), str([render(u) for u in ce[2]]))
    seen = truth_edges(fc, lambda r: r == "std::collections::HashSet::contains(^reggos_of_last_discover, arg2.1)", True)
    unseen = truth_edges(fc, lambda r: r == "std::collections::HashSet::contains(^reggos_of_last_discover, arg2.1)", False)
    somes = [(s, e) for s, e in ret_exprs(fc) if e[0] == "agg" and e[3] == "Some"]
    ctx.floor("get", "Some(id) results of the filter", somes, 1)
    for s, e in somes:
        ok = bool(unseen) and fc.must_pass_edges(s.bb, unseen)
        ctx.ob("get", "ids already in the cookie are skipped", ok and render(e) == "std::option::Option::Some{0: arg2.1}", s.loc(), "Some(registration_id) only on the `!reggos_of_last_discover.contains(id)` edge")
        nsok = False
        for text, labels, _, c in fc.guards_on_all_paths(s.bb):
            if text == "discr(std::option::Option::as_ref(^discover_namespace))" and set(labels) == {"None"}:
                nsok = True
            if text == "std::cmp::impls::eq(std::option::Option::as_ref(^discover_namespace)@Some.0, arg2.0.1)" and set(labels) == {"true"}:
                nsok = True
        ctx.ob("get", "a namespaced discover returns only that namespace", nsok, s.loc(), "Some(id) requires discover_namespace == None or == the registration's namespace")
    if seen:
        got = lib.count_range(fc, [t for _, t in seen], fc.return_blocks(), [s.bb for s, _ in somes])
        ctx.ob("get", "an id contained in the cookie is never returned", got == (0, 0), "%s:%d" % (fc.file, fc.line), "Some results on the contains edge: %s" % (got,))
    else:
        ctx.ob("get", "an id contained in the cookie is never returned", False, "%s:%d" % (fc.file, fc.line), "no test of reggos_of_last_discover.contains(id)")
    rl = [l for l, n in g_.names.items() if n == "reggos_of_last_discover"]
    src = render(g_.init_expr(rl[0])) if len(rl) == 1 else ""
    ctx.ob("get", "the id set is the one stored under the presented cookie", re.match(r"^std::option::Option::unwrap_or_default\(std::option::Option::cloned\(std::option::Option::and_then\(cookie, closure:[^\[]*\[self\.cookies\]\)\)\)$", src) is not None, msg=src[:200])
    c1 = [c for c in prog.children(g_) if [render(x) for _, x in ret_exprs(c)] == ["hashlink::LruCache::get(^*self.cookies, cookie)"]]
    ctx.ob("get", "the cookie lookup uses the presented cookie", len(c1) == 1, msg=str(len(c1)))
    il = [l for l, n in g_.names.items() if n == "ids"]
    ids = render(g_.init_expr(il[0])) if len(il) == 1 else "?"
    ctx.ob("get", "at most `limit` ids per discover", re.match(r"^std::iter::Iterator::collect\(std::iter::Iterator::cloned\(std::iter::Iterator::take\(std::iter::Iterator::filter_map\(.*\), \(std::option::Option::unwrap_or\(limit, const:core::num::<impl u64>::MAX\) as usize\)\)\)\)$", ids) is not None, msg=ids[-120:])
    ext = [s for s in g_.call_sites(r"Extend>::extend$") if render(g_.site_expr(s)) == "<std::collections::HashSet as std::iter::Extend>::extend(reggos_of_last_discover, %s)" % ids]
    cins = [s for s in g_.call_sites(r"LruCache::insert$") if render(g_.site_expr(s)[2][0]) == "self.cookies"]
    oks = [(s, e) for s, e in ret_exprs(g_) if e[0] == "agg" and e[3] == "Ok"]
    ctx.floor("get", "Ok result", oks, 1, exact=True)
    for s, e in oks:
        ge, gi = lib.count_range(g_, [0], [s.bb], lib.bbs(ext)), lib.count_range(g_, [0], [s.bb], lib.bbs(cins))
        order = bool(ext) and bool(cins) and g_.dominates(ext[0].bb, cins[0].bb)
        ctx.ob("get", "new cookie remembers old and new ids", ge == (1, 1) and gi == (1, 1) and order, ext[0].loc() if ext else s.loc(), "reggos_of_last_discover.extend(&ids) %s before cookies.insert %s" % (ge, gi))
        r = render(e)
        for x in cins:
            a_ = g_.site_expr(x)[2]
            nc = render(a_[1])
            ctx.ob("get", "the stored set belongs to the returned cookie", render(a_[2]) == "reggos_of_last_discover" and nc.startswith("libp2p_rendezvous::<codec::Cookie as std::clone::Clone>::clone(") and
                   r.endswith(", 1: %s}}" % nc[len("libp2p_rendezvous::<codec::Cookie as std::clone::Clone>::clone("):-1]), x.loc(), nc[:160])
        ctx.ob("get", "the returned registrations are those of the returned ids", r.startswith("std::result::Result::Ok{0: tuple{0: std::iter::Iterator::map(<std::vec::Vec as std::iter::IntoIterator>::into_iter(%s), closure:" % ids), s.loc(), r[:80])
    errs = [(s, e) for s, e in ret_exprs(g_) if e[0] == "agg" and e[3] == "Err"]
    CN = "std::option::Option::and_then(std::option::Option::as_ref(cookie), closure:"
    mism = truth_edges(g_, lambda r: r.startswith("std::cmp::impls::ne(std::option::Option::as_ref(discover_namespace)@Some.0, " + CN), True)
    got = lib.count_range(g_, [t for _, t in mism], grets, [s.bb for s, _ in errs]) if mism else None
    ctx.ob("get", "a cookie of another namespace is refused", got == (1, 1) and not any(x.bb in g_.reachable([t for _, t in mism]) for x in fm + cins), errs[0][0].loc() if errs else "", "Err on the namespace != cookie namespace edge: %s" % (got,))
    for s, e in errs:
        got = lib.count_range(g_, [0], [s.bb], lib.bbs(cins))
        ctx.ob("get", "a refused discover stores no cookie", got == (0, 0), s.loc(), str(got))
    # ================================================================= handle_request: discover serves what get returned
    hr = ctx.body(RZ, r"^libp2p_rendezvous::server::handle_request$")
    ga = hr.call_sites(R + r"get$")
    ad = hr.call_sites(R + r"add$")
    rmv = hr.call_sites(R + r"remove$")
    ctx.ob("request", "register / unregister / discover go through Registrations::{add, remove, get}", len(ga) == 1 and len(ad) == 1 and len(rmv) == 1, "%s:%d" % (hr.file, hr.line), "get %d add %d remove %d" % (len(ga), len(ad), len(rmv)))
    callers = {n: sorted({s.body.npath for s in prog.callers(RZ, R + n + "$")}) for n in ("add", "remove", "get")}
    ctx.ob("request", "the registration store is changed only by handle_request", all(v == [hr.npath] for v in callers.values()), msg=str(callers))
    who = {}
    for b in prog.bodies(RZ):
        if not b.npath.startswith("libp2p_rendezvous::server::"):
            continue
        for fld in ("registrations_for_peer", "registrations"):
            for s in lib.field_mut_calls(b, fld):
                who.setdefault(fld, set()).add(b.npath)
    allowed = {"libp2p_rendezvous::server::Registrations::" + n for n in ("add", "remove", "poll")}
    ctx.ob("request", "both maps are mutated only by add / remove / poll", all(v <= allowed for v in who.values()) and set(who) == {"registrations_for_peer", "registrations"}, msg=str({k: sorted(v) for k, v in who.items()}))
    # ================================================================= Cookie wire encoding
    enc = ctx.body(RZ, r"^libp2p_rendezvous::codec::Cookie::into_wire_encoding$")
    dec = ctx.body(RZ, r"^libp2p_rendezvous::codec::Cookie::from_wire_encoding$")
    e_calls = [render(enc.site_expr(s)) for s in enc.call_sites(r"extend_from_slice$")]
    ok_e = len(e_calls) == 2 and e_calls[0] == "std::vec::Vec::extend_from_slice(buffer, core::num::to_be_bytes(self.id))" and "std::string::String::as_bytes(" in e_calls[1] and "self.namespace" in e_calls[1] and \
        enc.dominates(enc.call_sites(r"extend_from_slice$")[0].bb, enc.call_sites(r"extend_from_slice$")[1].bb)
    d_txt = " ".join(render(dec.site_expr(s)) for s in dec.call_sites())
    ok_d = "core::num::from_be_bytes(" in d_txt and "std::vec::Vec::split_off(bytes, 8)" in d_txt
    ctx.ob("cookie", "id bytes: encode and decode agree", ok_e and ok_d, "%s:%d" % (enc.file, enc.line), "encode: %s | decode uses from_be_bytes + split_off(8): %s" % ([c[-70:] for c in e_calls], ok_d))
    oks = [(s, e) for s, e in ret_exprs(dec) if e[0] == "agg" and e[3] == "Ok"]
    for s, e in oks:
        ctx.guarded("cookie", "decoding needs at least the 8 id bytes", s, lambda c, r, l: (l == "false" and r == "Lt(std::vec::Vec::len(bytes), 8)") or (l == "true" and r == "Ge(std::vec::Vec::len(bytes), 8)"), "bytes.len() >= 8")
        r = render(e)
        ctx.ob("cookie", "decoded cookie = (id from the first 8 bytes, namespace from the rest)", "id: core::num::from_be_bytes(" in r and ", namespace: " in r, s.loc(), r[:160])
    so = dec.call_sites(r"Vec::split_off$")
    for s in oks[:1]:
        ok = bool(so) and dec.dominates(so[0].bb, s[0].bb)
        ctx.ob("cookie", "the namespace is split off before the id is read", ok, so[0].loc() if so else "", "")
    for fn in ("for_namespace", "for_all_namespaces"):
        b = ctx.body(RZ, r"^libp2p_rendezvous::codec::Cookie::%s$" % fn)
        r = [render(x) for _, x in ret_exprs(b)]
        ctx.ob("cookie", "%s creates a cookie with a random id" % fn, len(r) == 1 and r[0].startswith("libp2p_rendezvous::codec::Cookie::Cookie{id: rand::random()") and
               (("namespace: std::option::Option::Some{0: namespace}" in r[0]) if fn == "for_namespace" else ("namespace: std::option::Option::None{}" in r[0])), "%s:%d" % (b.file, b.line), r[0][:140] if r else "")
