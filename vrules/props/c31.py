"""C31 gossipsub RPC size limits are applied per frame — order / origin of the size operand (K3/K5), limits (K9), guards (K1), configuration plumbing by value flow (K5)."""
import re

from .. import lib, lib_gs2, mir
from ..lib_gs2 import Canon, rel_pred, var_pred, bool_pred, const_pred, result_edges
from ..mir import render, strip_generics

EXPLANATION = ("validate_rpc_limits(buf, max_size, max_publish, max_control) — parameters by position, locals by role: the length compared "
               "with parameter 2 is taken from `buf` only after consume_message_prefix reported a complete frame (so it is the length of "
               "exactly one frame, not of the read buffer) and before the field walk shrinks `buf`; the relation is len > max (a frame of "
               "exactly max is accepted); over-limit => Err; an incomplete frame yields Ok without any limit verdict; the counter compared "
               "with parameter 3 starts at 0, is incremented by one exactly once for every field with tag 2 and raises the error only when "
               "it is > max; the accumulator compared with parameter 4 adds (snapshot of buf before the tag).len() - buf.len() exactly once "
               "for every field with tag 1 or 3, error only when > max; other tags continue without a verdict; every failure of the wire "
               "walk is propagated (`?` or match); success only when the frame is exhausted. consume_message_prefix narrows the buffer to "
               "remaining[..message_length] only when remaining.len() >= message_length. GossipsubCodec::decode: validate_rpc_limits "
               "precedes the prost decode of the same buffer; its three limits are, by value flow through GossipsubCodec::new, the upgrade "
               "functions and the ConfigBuilder setters, the configured max_transmit_size / max_publish_messages / max_control_message_size; "
               "`need more bytes` (Ok(None)) is only returned after the inner prost_codec decoder, built with the same max_transmit_size and "
               "rejecting an announced length > max, has been consulted. A message is surfaced as valid only if it is not larger than its "
               "topic's max_transmit_size.")
ASSUMPTIONS = ["prost::encoding::{decode_key, skip_field} and unsigned_varint::decode::usize are trusted",
               "asynchronous_codec::Framed calls decode again while it returns Some (coalesced frames) and after more bytes arrived",
               "prost_codec::Codec::decode's own structure is checked under C57",
               "the accepted idiom for bounding an incomplete frame is delegation to prost_codec::Codec::decode (announced length > max => Err before waiting)",
               "the tag dispatch is a multi-way switch on the decoded tag (an if/else-if chain would need another rule)"]
G = "libp2p_gossipsub"
CONFIGS = [{"name": "gossipsub-features", "packages": ["libp2p-gossipsub"], "features": "metrics,partial-messages"}]
SELFTEST = [
    {"mutation": "size test moved back before consume_message_prefix (the original F6 defect)", "caught_by": "frame-size/size operand is the frame length (taken after consume_message_prefix succeeded)"},
    {"mutation": "`publish_count > max_publish_messages` -> `>=`", "caught_by": "publish/limit relation is count > max (max itself is accepted)"},
    {"mutation": "control arm `1 | 3` -> `3`", "caught_by": "control/every field with tag 1 is accounted once"},
    {"mutation": "`control_size += field_size` -> `control_size = field_size`", "caught_by": "control/accumulator starts at 0 and only ever adds the field size"},
    {"mutation": "decode: validate_rpc_limits(.., self.max_control_message_size, self.max_publish_messages) swapped", "caught_by": "plumbing/decode: limit 3 of validate_rpc_limits is the configured max_publish_messages"},
    {"mutation": "decode: early `return Ok(None)` when validate_rpc_limits sees an incomplete frame (skipping the inner length guard)", "caught_by": "decode/need-more-bytes only after the inner length guard"},
    {"mutation": "GossipsubCodec::new: Codec::new(max_control_message_size)", "caught_by": "plumbing/inner codec is built with the configured max_transmit_size"},
    {"mutation": "ConfigBuilder::max_control_message_size no longer updates protocol.max_control_message_size", "caught_by": "plumbing/ConfigBuilder::max_control_message_size reaches the codec"},
    {"mutation": "`message_length > max_message_size` -> `>=`", "caught_by": "frame-size/a frame of exactly max is accepted (relation is len > max)"},
    {"mutation": "consume_message_prefix: `remaining.len() < message_length` -> `<=`", "caught_by": "prefix/incomplete only if remaining.len() < message_length (a frame that exactly fills the buffer is complete)"},
    {"mutation": "neutral/gs/12 (reordered disjoint arms), 07 (mirrored comparisons)", "caught_by": "(silent, as required)"},
]
LEN1 = r"^core::slice::len\(\$1\)$"


def classify_returns(cx):
    ok, err = [], []
    for s, e in cx.returns():
        if e[0] == "agg" and e[3] == "Ok":
            ok.append(s.bb)
        else:
            err.append(s.bb)
    return ok, err


def may_edges(cx, pat, k):
    """edges of the multi-way switch(es) on an int expression matching pat on which the value k is possible."""
    rx = re.compile(pat)
    out = set()
    n = 0
    for bi in sorted(cx.b.live):
        sw = cx.switch(bi)
        if not sw or not rx.search(render(sw[0])):
            continue
        labs = sw[1]
        if not any(isinstance(l, int) for ls in labs.values() for l in ls):
            continue
        n += 1
        explicit = {l for ls in labs.values() for l in ls if isinstance(l, int)}
        for tgt, ls in labs.items():
            if k in ls or (k not in explicit and "otherwise" in ls):
                out.add((bi, tgt))
    return out, n


def field_param_map(cx, adt_pat):
    """{field name: parameter index} for the single construction of an ADT in a constructor body (field := $i)."""
    out = {}
    ags = cx.b.agg_sites(adt_pat)
    if len(ags) != 1:
        return out, ags
    for f, v in cx.site(ags[0])[4]:
        if v[0] == "arg":
            out[f] = v[1]
    return out, ags


def check(ctx):
    prog = ctx.prog
    v = ctx.body(G, r"^libp2p_gossipsub::protocol::validate_rpc_limits$")
    vw = "%s:%d" % (v.file, v.line)
    cv = Canon(prog, v, inline=r"^libp2p_gossipsub::")
    ctx.ob("frame-size", "floor:four parameters", v.argc == 4, vw, "argc=%d" % v.argc, nontrivial=False)
    pre = v.call_sites(r"prost_codec::consume_message_prefix$")
    tagc = v.call_sites(r"prost_codec::decode_field_tag$")
    skip = v.call_sites(r"prost_codec::consume_message$")
    ctx.floor("frame-size", "consume_message_prefix call", pre, 1, exact=True)
    ctx.floor("walk", "decode_field_tag call", tagc, 1, exact=True)
    ctx.floor("walk", "consume_message call", skip, 1, exact=True)
    if not (pre and tagc and skip):
        return
    for s in pre + tagc:
        a = render(cv.args(s)[0])
        ctx.ob("walk", "operates on buf", a == "$1", s.loc(), a)
    TAGRES = r"prost_codec::decode_field_tag\(\$1\)@Ok\.0"
    a = [render(x) for x in cv.args(skip[0])]
    ctx.ob("walk", "field is skipped with the wire type and tag just decoded", len(a) == 3 and a[2] == "$1" and re.match("^%s\\.1$" % TAGRES, a[0]) is not None and re.match("^%s\\.0$" % TAGRES, a[1]) is not None, skip[0].loc(), str(a)[:200])
    COMPLETE = r"^prost_codec::consume_message_prefix\(\$1\)@Ok\.0$"
    comp = cv.edges(bool_pred(COMPLETE, True))
    incomp = cv.edges(bool_pred(COMPLETE, False))
    ctx.ob("frame-size", "floor:complete / incomplete edges", bool(comp) and bool(incomp), nontrivial=False, msg="%s %s" % (sorted(comp), sorted(incomp)))
    ok_ret, err_ret = classify_returns(cv)
    rets = v.return_blocks()
    # ---- the size test: comparisons of something with parameter 2
    sz = []
    for bi in sorted(v.live):
        sw = cv.switch(bi)
        if not sw:
            continue
        cmp_, _ = lib_gs2._as_cmp(sw[0])
        if cmp_ and "$2" in (render(cmp_[1]), render(cmp_[2])):
            sz.append((bi, cmp_[1] if render(cmp_[2]) == "$2" else cmp_[2]))
    ctx.floor("frame-size", "comparison with the size limit (parameter 2)", sz, 1)
    over = cv.edges(rel_pred(LEN1, r"^\$2$", "Gt"))
    within = cv.edges(rel_pred(LEN1, r"^\$2$", "Le"))
    for bi, other in sz:
        loc = "%s:%d" % (v.file, v.blocks[bi]["term"].get("l", 0))
        ctx.ob("frame-size", "size operand is a length of buf", re.match(LEN1, render(other)) is not None, loc, render(other)[:100])
        lens = [s[3] for s in mir.walk(other) if s[0] == "call"]
        ok = bool(lens) and bool(comp) and all(v.must_pass_edges(lb, comp) for lb in lens)
        ctx.ob("frame-size", "size operand is the frame length (taken after consume_message_prefix succeeded)", ok, loc,
               "buf.len() is read after the complete-frame edge of consume_message_prefix" if ok else
               "buf.len() is read on a path that has not consumed the length prefix: the limit is applied to the whole read buffer (prefix + any coalesced frames)")
        ctx.ob("frame-size", "size operand is read before the field walk shrinks buf", not (set(lens) & v.reachable(lib.bbs(tagc))), loc, "len() not inside the field loop")
    ctx.ob("frame-size", "a frame of exactly max is accepted (relation is len > max)", bool(over) and bool(within), vw, "over-limit edges %s, within-limit edges %s" % (sorted(over), sorted(within)))
    for _, t in over:
        r = v.reachable([t])
        ctx.ob("frame-size", "over-limit frame => Err", not (set(ok_ret) & r) and bool(set(err_ret) & r), vw, "no Ok result reachable from the over-limit edge")
    ctx.ob("frame-size", "limits of the fields are only evaluated for an in-limit frame", bool(within) and v.must_pass_edges(tagc[0].bb, within), tagc[0].loc(), "field walk dominated by len <= max")
    for _, t in incomp:
        r = v.reachable([t])
        ctx.ob("frame-size", "incomplete frame => no verdict (Ok) without touching the limits", bool(set(ok_ret) & r) and not (set(err_ret) & r) and tagc[0].bb not in r, vw, "from the incomplete edge only Ok is reachable")
    # ---- error propagation of the wire walk
    for s, nm in ((pre[0], "consume_message_prefix"), (tagc[0], "decode_field_tag"), (skip[0], "consume_message")):
        _, er = result_edges(cv, s.bb)
        ok = bool(er)
        for _, t in er:
            r = v.reachable([t], stop_nodes=[s.bb])
            ok = ok and not (set(ok_ret) & r) and bool(set(err_ret) & r) and s.bb not in r
        ctx.ob("walk", "error of %s is propagated" % nm, ok, s.loc(), "the Err edge returns an error")
    # ---- success only when the frame is exhausted
    emp = cv.edges(rel_pred(LEN1, r"^0$", "Eq"))
    ctx.ob("walk", "floor:loop exit test", bool(emp), nontrivial=False, msg=str(sorted(emp)))
    after_walk = [b_ for b_ in ok_ret if comp and v.must_pass_edges(b_, comp)]
    ctx.floor("walk", "success result after the walk", after_walk, 1)
    for b_ in after_walk:
        ctx.ob("walk", "success only when every field of the frame was visited", bool(emp) and v.must_pass_edges(b_, emp), vw, "Ok dominated by buf.is_empty()")
    lib.precedes(ctx, "walk", "tag decoded before the field is skipped", v, lib.bbs(tagc), lib.bbs(skip), "decode_field_tag precedes consume_message", tagc[0].loc())
    head = sorted(emp)[0][0] if emp else None
    back = [head] if head is not None else []
    # ---- tag dispatch
    TAG = "^%s\\.0$" % TAGRES
    m1, nsw = may_edges(cv, TAG, 1)
    m2, _ = may_edges(cv, TAG, 2)
    m3, _ = may_edges(cv, TAG, 3)
    m_other, _ = may_edges(cv, TAG, 999983)
    ctx.ob("walk", "floor:tag dispatch", nsw == 1, vw, "%d multi-way switch(es) on the decoded tag" % nsw, nontrivial=False)
    for bi, _ in m2:
        lib.precedes(ctx, "walk", "field is consumed before it is classified", v, lib.bbs(skip), [bi], "consume_message precedes the tag match", skip[0].loc())
        break
    only = lambda ks: cv.edges(lambda a: (a[0] == "int" and re.search(TAG, a[1]) and a[2] <= set(ks)) or (a[0] == "rel" and a[1] == "Eq" and re.search(TAG, a[2]) and a[3] in {str(k) for k in ks}))
    # ---- publish count
    pcs = lib_gs2.locals_compared_with(cv, r"^\$3$")
    ctx.floor("publish", "counter compared with max_publish_messages (parameter 3)", pcs, 1, exact=True)
    if pcs:
        pc = pcs[0]
        cp_ = Canon(prog, v, {pc: "pc"}, inline=r"^libp2p_gossipsub::")
        prof = lib_gs2.counter_profile(cv, pc)
        ctx.ob("publish", "counter starts at 0 and only ever +1", prof == ["0", "AddWithOverflow(#, 1).0"], vw, str(prof))
        inc = [s for s, r in cv.defs(pc) if "AddWithOverflow" in r]
        over_p = cp_.edges(rel_pred(r"^pc$", r"^\$3$", "Gt"))
        in_p = cp_.edges(rel_pred(r"^pc$", r"^\$3$", "Le"))
        ctx.ob("publish", "limit relation is count > max (max itself is accepted)", bool(over_p) and bool(in_p), vw, "over %s within %s" % (sorted(over_p), sorted(in_p)))
        if inc:
            got = lib.count_range(v, [t for _, t in m2], back + rets, lib.bbs(inc)) if m2 else None
            ctx.ob("publish", "every field with tag 2 is counted once", got == (1, 1), inc[0].loc(), "increments per tag-2 field: %s" % (got,))
            ctx.ob("publish", "only fields with tag 2 are counted", all(cv.dominated(s.bb, only({2})) for s in inc), inc[0].loc(), "increment dominated by tag == 2")
            tests = sorted({bi for bi, _ in over_p | in_p})
            for bi in tests:
                got = lib.count_range(v, [t for _, t in m2], back + rets, [bi]) if m2 else None
                ctx.ob("publish", "every counted field is tested against the limit, after the increment", got == (1, 1) and v.must_pass_nodes([t for _, t in m2], [bi], lib.bbs(inc)), "%s:%d" % (v.file, v.blocks[bi]["term"].get("l", 0)), "tests per tag-2 field: %s" % (got,))
        arm_err = [b_ for b_ in err_ret if b_ in v.reachable([t for _, t in m2], stop_nodes=back)]
        ctx.floor("publish", "error raised in the tag-2 arm", arm_err, 1)
        for b_ in arm_err:
            ctx.ob("publish", "error only when count > max_publish_messages", bool(over_p) and v.must_pass_edges(b_, over_p), vw, "Err in the tag-2 arm dominated by count > max")
        for _, t in over_p:
            r = v.reachable([t], stop_nodes=back)
            ctx.ob("publish", "over the publish limit => Err", not (set(ok_ret) & r) and (head is None or head not in r) and bool(set(err_ret) & r), vw, "the over-limit edge leaves the loop with the error")
    # ---- control size
    css = lib_gs2.locals_compared_with(cv, r"^\$4$")
    ctx.floor("control", "accumulator compared with max_control_message_size (parameter 4)", css, 1, exact=True)
    if css:
        cs = css[0]
        cc_ = Canon(prog, v, {cs: "cs"}, inline=r"^libp2p_gossipsub::")
        prof = lib_gs2.counter_profile(cv, cs)
        ctx.ob("control", "accumulator starts at 0 and only ever adds the field size", len(prof) == 2 and prof[0] == "0" and re.match(r"^AddWithOverflow\((#, SubWithOverflow\(core::slice::len\(\$1\), core::slice::len\(\$1\)\)\.0|SubWithOverflow\(core::slice::len\(\$1\), core::slice::len\(\$1\)\)\.0, #)\)\.0$", prof[1]) is not None, vw, str(prof)[:200])
        cinc = [s for s, r in cv.defs(cs) if "AddWithOverflow" in r]
        over_c = cc_.edges(rel_pred(r"^cs$", r"^\$4$", "Gt"))
        in_c = cc_.edges(rel_pred(r"^cs$", r"^\$4$", "Le"))
        ctx.ob("control", "limit relation is size > max (max itself is accepted)", bool(over_c) and bool(in_c), vw, "over %s within %s" % (sorted(over_c), sorted(in_c)))
        # operands of the subtraction: first = snapshot of buf taken before the tag was decoded, second = buf after the skip
        if cinc:
            e = v.rvalue_expr(cinc[0].stmt["r"])
            subs = [x for x in mir.walk(e) if x[0] == "bin" and x[1] == "SubWithOverflow"]
            okops, det = False, ""
            if subs and subs[0][2][0] == "call" and subs[0][3][0] == "call":
                def read_of_param(call):
                    """block in which the value of parameter 1 that reaches this len() call is read (following copies)"""
                    t = v.blocks[call[3]]["term"]
                    l, at = t["args"][0]["p"]["l"], call[3]
                    for _ in range(8):
                        if 1 <= l <= v.argc:
                            return l, at
                        ds = v.defs.get(l, [])
                        if len(ds) == 1 and ds[0][0] == "stmt" and ds[0][3]["k"] in ("use", "ref", "copyderef"):
                            inner = (ds[0][3].get("o") or {}).get("p") or ds[0][3].get("p")
                            if not inner:
                                break
                            l, at = inner["l"], ds[0][1]
                        else:
                            break
                    return None, at
                (p0, at0), (p1, at1) = read_of_param(subs[0][2]), read_of_param(subs[0][3])
                hs = v.succ[head] if head is not None else [0]
                before_tag = at0 == tagc[0].bb or (v.must_pass_nodes(hs, lib.bbs(tagc), [at0]) and at0 not in v.reachable(v.succ[tagc[0].bb], stop_nodes=back))
                after_skip = at1 != skip[0].bb and v.must_pass_nodes(hs, [at1], lib.bbs(skip))
                okops = p0 == 1 and p1 == 1 and before_tag and after_skip
                det = "minuend reads buf before decode_field_tag: %s; subtrahend reads buf after consume_message: %s" % (before_tag, after_skip)
            ctx.ob("control", "field_size = (buf before the field).len() - (buf after the field).len()", okops, cinc[0].loc(), det)
            for k, mk in ((1, m1), (3, m3)):
                got = lib.count_range(v, [t for _, t in mk], back + rets, lib.bbs(cinc)) if mk else None
                ctx.ob("control", "every field with tag %d is accounted once" % k, got == (1, 1), cinc[0].loc(), "accumulations per tag-%d field: %s" % (k, got))
            ctx.ob("control", "only fields with tag 1 or 3 are accounted", all(cv.dominated(s.bb, only({1, 3})) for s in cinc), cinc[0].loc(), "accumulation dominated by tag in {1,3}")
            tests = sorted({bi for bi, _ in over_c | in_c})
            m13 = [t for _, t in m1 | m3]
            for bi in tests:
                got = lib.count_range(v, m13, back + rets, [bi]) if m13 else None
                ctx.ob("control", "every accounted field is tested against the limit, after the accumulation", got == (1, 1) and v.must_pass_nodes(m13, [bi], lib.bbs(cinc)), "%s:%d" % (v.file, v.blocks[bi]["term"].get("l", 0)), "tests per field: %s" % (got,))
        arm_err = [b_ for b_ in err_ret if b_ in v.reachable([t for _, t in m1 | m3], stop_nodes=back)]
        ctx.floor("control", "error raised in the tag-1|3 arm", arm_err, 1)
        for b_ in arm_err:
            ctx.ob("control", "error only when size > max_control_message_size", bool(over_c) and v.must_pass_edges(b_, over_c), vw, "Err in the tag-1|3 arm dominated by size > max")
        for _, t in over_c:
            r = v.reachable([t], stop_nodes=back)
            ctx.ob("control", "over the control limit => Err", not (set(ok_ret) & r) and (head is None or head not in r) and bool(set(err_ret) & r), vw, "the over-limit edge leaves the loop with the error")
    if head is not None:
        for _, t in m_other:
            r = v.reachable([t], stop_nodes=[head])
            ctx.ob("walk", "unknown fields are skipped without a verdict", head in r and not (set(err_ret) & r) and not (set(ok_ret) & r), vw, "other tags continue the loop")
    # ---- consume_message_prefix (prost_codec)
    P = "prost_codec"
    cp = ctx.body(P, r"^prost_codec::consume_message_prefix$")
    ccp = Canon(prog, cp, inline=r"^prost_codec::")
    cpw = "%s:%d" % (cp.file, cp.line)
    st_true = [s for s, e in ccp.returns() if render(e) == "std::result::Result::Ok{0: 1}"]
    ctx.floor("prefix", "consume_message_prefix Ok(true)", st_true, 1, exact=True)
    LEN, REM = r"unsigned_varint::decode::usize\(\$1\)@Ok\.0\.0", r"unsigned_varint::decode::usize\(\$1\)@Ok\.0\.1"
    enough = ccp.edges(rel_pred(r"^core::slice::len\(%s\)$" % REM, "^%s$" % LEN, "Ge"))
    for s in st_true:
        ctx.ob("prefix", "complete only if remaining.len() >= message_length", ccp.dominated(s.bb, enough), s.loc(), "Ok(true) dominated by remaining.len() >= message_length")
    short = ccp.edges(rel_pred(r"^core::slice::len\(%s\)$" % REM, "^%s$" % LEN, "Lt"))
    varint_ok = ccp.edges(var_pred(r"^unsigned_varint::decode::usize\(\$1\)$", {"Ok"}))
    st_false = [s for s, e in ccp.returns() if render(e) == "std::result::Result::Ok{0: 0}" and varint_ok and cp.must_pass_edges(s.bb, varint_ok)]
    ctx.floor("prefix", "`incomplete` result after the length was decoded", st_false, 1)
    for s in st_false:
        ctx.ob("prefix", "incomplete only if remaining.len() < message_length (a frame that exactly fills the buffer is complete)", ccp.dominated(s.bb, short), s.loc(), "Ok(false) dominated by remaining.len() < message_length")
    wr = [x for x in cp.defs.get((1, "partial"), []) if x[0] == "stmt"]
    ctx.floor("prefix", "*buf = ..", wr, 1, exact=True)
    for x in wr:
        r = ccp.r(cp.rvalue_expr(x[3]))
        site = mir.Site(cp, x[1], x[2])
        ctx.ob("prefix", "buffer is narrowed to exactly one frame: remaining[..message_length]",
               re.match(r"^core::slice::index::index\(%s, std::ops::RangeTo::RangeTo\{end: %s\}\)$" % (REM, LEN), r) is not None, site.loc(), r[:200])
        if st_true:
            ctx.ob("prefix", "Ok(true) implies the buffer was narrowed", cp.must_pass_nodes([0], lib.bbs(st_true), [x[1]]), site.loc(), "*buf assigned on every path to Ok(true)")
    ins = ccp.edges(var_pred(r"^unsigned_varint::decode::usize\(\$1\)@Err\.0$", {"Insufficient"}))
    for _, t in ins:
        r = cp.reachable([t])
        vals = {render(e) for s, e in ccp.returns() if s.bb in r}
        ctx.ob("prefix", "an incomplete length prefix is `not yet`, not an error", vals == {"std::result::Result::Ok{0: 0}"}, cpw, str(sorted(vals)))
    ctx.ob("prefix", "floor:Insufficient arm", bool(ins), nontrivial=False, msg=str(sorted(ins)))
    # ---- GossipsubCodec::new: field <- parameter map
    n = ctx.body(G, r"^libp2p_gossipsub::protocol::GossipsubCodec::new$")
    cn = Canon(prog, n)
    fmap, ag = field_param_map(cn, r"protocol::GossipsubCodec$")
    ctx.floor("plumbing", "GossipsubCodec construction", ag, 1, exact=True)
    codec_fields = {}
    if ag:
        for f, e in cn.site(ag[0])[4]:
            if e[0] == "call" and re.search(r"prost_codec::Codec::new$", strip_generics(e[1])) and e[2] and e[2][0][0] == "arg":
                codec_fields[f] = e[2][0][1]
    agall = [s for b in prog.bodies(G) for s in b.agg_sites(r"protocol::GossipsubCodec$")]
    ctx.ob("plumbing", "GossipsubCodec is only built by GossipsubCodec::new", len(agall) == 1, msg="%d construction site(s)" % len(agall))
    # ---- the public configuration names -> ProtocolConfig fields (setters) -> GossipsubCodec::new positions (upgrades)
    setters = {}
    for setter in ("max_transmit_size", "max_publish_messages", "max_control_message_size"):
        b = ctx.body(G, r"config::ConfigBuilder::%s$" % setter)
        cb_ = Canon(prog, b)
        flds = []
        for f in {pr["n"] for bi in b.live for st in b.blocks[bi]["stmts"] if st["k"] == "assign" for pr in st["p"].get("pr", ()) if pr["k"] == "field"}:
            for s in b.field_write_sites(f, r"protocol::ProtocolConfig"):
                if s.si is not None and render(cb_.site(s)) == "$2":
                    flds.append(f)
        setters[setter] = sorted(set(flds))
    pos_of = {}
    ups = []
    for fn in ("InboundUpgrade>::upgrade_inbound", "OutboundUpgrade>::upgrade_outbound"):
        u = ctx.body(G, r"protocol::ProtocolConfig as libp2p_core::%s$" % fn)
        cu = Canon(prog, u)
        cs_ = u.call_sites(r"protocol::GossipsubCodec::new$")
        ctx.floor("plumbing", "%s builds the codec" % fn.split("::")[-1], cs_, 1, exact=True)
        for s in cs_:
            m = {}
            for i, a_ in enumerate(cu.args(s)):
                mm = re.match(r"^\$1\.(\w+)$", render(a_))
                if mm:
                    m[mm.group(1)] = i + 1
            ups.append((fn.split("::")[-1], s, m))
    newc = prog.callers(G, r"protocol::GossipsubCodec::new$")
    ctx.ob("plumbing", "codec constructors are the two upgrades", sorted(s.body.npath.split("::")[-1] for s in newc) == ["upgrade_inbound", "upgrade_outbound"], msg=str(sorted(s.body.npath for s in newc)))
    # parameter position of GossipsubCodec::new reached by each public setting, must agree on both upgrades
    for setter, flds in setters.items():
        poss = set()
        for nm, s, m in ups:
            poss.add(tuple(sorted(m[f] for f in flds if f in m)))
        ok = len(flds) == 1 and len(poss) == 1 and len(next(iter(poss))) == 1
        pos_of[setter] = next(iter(poss))[0] if ok else None
        ctx.ob("plumbing", "ConfigBuilder::%s reaches the codec" % setter, ok, msg="ProtocolConfig field(s) %s -> GossipsubCodec::new parameter %s on both upgrades" % (flds, sorted(poss)))
    pc_ = ctx.body(G, r"config::Config::protocol_config$")
    r0 = [render(e) for _, e in Canon(prog, pc_).returns()]
    ctx.ob("plumbing", "the handler's ProtocolConfig is the validated Config's", len(r0) == 1 and re.match(r"^\$1\.\w+$", r0[0]) is not None, "%s:%d" % (pc_.file, pc_.line), str(r0)[:160])
    # ---- GossipsubCodec::decode
    d = ctx.body(G, r"protocol::GossipsubCodec as asynchronous_codec::Decoder>::decode$")
    cd = Canon(prog, d)
    dw = "%s:%d" % (d.file, d.line)
    vc = d.call_sites(r"protocol::validate_rpc_limits$")
    ic = d.call_sites(r"prost_codec::Codec as asynchronous_codec::Decoder>::decode$")
    ctx.floor("decode", "validate_rpc_limits call", vc, 1, exact=True)
    ctx.floor("decode", "inner prost decode call", ic, 1, exact=True)
    allv = prog.callers(G, r"protocol::validate_rpc_limits$")
    ctx.ob("decode", "validate_rpc_limits has exactly this caller", [s.body.npath for s in allv] == [d.npath], dw, str([s.body.npath for s in allv]))
    if vc and ic:
        lib.precedes(ctx, "decode", "limits are validated before the RPC is decoded (allocated)", d, lib.bbs(vc), lib.bbs(ic), "validate_rpc_limits precedes Codec::decode", vc[0].loc())
        a = cd.args(vc[0])
        ctx.ob("plumbing", "decode validates the read buffer", len(a) == 4 and render(a[0]) == "$2", vc[0].loc(), render(a[0])[:120] if a else "")
        for k, setter in ((1, "max_transmit_size"), (2, "max_publish_messages"), (3, "max_control_message_size")):
            mm = re.match(r"^\$1\.(\w+)$", render(a[k])) if len(a) == 4 else None
            got = fmap.get(mm.group(1)) if mm else None
            ctx.ob("plumbing", "decode: limit %d of validate_rpc_limits is the configured %s" % (k + 1, setter), got is not None and got == pos_of.get(setter), vc[0].loc(),
                   "argument %s = constructor parameter %s; %s arrives at parameter %s" % (render(a[k])[:60] if len(a) == 4 else "?", got, setter, pos_of.get(setter)))
        ia = cd.args(ic[0])
        mm = re.match(r"^\$1\.(\w+)$", render(ia[0])) if ia else None
        ctx.ob("plumbing", "the buffer validated is the buffer decoded", len(ia) == 2 and render(ia[1]) == "$2" and mm is not None, ic[0].loc(), str([render(x) for x in ia]))
        ctx.ob("plumbing", "inner codec is built with the configured max_transmit_size", mm is not None and codec_fields.get(mm.group(1)) is not None and codec_fields.get(mm.group(1)) == pos_of.get("max_transmit_size"), ic[0].loc(),
               "codec field built from constructor parameter %s; max_transmit_size arrives at parameter %s" % (codec_fields.get(mm.group(1)) if mm else None, pos_of.get("max_transmit_size")))
        _, er = result_edges(cd, vc[0].bb)
        ok_d, err_d = classify_returns(cd)
        for _, t in er:
            r = d.reachable([t])
            ctx.ob("decode", "a limit violation fails the decode", ic[0].bb not in r and not (set(ok_d) & r) and bool(set(err_d) & r), vc[0].loc(), "the Err edge returns the error without decoding")
        ctx.ob("decode", "floor:limit violation edge", bool(er), nontrivial=False, msg=str(sorted(er)))
        none_ret = [s for s, e in cd.returns() if render(e) == "std::result::Result::Ok{0: std::option::Option::None{}}"]
        ctx.floor("decode", "`need more bytes` result", none_ret, 1)
        none_edges = set()
        for bi, tgt, at in cd.atoms():
            if at[0] == "var" and at[2] <= {"None"}:
                sw = cd.switch(bi)
                inner = sw[0][1] if sw[0][0] == "discr" else None
                while inner is not None and inner[0] in ("downcast", "field"):
                    inner = inner[1]
                if inner is not None and inner[0] == "call" and inner[3] == ic[0].bb:
                    none_edges.add((bi, tgt))
        for s in none_ret:
            ok = bool(none_edges) and d.must_pass_edges(s.bb, none_edges)
            ctx.ob("decode", "need-more-bytes only after the inner length guard", ok, s.loc(),
                   "Ok(None) is returned only when prost_codec::Codec::decode (which rejects an announced length > max before waiting) returned None" if ok else
                   "a path returns Ok(None) without consulting prost_codec::Codec::decode: a frame announcing more than the maximum keeps being buffered instead of being rejected")
    # inner guard present in prost_codec (reference; structure is C57's)
    pd = ctx.body(P, r"Codec as asynchronous_codec::Decoder>::decode$")
    cpd = Canon(prog, pd)
    pn = ctx.body(P, r"^prost_codec::Codec::new$")
    pmap, pag = field_param_map(Canon(prog, pn), r"prost_codec::Codec$")
    maxf = [f for f, i in pmap.items() if i == 1]
    ctx.ob("decode", "floor:prost_codec::Codec::new stores its limit", len(maxf) == 1, msg=str(pmap), nontrivial=False)
    if maxf:
        og = cpd.edges(rel_pred(r"^unsigned_varint::decode::usize\(.*\)@Ok\.0\.0$", r"^\$1\.%s$" % maxf[0], "Gt"))
        ctx.ob("decode", "inner decoder rejects announced length > its limit", bool(og), "%s:%d" % (pd.file, pd.line), "%d over-limit edge(s)" % len(og))
        okp, errp = classify_returns(cpd)
        for _, t in og:
            r = pd.reachable([t])
            ctx.ob("decode", "inner over-limit edge => Err", not (set(okp) & r) and bool(set(errp) & r), "%s:%d" % (pd.file, pd.line), "no Ok reachable")
    # ---- per-topic limit
    roles = {}
    for s, e in cd.returns():
        for a_ in mir.walk(e):
            if a_[0] == "agg" and a_[1] == "adt" and re.search(r"types::RpcIn$", strip_generics(a_[2])):
                for f, v_ in a_[4]:
                    if f == "messages" and v_[0] == "local":
                        roles[v_[1]] = "messages"
    cdr = Canon(prog, d, roles)
    pushes = [s for s in d.call_sites(r"Vec::push$") if render(cdr.args(s)[0]) == "messages"]
    ctx.floor("topic-limit", "push into RpcIn.messages", pushes, 1, exact=True)
    BIG = r"^std::option::Option::is_some_and\(libp2p_gossipsub::protocol::GossipsubCodec::max_transmit_size_for_topic\(\$1, libp2p_gossipsub::topic::TopicHash::from_raw\((.*)@Some\.0\.topic\)\), closure:"
    for s in pushes:
        ctx.ob("topic-limit", "valid only if not larger than the topic's max_transmit_size", cdr.dominated(s.bb, cdr.edges(bool_pred(BIG, False))), s.loc(), "!max_transmit_size_for_topic(topic).is_some_and(|max| encoded_len > max)")
    for bi in sorted(d.live):
        sw = cdr.switch(bi)
        if not sw:
            continue
        mm = re.match(BIG, render(sw[0]))
        if not mm:
            continue
        elem = mm.group(1) + "@Some.0"
        for cl in cdr.closures_in(d.switch_info(bi)[0]):
            rets_ = cl.returns()
            ok = len(rets_) == 1 and any(rel_pred(r"encoded_len\(%s\)$" % re.escape(elem), r"^c\$2$", "Gt")(a_) for a_ in lib_gs2.atoms_of(rets_[0][1], {"true"}))
            ctx.ob("topic-limit", "message of exactly the topic's maximum is accepted (encoded_len(message) > max)", ok, "%s:%d" % (cl.b.file, cl.b.line), str([render(e) for _, e in rets_])[:200])
    mt = ctx.body(G, r"protocol::GossipsubCodec::max_transmit_size_for_topic$")
    r0 = [render(e) for _, e in Canon(prog, mt).returns()]
    ctx.ob("topic-limit", "topic limit is looked up by topic in the per-topic table", len(r0) == 1 and re.match(r"^std::collections::HashMap::get\(\$1\.\w+, \$2\)$", r0[0]) is not None, "%s:%d" % (mt.file, mt.line), str(r0))
