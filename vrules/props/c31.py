"""C31 gossipsub RPC size limits are applied per frame — order / origin of the size operand (K3/K5), limits (K9), guards (K1), configuration plumbing (K5)."""
import re

from .. import lib, mir
from ..mir import render

EXPLANATION = ("validate_rpc_limits: the length compared with max_message_size is taken from `buf` only after consume_message_prefix "
               "returned true (so it is the length of exactly one frame, not of the read buffer) and before the field walk mutates `buf`; "
               "over-limit => Err on every path; an incomplete frame yields Ok without any limit verdict; publish_count starts at 0, is "
               "incremented by one exactly in the tag-2 arm and the error is raised only on publish_count > max_publish_messages; "
               "control_size accumulates (field_start.len() - buf.len()) exactly in the tag 1|3 arm, error only on control_size > "
               "max_control_message_size; every `?` failure of the wire walk is propagated; the function reports success only when the "
               "frame is exhausted. consume_message_prefix narrows the buffer to remaining[..message_length] only when remaining.len() >= "
               "message_length. GossipsubCodec::decode: validate_rpc_limits precedes the prost decode, receives src and the codec's own "
               "three limits in the right positions; `need more bytes` (Ok(None)) is only returned after the inner prost_codec decoder, "
               "whose announced-length guard (`message_length > max` => Err) uses the same global_max_transmit_size, has been consulted. "
               "GossipsubCodec::new / upgrade_inbound / upgrade_outbound / ConfigBuilder setters route each configured limit to the "
               "parameter of the same meaning. Per-topic limits: a message is surfaced as valid only if it is not larger than its topic's "
               "max_transmit_size.")
ASSUMPTIONS = ["prost::encoding::{decode_key, skip_field} and unsigned_varint::decode::usize are trusted",
               "asynchronous_codec::Framed calls decode again while it returns Some (coalesced frames) and after more bytes arrived",
               "prost_codec::Codec::decode's own structure is checked under C57",
               "the accepted idiom for bounding an incomplete frame is delegation to prost_codec::Codec::decode (announced length > max => Err before waiting)"]
G = "libp2p_gossipsub"
CONFIGS = [{"name": "gossipsub-features", "packages": ["libp2p-gossipsub"], "features": "metrics,partial-messages"}]
SELFTEST = [
    {"mutation": "size test moved back before consume_message_prefix (the original F6 defect)", "caught_by": "frame-size/size operand is the frame length (taken after consume_message_prefix succeeded)"},
    {"mutation": "`publish_count > max_publish_messages` -> `>=`", "caught_by": "publish/error only when publish_count > max_publish_messages"},
    {"mutation": "control arm `1 | 3` -> `3`", "caught_by": "walk/tag arms"},
    {"mutation": "`control_size += field_size` -> `control_size = field_size`", "caught_by": "control/control_size accumulates the field sizes"},
    {"mutation": "decode: validate_rpc_limits(.., self.max_control_message_size, self.max_publish_messages) swapped", "caught_by": "plumbing/decode passes the codec's limits in order"},
    {"mutation": "decode: early `return Ok(None)` when validate_rpc_limits sees an incomplete frame (skipping the inner length guard)", "caught_by": "decode/need-more-bytes only after the inner length guard"},
    {"mutation": "GossipsubCodec::new: Codec::new(max_control_message_size)", "caught_by": "plumbing/inner codec is built with global_max_transmit_size"},
    {"mutation": "ConfigBuilder::max_control_message_size no longer updates protocol.max_control_message_size", "caught_by": "plumbing/ConfigBuilder::max_control_message_size sets protocol.max_control_message_size"},
    {"mutation": "`message_length > max_message_size` -> `>=`", "caught_by": "frame-size/a frame of exactly max_message_size is accepted (relation is len > max)"},
    {"mutation": "consume_message_prefix: `remaining.len() < message_length` -> `<=`", "caught_by": "prefix/complete only if remaining.len() >= message_length"},
]


def try_edges(b, site, label):
    """Edges labelled `label` (Continue / Break) of the `?` applied directly to the call at `site`."""
    out = set()
    for bi in b.live:
        info = b.switch_info(bi)
        if not info:
            continue
        c = info[0]
        if c[0] == "discr" and c[1][0] == "call" and re.search(r"Try>::branch$", mir.strip_generics(c[1][1])) and c[1][2] and c[1][2][0][0] == "call" and c[1][2][0][3] == site.bb:
            for t, ls in info[1].items():
                if ls == {label}:
                    out.add((bi, t))
    return out


def sw_on(b, pat):
    rx = re.compile(pat)
    return [bi for bi in sorted(b.live) if b.switch_info(bi) and rx.search(render(b.switch_info(bi)[0]))]


def check(ctx):
    prog = ctx.prog
    v = ctx.body(G, r"^libp2p_gossipsub::protocol::validate_rpc_limits$")
    vw = "%s:%d" % (v.file, v.line)
    # argument names (positions are what decode's call is checked against)
    names = [v.names.get(i) for i in range(1, v.argc + 1)]
    ctx.ob("frame-size", "floor:parameters", names == ["buf", "max_message_size", "max_publish_messages", "max_control_message_size"], vw, str(names), nontrivial=False)
    pre = v.call_sites(r"prost_codec::consume_message_prefix$")
    ctx.floor("frame-size", "consume_message_prefix call", pre, 1, exact=True)
    tagc = v.call_sites(r"prost_codec::decode_field_tag$")
    skip = v.call_sites(r"prost_codec::consume_message$")
    ctx.floor("walk", "decode_field_tag call", tagc, 1, exact=True)
    ctx.floor("walk", "consume_message call", skip, 1, exact=True)
    if not (pre and tagc and skip):
        return
    for s in pre + tagc:
        a = render(v.site_expr(s)[2][0])
        ctx.ob("walk", "operates on buf", a == "buf", s.loc(), a)
    a = [render(x) for x in v.site_expr(skip[0])[2]]
    ctx.ob("walk", "field is skipped with the wire type and tag just decoded", len(a) == 3 and a[2] == "buf" and a[0].endswith("decode_field_tag(buf))@Continue.0.1") and a[1].endswith("decode_field_tag(buf))@Continue.0.0"), skip[0].loc(), str(a)[:200])
    # complete-frame edge
    comp = lib.switch_edges_on_site(v, pre[0], {"true"}, r"@Continue\.0$")
    incomp = lib.switch_edges_on_site(v, pre[0], {"false"}, r"@Continue\.0$")
    ctx.ob("frame-size", "floor:complete / incomplete edges", len(comp) == 1 and len(incomp) == 1, nontrivial=False, msg="%s %s" % (sorted(comp), sorted(incomp)))
    # ---- the size test
    sz = [bi for bi in sw_on(v, r"^(Gt|Ge|Lt|Le)\(") if "max_message_size" in render(v.switch_info(bi)[0])]
    ctx.floor("frame-size", "comparison with max_message_size", sz, 1)
    rets = v.return_blocks()
    ok_ret = []       # blocks assigning Ok to the return place
    err_ret = []
    for x in v.defs[0]:
        if x[0] == "stmt":
            r = render(v.rvalue_expr(x[3]))
            (ok_ret if r.startswith("std::result::Result::Ok") else err_ret).append(x[1])
        else:
            err_ret.append(x[1])
    for bi in sz:
        cond, labs = v.switch_info(bi)
        loc = "%s:%d" % (v.file, v.blocks[bi]["term"].get("l", 0))
        op, lhs, rhs = cond[1], cond[2], cond[3]
        rl, rr = render(lhs), render(rhs)
        if rr == "max_message_size":
            norm, other = op, lhs
        else:
            norm, other = {"Gt": "Lt", "Lt": "Gt", "Ge": "Le", "Le": "Ge"}[op], rhs
        ctx.ob("frame-size", "size operand is a length of buf", render(other) == "core::slice::len(buf)" and (rl == "max_message_size" or rr == "max_message_size"), loc, "%s(%s, %s)" % (op, rl, rr))
        lens = [s[3] for s in mir.walk(other) if s[0] == "call"]
        ok = bool(lens) and bool(comp) and all(v.must_pass_edges(lb, comp) for lb in lens)
        ctx.ob("frame-size", "size operand is the frame length (taken after consume_message_prefix succeeded)", ok, loc,
               "buf.len() is read after the complete-frame edge of consume_message_prefix" if ok else
               "buf.len() is read on a path that has not consumed the length prefix: the limit is applied to the whole read buffer (prefix + any coalesced frames)")
        walk_r = v.reachable(lib.bbs(tagc))
        ctx.ob("frame-size", "size operand is read before the field walk shrinks buf", not (set(lens) & walk_r), loc, "len() not inside the field loop")
        # exact relation: reject iff len > max
        over = {"Gt": "true", "Le": "false"}.get(norm)
        ctx.ob("frame-size", "a frame of exactly max_message_size is accepted (relation is len > max)", over is not None, loc, "relation %s" % norm)
        if over is None:
            continue
        t_over = [t for t, ls in labs.items() if over in ls]
        t_in = [t for t, ls in labs.items() if over not in ls]
        r = v.reachable(t_over)
        ctx.ob("frame-size", "over-limit frame => Err", not (set(ok_ret) & r) and bool(set(err_ret) & r), loc, "no Ok result reachable from the over-limit edge")
        # the walk is only entered within the limit
        ctx.ob("frame-size", "limits of the fields are only evaluated for an in-limit frame", v.must_pass_edges(tagc[0].bb, {(bi, t) for t in t_in}), tagc[0].loc(), "field walk dominated by the in-limit edge")
    # incomplete frame: Ok, and no error verdict
    for _, t in incomp:
        r = v.reachable([t])
        ctx.ob("frame-size", "incomplete frame => no verdict (Ok) without touching the limits", bool(set(ok_ret) & r) and not (set(err_ret) & r) and tagc[0].bb not in r, vw, "from the incomplete edge only Ok is reachable")
    # ---- `?` propagation
    for s, nm in ((pre[0], "consume_message_prefix"), (tagc[0], "decode_field_tag"), (skip[0], "consume_message")):
        br = try_edges(v, s, "Break")
        ok = len(br) == 1
        if ok:
            t = list(br)[0][1]
            r = v.reachable([t])
            ok = not (set(ok_ret) & r) and any(re.search(r"from_residual$", mir.strip_generics(v.call_name(v.blocks[x]["term"]))) for x in r if v.blocks[x]["term"] and v.blocks[x]["term"]["k"] == "call")
        ctx.ob("walk", "error of %s is propagated" % nm, ok, s.loc(), "Break edge returns the residual")
    # ---- success only when the frame is exhausted
    emp = lib.switch_edges_on(v, r"^core::slice::is_empty\(buf\)$", {"true"})
    ctx.ob("walk", "floor:loop exit test", len(emp) == 1, nontrivial=False, msg=str(sorted(emp)))
    after_walk = [b for b in ok_ret if comp and v.must_pass_edges(b, comp)]
    ctx.floor("walk", "success result after the walk", after_walk, 1)
    for b in after_walk:
        ctx.ob("walk", "success only when every field of the frame was visited", bool(emp) and v.must_pass_edges(b, emp), "%s:%d" % (v.file, v.blocks[b]["stmts"][0].get("l", 0) if v.blocks[b]["stmts"] else v.line), "Ok dominated by buf.is_empty()")
    # loop: every iteration decodes a tag then skips the field
    lib.precedes(ctx, "walk", "tag decoded before the field is skipped", v, lib.bbs(tagc), lib.bbs(skip), "decode_field_tag precedes consume_message", tagc[0].loc())
    # ---- tag dispatch
    tsw = sw_on(v, r"decode_field_tag\(buf\)\)@Continue\.0\.0$")
    ctx.floor("walk", "tag dispatch", tsw, 1, exact=True)
    arms = {}
    if tsw:
        for t, ls in v.switch_info(tsw[0])[1].items():
            arms[frozenset(ls)] = t
        ctx.ob("walk", "tag arms", set(arms) == {frozenset({2}), frozenset({1, 3}), frozenset({"otherwise"})}, "%s:%d" % (v.file, v.blocks[tsw[0]]["term"].get("l", 0)),
               "arms %s (expected publish=2, subscriptions/control=1|3, otherwise)" % sorted(map(sorted, [list(map(str, k)) for k in arms])))
        lib.precedes(ctx, "walk", "field is consumed before it is classified", v, lib.bbs(skip), tsw, "consume_message precedes the tag match", skip[0].loc())
    head = emp and list(emp)[0][0]
    # ---- publish count
    pc = lib.local_by_name(v, "publish_count")
    defs = sorted(render(v.rvalue_expr(x[3])) for x in v.defs[pc] if x[0] == "stmt")
    ctx.ob("publish", "publish_count starts at 0 and only ever +1", defs == ["0", "AddWithOverflow(publish_count, 1).0"], vw, str(defs))
    inc = [mir.Site(v, x[1], x[2]) for x in v.defs[pc] if x[0] == "stmt" and "AddWithOverflow" in render(v.rvalue_expr(x[3]))]
    perr = [s for s in v.call_sites(r"io::Error::new$|io::error::Error::new$") if "too many publish messages" in render(v.site_expr(s))]
    ctx.floor("publish", "'too many publish messages' error", perr, 1, exact=True)
    pa = arms.get(frozenset({2}))
    if inc and pa is not None and head is not False:
        back = [head] if head else []
        got = lib.count_range(v, [pa], back + rets, lib.bbs(inc))
        ctx.ob("publish", "every publish field is counted once", got == (1, 1), inc[0].loc(), "increments on the tag-2 arm per iteration: %s" % (got,))
        ctx.ob("publish", "only publish fields are counted", all(v.must_pass_edges(s.bb, {(tsw[0], pa)}) for s in inc), inc[0].loc(), "increment dominated by tag == 2")
        psw = [bi for bi in sw_on(v, r"^(Gt|Ge|Lt|Le|Eq|Ne)\(") if "publish_count" in render(v.switch_info(bi)[0])]
        ctx.floor("publish", "publish_count comparison", psw, 1, exact=True)
        for bi in psw:
            ctx.ob("publish", "count is tested after the increment, in the same iteration", v.must_pass_nodes([pa], [bi], lib.bbs(inc)) and bi in v.reachable([pa], stop_nodes=back), "%s:%d" % (v.file, v.blocks[bi]["term"].get("l", 0)), "increment precedes test")
            got = lib.count_range(v, [pa], back + rets, [bi])
            ctx.ob("publish", "every counted publish field is tested against the limit", got == (1, 1), "%s:%d" % (v.file, v.blocks[bi]["term"].get("l", 0)), "tests per iteration: %s" % (got,))
    for s in perr:
        ctx.guarded("publish", "error only when publish_count > max_publish_messages", s,
                    lambda c, r, l: (l == "true" and r == "Gt(publish_count, max_publish_messages)") or (l == "false" and r == "Le(publish_count, max_publish_messages)") or
                                    (l == "true" and r == "Lt(max_publish_messages, publish_count)") or (l == "false" and r == "Ge(max_publish_messages, publish_count)"),
                    "publish_count > max_publish_messages (max_publish_messages fields are accepted)")
    over_p = lib.switch_edges_on(v, r"^Gt\(publish_count, max_publish_messages\)$", {"true"}) | lib.switch_edges_on(v, r"^Le\(publish_count, max_publish_messages\)$", {"false"})
    for _, t in over_p:
        r = v.reachable([t], stop_nodes=[head] if head else [])
        ctx.ob("publish", "over the publish limit => Err", not (set(ok_ret) & r) and (not head or head not in r) and bool(set(lib.bbs(perr)) & r), vw, "the over-limit edge leaves the loop with the error")
    # ---- control size
    cs = lib.local_by_name(v, "control_size")
    cdefs = sorted(render(v.rvalue_expr(x[3])) for x in v.defs[cs] if x[0] == "stmt")
    ctx.ob("control", "control_size accumulates the field sizes", len(cdefs) == 2 and cdefs[0] == "0" and re.match(r"^AddWithOverflow\(control_size, SubWithOverflow\(core::slice::len\(buf\), core::slice::len\(buf\)\)\.0\)\.0$", cdefs[1]) is not None, vw, str(cdefs)[:200])
    cinc = [mir.Site(v, x[1], x[2]) for x in v.defs[cs] if x[0] == "stmt" and "AddWithOverflow" in render(v.rvalue_expr(x[3]))]
    cerr = [s for s in v.call_sites(r"io::Error::new$|io::error::Error::new$") if "rpc control size exceeds" in render(v.site_expr(s))]
    ctx.floor("control", "'rpc control size exceeds max control message size' error", cerr, 1, exact=True)
    ca = arms.get(frozenset({1, 3}))
    # field_size = field_start.len() - buf.len(): field_start is the snapshot taken before the tag was decoded, buf.len() is read after the skip
    fs = [k for k, n in v.names.items() if n == "field_start"]
    fdef = [x for l in fs for x in v.defs.get(l, [])]
    ok = len(fdef) == 1 and fdef[0][0] == "stmt" and render(v.rvalue_expr(fdef[0][3])) == "buf"
    ctx.ob("control", "field_start is a snapshot of buf", ok, vw, str([render(v.rvalue_expr(x[3])) for x in fdef if x[0] == "stmt"]))
    if ok and cinc:
        fsb = fdef[0][1]
        # snapshot before decode_field_tag in the same iteration
        ctx.ob("control", "snapshot is taken before the field's tag is decoded", fsb == tagc[0].bb or v.must_pass_nodes(v.succ[head] if head else [0], lib.bbs(tagc), [fsb]), "%s:%d" % (v.file, v.blocks[fsb]["stmts"][fdef[0][2]].get("l", 0)), "field_start = buf precedes decode_field_tag")
        # the subtraction's operands: first = len(field_start), second = len(buf) evaluated after consume_message
        st = cinc[0].stmt
        e = v.rvalue_expr(st["r"])
        subs = [x for x in mir.walk(e) if x[0] == "bin" and x[1] == "SubWithOverflow"]
        if subs:
            lcalls = [x for x in (subs[0][2], subs[0][3])]
            def arg_local(call):
                # which local does this len() call read?  look at the raw call terminator
                t = v.blocks[call[3]]["term"]
                a0 = t["args"][0]
                l = a0["p"]["l"]
                ds = v.defs.get(l, [])
                if len(ds) == 1 and ds[0][0] == "stmt" and ds[0][3]["k"] in ("use", "ref", "copyderef"):
                    inner = ds[0][3].get("o", {}).get("p") or ds[0][3].get("p")
                    if inner:
                        return v.names.get(inner["l"]) or inner["l"]
                return v.names.get(l) or l
            try:
                n0, n1 = arg_local(lcalls[0]), arg_local(lcalls[1])
            except Exception:
                n0 = n1 = "?"
            ctx.ob("control", "field_size = field_start.len() - buf.len()", (n0, n1) == ("field_start", "buf"), cinc[0].loc(), "operands (%s, %s)" % (n0, n1))
            ctx.ob("control", "remaining length is read after the field was skipped", all(v.must_pass_nodes(v.succ[head] if head else [0], [c[3]], lib.bbs(skip)) for c in lcalls if c[0] == "call"), cinc[0].loc(), "len() after consume_message")
    if cinc and ca is not None:
        back = [head] if head else []
        got = lib.count_range(v, [ca], back + rets, lib.bbs(cinc))
        ctx.ob("control", "every subscription/control field is accounted once", got == (1, 1), cinc[0].loc(), "accumulations on the tag 1|3 arm per iteration: %s" % (got,))
        ctx.ob("control", "only subscription/control fields are accounted", all(v.must_pass_edges(s.bb, {(tsw[0], ca)}) for s in cinc), cinc[0].loc(), "accumulation dominated by tag in {1,3}")
        csw = [bi for bi in sw_on(v, r"^(Gt|Ge|Lt|Le|Eq|Ne)\(") if "control_size" in render(v.switch_info(bi)[0])]
        ctx.floor("control", "control_size comparison", csw, 1, exact=True)
        for bi in csw:
            got = lib.count_range(v, [ca], back + rets, [bi])
            ctx.ob("control", "every accounted field is tested against the limit", got == (1, 1) and v.must_pass_nodes([ca], [bi], lib.bbs(cinc)), "%s:%d" % (v.file, v.blocks[bi]["term"].get("l", 0)), "tests per iteration: %s, after the accumulation" % (got,))
    for s in cerr:
        ctx.guarded("control", "error only when control_size > max_control_message_size", s,
                    lambda c, r, l: (l == "true" and r == "Gt(control_size, max_control_message_size)") or (l == "false" and r == "Le(control_size, max_control_message_size)") or
                                    (l == "true" and r == "Lt(max_control_message_size, control_size)") or (l == "false" and r == "Ge(max_control_message_size, control_size)"),
                    "control_size > max_control_message_size")
    over_c = lib.switch_edges_on(v, r"^Gt\(control_size, max_control_message_size\)$", {"true"}) | lib.switch_edges_on(v, r"^Le\(control_size, max_control_message_size\)$", {"false"})
    for _, t in over_c:
        r = v.reachable([t], stop_nodes=[head] if head else [])
        ctx.ob("control", "over the control limit => Err", not (set(ok_ret) & r) and (not head or head not in r) and bool(set(lib.bbs(cerr)) & r), vw, "the over-limit edge leaves the loop with the error")
    # unknown tags never raise
    oa = arms.get(frozenset({"otherwise"}))
    if oa is not None and head:
        r = v.reachable([oa], stop_nodes=[head])
        ctx.ob("walk", "unknown fields are skipped without a verdict", head in r and not (set(err_ret) & r) and not (set(ok_ret) & r), vw, "otherwise arm continues the loop")
    # ---- consume_message_prefix (prost_codec)
    P = "prost_codec"
    cp = ctx.body(P, r"^prost_codec::consume_message_prefix$")
    cpw = "%s:%d" % (cp.file, cp.line)
    st_true = []
    for x in cp.defs[0]:
        if x[0] == "stmt" and render(cp.rvalue_expr(x[3])) == "std::result::Result::Ok{0: 1}":
            st_true.append(mir.Site(cp, x[1], x[2]))
    ctx.floor("prefix", "consume_message_prefix Ok(true)", st_true, 1, exact=True)
    LEN, REM = r"unsigned_varint::decode::usize\(buf\)@Ok\.0\.0", r"unsigned_varint::decode::usize\(buf\)@Ok\.0\.1"
    for s in st_true:
        ctx.guarded("prefix", "complete only if remaining.len() >= message_length", s,
                    lambda c, r, l: (l == "false" and re.match(r"^Lt\(core::slice::len\(%s\), %s\)$" % (REM, LEN), r) is not None) or
                                    (l == "true" and re.match(r"^Ge\(core::slice::len\(%s\), %s\)$" % (REM, LEN), r) is not None) or
                                    (l == "false" and re.match(r"^Gt\(%s, core::slice::len\(%s\)\)$" % (LEN, REM), r) is not None) or
                                    (l == "true" and re.match(r"^Le\(%s, core::slice::len\(%s\)\)$" % (LEN, REM), r) is not None), "remaining.len() >= message_length")
    wr = [x for x in cp.defs.get((1, "partial"), []) if x[0] == "stmt"]
    ctx.floor("prefix", "*buf = ..", wr, 1, exact=True)
    for x in wr:
        r = render(cp.rvalue_expr(x[3]))
        site = mir.Site(cp, x[1], x[2])
        ctx.ob("prefix", "buffer is narrowed to exactly one frame: remaining[..message_length]",
               re.match(r"^core::slice::index::index\(%s, std::ops::RangeTo::RangeTo\{end: %s\}\)$" % (REM, LEN), r) is not None, site.loc(), r[:200])
        if st_true:
            ctx.ob("prefix", "Ok(true) implies the buffer was narrowed", cp.must_pass_nodes([0], lib.bbs(st_true), [x[1]]), site.loc(), "*buf assigned on every path to Ok(true)")
    ins = lib.switch_edges_on(cp, r"^discr\(unsigned_varint::decode::usize\(buf\)@Err\.0\)$", {"Insufficient"})
    for _, t in ins:
        r = cp.reachable([t])
        vals = {render(cp.rvalue_expr(x[3])) for x in cp.defs[0] if x[0] == "stmt" and x[1] in r}
        ctx.ob("prefix", "an incomplete length prefix is `not yet`, not an error", vals == {"std::result::Result::Ok{0: 0}"}, cpw, str(sorted(vals)))
    ctx.ob("prefix", "floor:Insufficient arm", len(ins) == 1, nontrivial=False, msg=str(sorted(ins)))
    # ---- GossipsubCodec::decode
    d = ctx.body(G, r"protocol::GossipsubCodec as asynchronous_codec::Decoder>::decode$")
    dw = "%s:%d" % (d.file, d.line)
    vc = d.call_sites(r"protocol::validate_rpc_limits$")
    ic = d.call_sites(r"prost_codec::Codec as asynchronous_codec::Decoder>::decode$")
    ctx.floor("decode", "validate_rpc_limits call", vc, 1, exact=True)
    ctx.floor("decode", "inner prost decode call", ic, 1, exact=True)
    allv = prog.callers(G, r"protocol::validate_rpc_limits$")
    ctx.ob("decode", "validate_rpc_limits has exactly this caller", [s.body.npath for s in allv] == [d.npath], dw, str([s.body.npath for s in allv]))
    if vc and ic:
        lib.precedes(ctx, "decode", "limits are validated before the RPC is decoded (allocated)", d, lib.bbs(vc), lib.bbs(ic), "validate_rpc_limits precedes Codec::decode", vc[0].loc())
        a = [render(x) for x in d.site_expr(vc[0])[2]]
        ctx.ob("plumbing", "decode validates the read buffer", len(a) == 4 and re.match(r"^(<&mut T as std::convert::AsRef>::as_ref|<asynchronous_codec::BytesMut as std::ops::Deref>::deref|<asynchronous_codec::BytesMut as std::convert::AsRef>::as_ref)\(src\)$", a[0]) is not None, vc[0].loc(), a[0][:120])
        ctx.ob("plumbing", "decode passes the codec's limits in order", a[1:] == ["self.global_max_transmit_size", "self.max_publish_messages", "self.max_control_message_size"], vc[0].loc(), str(a[1:]))
        ia = [render(x) for x in d.site_expr(ic[0])[2]]
        ctx.ob("plumbing", "the buffer validated is the buffer decoded", ia == ["self.codec", "src"], ic[0].loc(), str(ia))
        br = try_edges(d, vc[0], "Break")
        for _, t in br:
            r = d.reachable([t])
            ctx.ob("decode", "a limit violation fails the decode", ic[0].bb not in r and any(re.search(r"from_residual$", mir.strip_generics(d.call_name(d.blocks[x]["term"]))) for x in r if d.blocks[x]["term"] and d.blocks[x]["term"]["k"] == "call"), vc[0].loc(), "Break edge returns the error without decoding")
        ctx.ob("decode", "floor:limit violation edge", len(br) == 1, nontrivial=False, msg=str(sorted(br)))
        # Ok(None) only after the inner decoder (and its announced-length guard) was consulted
        none_ret = [mir.Site(d, x[1], x[2]) for x in d.defs[0] if x[0] == "stmt" and render(d.rvalue_expr(x[3])) == "std::result::Result::Ok{0: std::option::Option::None{}}"]
        ctx.floor("decode", "`need more bytes` result", none_ret, 1)
        none_edges = lib.switch_edges_on_site(d, ic[0], {"None"}, r"^discr\(")
        for s in none_ret:
            ok = bool(none_edges) and d.must_pass_edges(s.bb, none_edges)
            ctx.ob("decode", "need-more-bytes only after the inner length guard", ok, s.loc(),
                   "Ok(None) is returned only when prost_codec::Codec::decode (which rejects an announced length > max before waiting) returned None" if ok else
                   "a path returns Ok(None) without consulting prost_codec::Codec::decode: a frame announcing more than the maximum keeps being buffered instead of being rejected")
    # inner guard present in prost_codec (reference; structure is C57's)
    pd = ctx.body(P, r"Codec as asynchronous_codec::Decoder>::decode$")
    g = [bi for bi in sw_on(pd, r"^Gt\(unsigned_varint::decode::usize\(.*\)@Ok\.0\.0, self\.max_message_len_bytes\)$")]
    ctx.ob("decode", "inner decoder rejects announced length > max_message_len_bytes", len(g) == 1, "%s:%d" % (pd.file, pd.line), "%d guard(s)" % len(g))
    for bi in g:
        t_over = [t for t, ls in pd.switch_info(bi)[1].items() if "true" in ls]
        r = pd.reachable(t_over)
        vals = {render(pd.rvalue_expr(x[3]))[:30] for x in pd.defs[0] if x[0] == "stmt" and x[1] in r}
        ctx.ob("decode", "inner over-limit edge => Err", vals == {"std::result::Result::Err{0: pr"}, "%s:%d" % (pd.file, pd.blocks[bi]["term"].get("l", 0)), str(sorted(vals)))
    # ---- plumbing of the limits
    n = ctx.body(G, r"^libp2p_gossipsub::protocol::GossipsubCodec::new$")
    nn = [n.names.get(i) for i in range(1, n.argc + 1)]
    ctx.ob("plumbing", "floor:GossipsubCodec::new parameters", nn == ["global_max_transmit_size", "validation_mode", "max_transmit_sizes", "max_publish_messages", "max_control_message_size"], "%s:%d" % (n.file, n.line), str(nn), nontrivial=False)
    ag = n.agg_sites(r"protocol::GossipsubCodec$")
    ctx.floor("plumbing", "GossipsubCodec construction", ag, 1, exact=True)
    for s in ag:
        f = dict((k, render(x)) for k, x in n.site_expr(s)[4])
        ctx.ob("plumbing", "GossipsubCodec::new stores each limit in its own field",
               all(f.get(k) == k for k in ("global_max_transmit_size", "max_publish_messages", "max_control_message_size", "max_transmit_sizes", "validation_mode")), s.loc(), str({k: f.get(k) for k in f if k != "codec"})[:300])
        ctx.ob("plumbing", "inner codec is built with global_max_transmit_size", f.get("codec") == "prost_codec::Codec::new(global_max_transmit_size)", s.loc(), str(f.get("codec")))
    agall = [s for b in prog.bodies(G) for s in b.agg_sites(r"protocol::GossipsubCodec$")]
    ctx.ob("plumbing", "GossipsubCodec is only built by GossipsubCodec::new", len(agall) == 1, msg="%d construction site(s)" % len(agall))
    for fn in ("InboundUpgrade>::upgrade_inbound", "OutboundUpgrade>::upgrade_outbound"):
        u = ctx.body(G, r"protocol::ProtocolConfig as libp2p_core::%s$" % fn)
        cs_ = u.call_sites(r"protocol::GossipsubCodec::new$")
        ctx.floor("plumbing", "%s builds the codec" % fn.split("::")[-1], cs_, 1, exact=True)
        for s in cs_:
            a = [render(x) for x in u.site_expr(s)[2]]
            ctx.ob("plumbing", "%s passes the configured limits in order" % fn.split("::")[-1],
                   a == ["self.default_max_transmit_size", "self.validation_mode", "self.max_transmit_sizes", "self.max_publish_messages", "self.max_control_message_size"], s.loc(), str(a))
    newc = prog.callers(G, r"protocol::GossipsubCodec::new$")
    ctx.ob("plumbing", "codec constructors are the two upgrades", sorted(s.body.npath.split("::")[-1] for s in newc) == ["upgrade_inbound", "upgrade_outbound"], msg=str(sorted(s.body.npath for s in newc)))
    pc_ = ctx.body(G, r"config::Config::protocol_config$")
    r0 = [render(pc_.call_expr(x[3], x[1])) if x[0] == "call" else render(pc_.rvalue_expr(x[3])) for x in pc_.defs[0]]
    ctx.ob("plumbing", "the handler's ProtocolConfig is the validated Config's", len(r0) == 1 and r0[0].endswith("clone(self.protocol)"), "%s:%d" % (pc_.file, pc_.line), str(r0)[:160])
    for setter, fld, par in (("max_transmit_size", "default_max_transmit_size", "max_transmit_size"), ("max_publish_messages", "max_publish_messages", "max"), ("max_control_message_size", "max_control_message_size", "size")):
        b = ctx.body(G, r"config::ConfigBuilder::%s$" % setter)
        ws = [s for s in b.field_write_sites(fld) if any(pr["k"] == "field" and pr["n"] == "protocol" for pr in (s.stmt["p"].get("pr", ()) if s.si is not None else ()))]
        ok = len(ws) == 1 and render(b.site_expr(ws[0])) == par
        ctx.ob("plumbing", "ConfigBuilder::%s sets protocol.%s" % (setter, fld), ok, "%s:%d" % (b.file, b.line), str([render(b.site_expr(s)) for s in ws]))
    # ---- per-topic limit
    pushes = [s for s in d.call_sites(r"Vec::push$") if render(d.site_expr(s)[2][0]) == "messages"]
    ctx.floor("topic-limit", "messages.push", pushes, 1, exact=True)
    BIG = r"^std::option::Option::is_some_and\(libp2p_gossipsub::protocol::GossipsubCodec::max_transmit_size_for_topic\(self, libp2p_gossipsub::topic::TopicHash::from_raw\(.*@Some\.0\.topic\)\), closure:"
    for s in pushes:
        ctx.guarded("topic-limit", "valid only if not larger than the topic's max_transmit_size", s, lambda c, r, l: l == "false" and re.match(BIG, r) is not None, "!max_transmit_size_for_topic(topic).is_some_and(|max| encoded_len > max)")
    for bi in sw_on(d, BIG):
        cl = lib.closure_of(prog, d, d.switch_info(bi)[0])
        r0 = [render(cl.site_expr(mir.Site(cl, x[1], x[2]))) for x in cl.defs[0]] if cl else []
        ctx.ob("topic-limit", "message of exactly the topic's maximum is accepted (encoded_len > max)", len(r0) == 1 and re.match(r"^Gt\(.*encoded_len\(\^message\), max\)$", r0[0]) is not None, cl and "%s:%d" % (cl.file, cl.line) or dw, str(r0)[:160])
        ctx.ob("topic-limit", "the measured message is the loop's message", cl is not None and any(re.search(r"next\(iter\)@Some\.0$", render(x)) for x in mir.walk(d.switch_info(bi)[0]) if x[0] != "call"), dw, "closure captures the message being classified")
    mt = ctx.body(G, r"protocol::GossipsubCodec::max_transmit_size_for_topic$")
    r0 = [render(mt.call_expr(x[3], x[1])) if x[0] == "call" else render(mt.rvalue_expr(x[3])) for x in mt.defs[0]]
    ctx.ob("topic-limit", "topic limit is looked up in max_transmit_sizes by topic", r0 == ["std::option::Option::copied(std::collections::HashMap::get(self.max_transmit_sizes, topic))"], "%s:%d" % (mt.file, mt.line), str(r0))
