"""C32 gossipsub backoff is never shortened — guards (K1), who-mutates (K4), origin (K5), path counting (K2) over backoff.rs + handle_graft."""
import re

from .. import lib, mir
from .. import lib_gs as gs
from ..mir import render, strip_generics

EXPLANATION = ("BackoffStorage: (1) update_backoff overwrites an existing (topic, peer) entry only on an edge proving stored < new "
               "(or <=), the value compared is the value stored, it is now()+time of the caller's duration, and a vacant key is filled "
               "exactly once; (2) in the whole crate the `backoffs` map is mutably borrowed only in update_backoff and heartbeat, and every "
               "overwrite/removal-capable call on data derived from it is one of the classified sites; (3) the only removals live in "
               "heartbeat's retain closure: the per-peer removal is reached only on the `keep == false` edge, `keep` is false only when the "
               "entry is missing / overflowed or `expiry(+slack) > now` failed for the *same* (topic, peer) key with `now` = Instant::now() "
               "of this heartbeat, and a whole per-topic map is dropped only on an edge proving it is empty; (4) is_backoff_with_slack <=> "
               "the key is present, get_backoff_time returns the stored instant of that key; (5) Behaviour::handle_graft: a GRAFT whose "
               "backoff_time > now never reaches the mesh insertion in that iteration, is queued for PRUNE exactly once and is penalised "
               "when scoring is active, and the mesh insertion is reachable only via `no backoff` / `backoff_time > now` false; "
               "(6) the slot cursor advances by exactly one slot modulo the ring length once per Behaviour::heartbeat.")
ASSUMPTIONS = ["elapsed-time arithmetic (Instant/Duration) and the wall clock are trusted; 'eventually forgets' is not decided beyond the "
               "cursor advancing one slot per heartbeat",
               "HashMap / Entry API semantics (entry().or_default() extends, OccupiedEntry::insert overwrites)",
               "durations passed by callers (make_prune, remove_peer_from_mesh) are not range-checked here"]
TECHNIQUE = "static analysis of rustc MIR facts: dominance/edge guards, call-site inventories, def-use origin"

G = gs.G
BS = r"^libp2p_gossipsub::backoff::BackoffStorage::"
CONFIGS = [{"name": "gossipsub-features", "packages": ["libp2p-gossipsub"], "features": "metrics,partial-messages"}]
DANGER = re.compile(r"(HashMap|hash_map::(Entry|OccupiedEntry|VacantEntry)|hash_map::HashMap)::"
                    r"(insert|insert_entry|remove|remove_entry|clear|retain|drain|extract_if|and_modify|get_mut|get_many_mut|"
                    r"get_disjoint_mut|values_mut|iter_mut|into_mut|or_insert|or_insert_with|or_insert_with_key|replace_entry|"
                    r"replace_key|shrink_to|shrink_to_fit)$|mem::(take|replace|swap)$")

SELFTEST = [
    {"mutation": "update_backoff: `if backoff < &instant` -> `if backoff > &instant`", "caught_by": "update/overwrite only when the stored backoff is earlier"},
    {"mutation": "update_backoff: Occupied arm overwrites unconditionally (guard deleted)", "caught_by": "update/overwrite only when the stored backoff is earlier"},
    {"mutation": "update_backoff: o.insert((Instant::now(), index))", "caught_by": "update/stored instant = now + caller's duration"},
    {"mutation": "heartbeat closure: `backoff > now` -> `backoff < now`", "caught_by": "expiry/keep <=> expiry(+slack) > now"},
    {"mutation": "heartbeat closure: `if !keep` -> `if keep`", "caught_by": "expiry/per-peer removal only when keep is false"},
    {"mutation": "seeded C32: `m.get().is_empty()` -> `m.get().len() <= 1`", "caught_by": "expiry/topic map dropped only when empty"},
    {"mutation": "is_backoff_with_slack: `!m.contains_key(peer)`", "caught_by": "query/is_backoff_with_slack <=> key present"},
    {"mutation": "handle_graft: `backoff_time > now` -> `backoff_time < now`", "caught_by": "graft/backed-off GRAFT never reaches the mesh insertion"},
    {"mutation": "new fn BackoffStorage::clear_topic(&mut self, t) { self.backoffs.remove(t); } ", "caught_by": "who/mutable borrows of `backoffs` + who/overwrite- or removal-capable calls are the classified sites"},
    {"mutation": "BackoffStorage::heartbeat: cursor += 2", "caught_by": "cursor/advances one slot modulo ring length"},
    {"mutation": "NEUTRAL: all locals/params/upvars of BackoffStorage::{heartbeat closure, is_backoff_with_slack} renamed (keep, m, backoffs, now, topic, peer)", "caught_by": "(silent: verdict local, entry, upvars and params are identified by role/type)"},
]

# one-edit source variants for the thorough-tier sensitivity self-test (vrules/selftest.py); each must be reported
MUTANTS = [
    {"name": 'shorter backoff overwrites a longer one', "file": 'protocols/gossipsub/src/backoff.rs',
     "find": '                if backoff < &instant {',
     "replace": '                if backoff > &instant {',
     "expect": 'update/overwrite only when the stored backoff is earlier', "why": 'a second, shorter PRUNE backoff shortens the running one'},
    {"name": 'expiry test inverted', "file": 'protocols/gossipsub/src/backoff.rs',
     "find": '.map(|backoff| backoff > now)',
     "replace": '.map(|backoff| backoff < now)',
     "expect": 'expiry/keep', "why": 'running backoffs are dropped at their first slot visit'},
    {"name": 'GRAFT during backoff accepted', "file": 'protocols/gossipsub/src/behaviour.rs',
     "find": '                && backoff_time > now\n',
     "replace": '                && backoff_time < now\n',
     "expect": 'graft/', "why": 'backed-off peer is grafted and an expired one penalised'},
    {"name": 'query polarity', "file": 'protocols/gossipsub/src/backoff.rs',
     "find": '.is_some_and(|m| m.contains_key(peer))',
     "replace": '.is_some_and(|m| !m.contains_key(peer))',
     "expect": 'query/is_backoff_with_slack', "why": 'backed-off peers look eligible'},
]


MAP_TY = r"HashMap<topic::TopicHash, std::collections::HashMap<libp2p_identity::PeerId, \(web_time::Instant, backoff::HeartbeatIndex\)>>"


def _derived_from_backoffs(prog, body, e, depth=0):
    """expression (after expanding named locals) reads the `backoffs` map: the field itself, a parameter of the map's type, or a
    closure upvar bound to either (names are not consulted)"""
    x = gs.expand(body, e)
    for s in mir.walk(x):
        if s[0] == "field" and s[2] == "backoffs" and "BackoffStorage" in (s[3] or "BackoffStorage"):
            return True
        if s[0] == "arg" and re.search(MAP_TY, body.locals[s[1]]):
            return True
        if s[0] == "upvar" and body.parent and depth < 3:
            par = [b for b in prog.bodies(body.crate) if b.path == body.parent]
            if par:
                u = gs.upvar_exprs(prog, par[0], body).get(s[1].lstrip("*"))
                if u is not None and _derived_from_backoffs(prog, par[0], u, depth + 1):
                    return True
    return False


def check(ctx):
    prog = ctx.prog
    u = ctx.body(G, BS + r"update_backoff$")
    hb = ctx.body(G, BS + r"heartbeat$")
    # the expiry closure is the one handed to the slot's retain (not looked up by closure number)
    _ret = hb.call_sites(r"HashSet::retain$")
    hc = gs.closure_arg(prog, hb, hb.site_expr(_ret[0])) if _ret else None
    if hc is None:
        raise mir.RuleError("BackoffStorage::heartbeat: no HashSet::retain(closure) over the slot")
    ctx.use(hc)
    a_topic, a_peer = gs.arg_of_type(u, r"^&topic::TopicHash$"), gs.arg_of_type(u, r"^&libp2p_identity::PeerId$")
    n_topic, n_peer = re.escape(gs.argname(u, a_topic)), re.escape(gs.argname(u, a_peer))
    mod_bodies = [b for b in prog.bodies(G) if b.npath.startswith("libp2p_gossipsub::backoff::")]

    # ------------------------------------------------------------------ (1) update_backoff
    oi = u.call_sites(r"hash_map::OccupiedEntry::insert$")
    vi = u.call_sites(r"hash_map::VacantEntry::insert$")
    ctx.floor("update", "OccupiedEntry::insert in update_backoff", oi, 1)
    ctx.floor("update", "VacantEntry::insert in update_backoff", vi, 1)
    dur_args = [i for i in range(1, u.argc + 1) if "Duration" in u.locals[i]]
    ctx.ob("update", "floor:duration parameter", len(dur_args) == 1, nontrivial=False, msg=str(dur_args))

    def new_instant(site):
        e = u.site_expr(site)
        val = gs.expand(u, e[2][1])
        if val[0] == "agg":
            for f, x in val[4]:
                if f == "0":
                    return x
        return None

    for s in oi:
        e = u.site_expr(s)
        entry_r = gs.xrender(u, e[2][0])
        ni = new_instant(s)
        nr = render(ni) if ni else "?"

        def pred(cond, rendered, label, nr=nr, entry_r=entry_r):
            rel = gs.ord_rel(cond, label)
            if rel is None:
                return False
            small, large, _ = rel
            sr = gs.xrender(u, small)
            return bool(re.search(r"OccupiedEntry::get\(" + re.escape(entry_r) + r"\)\.0$", sr)) and gs.xrender(u, large) == nr
        gs.guarded(ctx, "update", "overwrite only when the stored backoff is earlier", s, pred,
                    "OccupiedEntry::insert is reached only via an edge proving stored.0 < (or <=) the new instant, the new instant being the value stored")
    for s in oi + vi:
        ni = new_instant(s)
        ok = False
        if ni is not None:
            for c in gs.calls(ni, r"Instant::checked_add$"):
                a0, a1 = c[2][0], c[2][1]
                if gs.has_call(a0, r"Instant::now$") and a1[0] == "arg" and dur_args and a1[1] == dur_args[0]:
                    ok = True
        ctx.ob("update", "stored instant = now + caller's duration", ok, s.loc(), "stored tuple.0 = %s" % (render(ni)[:160] if ni else "?"))
    # a vacant key is always filled (the new backoff is recorded)
    vac = lib.arm_entry(u, r"^discr\(std::collections::HashMap::entry\(", "Vacant")
    ctx.ob("update", "floor:Vacant edge", len(vac) == 1, nontrivial=False, msg=str(vac))
    if vac:
        lib.expect_count(ctx, "update", "vacant key is filled exactly once", u, [vac[0][1]], u.return_blocks(), lib.bbs(vi), (1, 1),
                         "VacantEntry::insert on the Vacant edge")
    occ = lib.arm_entry(u, r"^discr\(std::collections::HashMap::entry\(", "Occupied")
    if occ:
        lib.expect_count(ctx, "update", "occupied key is overwritten at most once", u, [occ[0][1]], u.return_blocks(), lib.bbs(oi), (0, 1),
                         "OccupiedEntry::insert on the Occupied edge")
    # the entry that is matched on is the (topic, peer) entry of self.backoffs, created in place
    for bi, _ in (vac + occ)[:1]:
        c = render(u.switch_info(bi)[0])
        ctx.ob("update", "entry is backoffs.entry(topic).or_default().entry(peer)",
               re.search(r"HashMap::entry\(std::collections::hash_map::Entry::or_default\(std::collections::HashMap::entry\(self\.backoffs, .*clone\(%s\)\)\), %s\)" % (n_topic, n_peer), c) is not None,
               "%s:%d" % (u.file, u.blocks[bi]["term"].get("l", 0)), c[:220])

    # ------------------------------------------------------------------ (2) who may mutate `backoffs`
    mutb = []
    for b in prog.bodies(G):
        for bi in sorted(b.live):
            for st in b.blocks[bi]["stmts"]:
                if st["k"] == "assign" and st["r"]["k"] in ("ref", "rawptr") and st["r"].get("m", "mut") != "shared":
                    for pr in st["r"]["p"].get("pr", ()):
                        if pr["k"] == "field" and pr["n"] == "backoffs" and "BackoffStorage" in (pr.get("o") or ""):
                            mutb.append(b.npath)
        for s in b.field_write_sites("backoffs", r"backoff::BackoffStorage"):
            mutb.append(b.npath + " (assignment)")
    allowed = {"libp2p_gossipsub::backoff::BackoffStorage::update_backoff", "libp2p_gossipsub::backoff::BackoffStorage::heartbeat"}
    ctx.ob("who", "mutable borrows of `backoffs`", set(mutb) == allowed, "%s:%d" % (u.file, u.line),
           "BackoffStorage.backoffs is mutably borrowed / assigned in %s (allowed: update_backoff, heartbeat)" % sorted(set(mutb)))
    fld = [f for f in prog.adt(G, r"backoff::BackoffStorage$")["variants"][0]["fields"] if f["n"] == "backoffs"]
    ctx.ob("who", "`backoffs` is private to the module", len(fld) == 1 and fld[0]["vis"] == "in:backoff", msg=str(fld)[:200])
    classified = set()
    for s in oi + vi:
        classified.add(s.key())
    h_rm_peer = [s for s in hc.call_sites(r"HashMap::remove$")]
    h_rm_map = [s for s in hc.call_sites(r"hash_map::OccupiedEntry::remove$")]
    h_get_mut = [s for s in hc.call_sites(r"hash_map::OccupiedEntry::get_mut$")]
    for s in h_rm_peer + h_rm_map + h_get_mut:
        classified.add(s.key())
    danger = []
    for b in mod_bodies:
        for s in b.call_sites():
            name = strip_generics(b.call_name(s.term))
            if not DANGER.search(name):
                continue
            e = b.site_expr(s)
            if any(_derived_from_backoffs(prog, b, a) for a in e[2]):
                danger.append(s)
    ctx.floor("who", "overwrite-/removal-capable calls on backoffs data", danger, 5)
    extra = [s for s in danger if s.key() not in classified]
    ctx.ob("who", "overwrite- or removal-capable calls are the classified sites", not extra, extra[0].loc() if extra else "",
           "unclassified: %s" % [strip_generics(s.body.call_name(s.term)).split("::")[-2:] + [s.body.short[-40:]] for s in extra][:4] if extra
           else "%d calls, all classified (guarded overwrite, vacant insert, expiry removals)" % len(danger))
    # get_mut result is used only as the receiver of the classified per-peer removal
    for s in h_get_mut:
        d = s.term["d"]
        uses = lib.local_uses(hc, d["l"]) if "pr" not in d else 99
        ok = uses == 1 and any(gs.has_call(hc.site_expr(r)[2][0], r"OccupiedEntry::get_mut$") and hc.site_expr(r)[2][0][3] == s.bb for r in h_rm_peer)
        ctx.ob("who", "entry.get_mut() feeds only the per-peer removal", ok, s.loc(), "uses of the &mut inner map: %d" % uses)

    # ------------------------------------------------------------------ (3) expiry in heartbeat's retain closure
    ctx.floor("expiry", "per-peer removal", h_rm_peer, 1)
    ctx.floor("expiry", "topic-map removal", h_rm_map, 1)
    ups = gs.upvar_exprs(prog, hb, hc)
    up_bk = [k for k, v in ups.items() if gs.xrender(hb, v) == "self.backoffs"]
    up_now = [k for k, v in ups.items() if gs.xrender(hb, v).endswith("Instant::now()")]
    ctx.ob("expiry", "closure captures &mut self.backoffs and Instant::now()", len(up_bk) == 1 and len(up_now) == 1, "%s:%d" % (hc.file, hc.line), str({k: render(v)[:60] for k, v in ups.items()}))
    UP_BK = up_bk[0] if up_bk else "backoffs"
    UP_NOW = up_now[0] if up_now else "now"

    def is_up(x, name):
        return x[0] == "upvar" and x[1].lstrip("*") == name
    ret = hb.call_sites(r"HashSet::retain$")
    ctx.floor("expiry", "retain over the current slot", ret, 1)
    for s in ret:
        e = hb.site_expr(s)
        ctx.ob("expiry", "retain runs on the slot of the cursor with this closure", "self.heartbeat_index.0" in render(e[2][0]) and "self.backoffs_by_heartbeat" in render(e[2][0])
               and gs.closure_arg(prog, hb, e) is hc, s.loc(), render(e[2][0])[:160])
    # ---- the verdict of the retain closure (`keep`), identified by role: it is what the closure returns.  It is either computed
    # inline (a bool assigned in the arms of a match on the lookup) or by ONE crate-local helper called with the lookup, the slack
    # and `now`; the helper is summarised with the same clauses and the actual arguments are substituted.
    _rv = [x for _, x in gs.ret_exprs(hc)]
    if len(_rv) != 1:
        raise mir.RuleError("expiry closure has %d return definitions" % len(_rv))
    V = _rv[0]
    kl = V[1] if V[0] == "local" else None
    by_path = {b.npath: b for b in prog.bodies(G)}

    def is_lookup(x):
        """`get_backoff_time_from_backoffs(<the captured backoffs map>, topic, peer)` evaluated in the closure"""
        return x[0] == "call" and re.search(r"get_backoff_time_from_backoffs$", strip_generics(x[1])) is not None and is_up(x[2][0], UP_BK)

    def analyse(body, leaves, opt_is, now_is, label):
        """clauses on the definitions of the verdict inside `body`: constant false only on the None edge of the Option<Instant>
        `opt_is` recognises; any other definition is unwrap_or(map(checked_add(<opt>@Some.0, slack), |b| b > now), false) with
        `now_is` recognising what the inner closure captured as now"""
        good = 0
        for site, e in leaves:
            if e[0] == "const" and e[1] == 0:
                edges = body.guard_edges(lambda c, r, l: l == "None" and c[0] == "discr" and opt_is(c[1]))
                edges = body.derive_edges(edges, None)
                ok = bool(edges) and body.must_pass_edges(site.bb, edges)
                ctx.ob("expiry", "keep = false only without a stored backoff", ok, site.loc(), "%sconstant false only on the None edge of the lookup" % label)
                good += 1 if ok else 0
                continue
            ok = False
            why = render(e)[:200]
            inner = gs.closure_arg(prog, body, e) if e[0] == "call" else None
            if inner is not None and re.search(r"Option::unwrap_or$", strip_generics(e[1])) and e[2][1][0] == "const" and e[2][1][1] == 0:
                ie = [x for _, x in gs.ret_exprs(inner)]
                rel = gs.ord_rel(ie[0], "true") if len(ie) == 1 else None
                if rel is not None:
                    small, large, _ = rel
                    cap = gs.upvar_exprs(prog, body, inner).get(small[1].lstrip("*")) if small[0] == "upvar" else None
                    adds = gs.calls(e, r"Instant::checked_add$")
                    t0 = adds[0][2][0] if adds else ("unknown", "?")
                    if t0[0] == "field" and t0[2] == "0":
                        t0 = t0[1]
                    ok = (cap is not None and now_is(gs.expand(body, cap)) and large[0] in ("arg", "local") and bool(adds)
                          and t0[0] == "downcast" and t0[2] == "Some" and opt_is(t0[1]))
                    why = "%skeep = (expiry %s now) where expiry = %s" % (label, ">" if rel[2] else ">=", render(e)[:140])
            ctx.ob("expiry", "keep <=> expiry(+slack) > now", ok, site.loc(), why)
            good += 1 if ok else 0
        return good
    lookups = []
    if kl is not None:
        kdefs = hc.defs.get(kl, [])
        leaves = [(mir.Site(hc, d[1], d[2]), hc.rvalue_expr(d[3]) if d[0] == "stmt" else hc.call_expr(d[3], d[1])) for d in kdefs]
        good = analyse(hc, leaves, is_lookup, lambda x: is_up(x, UP_NOW), "")
        for _, e in leaves:
            lookups += [c for c in gs.calls(e, r"get_backoff_time_from_backoffs$") if is_lookup(c)]
        for bi in sorted(hc.live):
            info = hc.switch_info(bi)
            if info and info[0][0] == "discr" and is_lookup(info[0][1]):
                lookups.append(info[0][1])
        n_leaves = len(leaves)
    else:
        Vx = gs.expand(hc, V)
        helper = by_path.get(strip_generics(Vx[1])) if Vx[0] == "call" else None
        if helper is None or helper.kind == "closure":
            raise mir.RuleError("expiry verdict is neither a bool computed in the closure nor a crate-local helper call: %s" % render(Vx)[:120])
        ctx.use(helper)
        opt_i = [i for i in range(1, helper.argc + 1) if re.search(r"Option<web_time::Instant>", helper.locals[i])]
        now_i = [i for i, a in enumerate(Vx[2], 1) if is_up(a, UP_NOW)]
        look_i = [i for i, a in enumerate(Vx[2], 1) if is_lookup(a)]
        ctx.ob("expiry", "helper receives the lookup of this (topic, peer) and this heartbeat's now", len(opt_i) == 1 and look_i == opt_i and len(now_i) == 1, "%s:%d" % (hc.file, hc.line),
               "%s(%s)" % (helper.short, ", ".join(render(a)[-50:] for a in Vx[2])))
        leaves = []
        for site, e in gs.ret_exprs(helper):
            leaves += gs._bool_leaves_at(helper, site, e, 0, set())
        oi = opt_i[0] if opt_i else -1
        ni = now_i[0] if now_i else -1
        good = analyse(helper, leaves, lambda x: gs.is_arg(gs.expand(helper, x), oi), lambda x: gs.is_arg(x, ni), "via %s: " % helper.short.split("::")[-1])
        lookups = [a for a in Vx[2] if is_lookup(a)]
        n_leaves = len(leaves)
    ctx.ob("expiry", "floor:keep definitions", n_leaves >= 2 and good == n_leaves, nontrivial=False, msg="%d defs, %d good" % (n_leaves, good))

    def not_keep(c, r, l):
        if l != "false":
            return False
        return (c[0] == "local" and c[1] == kl) if kl is not None else render(c) == render(gs.expand(hc, V))
    for s in h_rm_peer:
        e = hc.site_expr(s)
        gs.guarded(ctx, "expiry", "per-peer removal only when keep is false", s, not_keep, "if !keep")
        # same key: the element's peer is removed from the element's topic map
        a0 = gs.xrender(hc, e[2][0])
        a1 = render(e[2][1])
        look = lookups
        lk = [render(a) for a in look[0][2]] if look else []
        ok = len(lk) == 3 and a1 == lk[2] and ("clone(%s)" % lk[1]) in a0 and ("HashMap::entry(%s, " % lk[0]) in a0 and bool(look) and is_up(look[0][2][0], UP_BK)
        ctx.ob("expiry", "removed key = the key whose expiry was tested", ok, s.loc(), "remove(%s, %s) vs lookup%s" % (a0[-120:], a1, lk[1:]))
    for s in h_rm_map:
        ent = re.escape(render(hc.site_expr(s)[2][0]))      # the entry that is removed (whatever the binding is called)

        def empty_pred(c, r, l, ent=ent):
            if re.match(r"^std::collections::HashMap::is_empty\(std::collections::hash_map::OccupiedEntry::get(_mut)?\(" + ent + r"\)\)$", r):
                return l == "true"
            if c[0] == "bin" and re.match(r"^std::collections::HashMap::len\(std::collections::hash_map::OccupiedEntry::get(_mut)?\(" + ent + r"\)\)$", render(c[2])) and c[3][0] == "const":
                k = c[3][1]
                return (c[1], k, l) in (("Eq", 0, "true"), ("Ne", 0, "false"), ("Lt", 1, "true"), ("Le", 0, "true"), ("Gt", 0, "false"), ("Ge", 1, "false"))
            return False
        gs.guarded(ctx, "expiry", "topic map dropped only when empty", s, empty_pred,
                    "OccupiedEntry::remove (forgets every peer of the topic) only on an edge proving the inner map is empty")
        gs.guarded(ctx, "expiry", "topic map dropped only while expiring an entry", s, not_keep, "if !keep")
        # no mutation of the inner map between the emptiness test and the drop is possible: the per-peer removal precedes the test
        tests = [bi for bi in hc.live if hc.switch_info(bi) and empty_pred(hc.switch_info(bi)[0], render(hc.switch_info(bi)[0]), "true")]
        ok = bool(tests) and all(hc.must_pass_nodes([0], [t], lib.bbs(h_rm_peer)) for t in tests) and \
            not (set(lib.bbs(h_rm_peer)) & hc.reachable([x for t in tests for x in hc.succ[t]]))
        ctx.ob("expiry", "emptiness is tested after the per-peer removal", ok, s.loc(), "remove(peer) dominates the is_empty test and is not repeated after it")
    # the closure's verdict is `keep`
    rets = [render(x) for _, x in gs.ret_exprs(hc)]
    ctx.ob("expiry", "slot keeps the pair iff keep", len(rets) == 1 and n_leaves >= 2, "%s:%d" % (hc.file, hc.line), "retain closure returns the verdict local %s" % rets)

    # ------------------------------------------------------------------ (4) queries
    q = ctx.body(G, BS + r"is_backoff_with_slack$")
    qt_i, qp_i = gs.arg_of_type(q, r"^&topic::TopicHash$"), gs.arg_of_type(q, r"^&libp2p_identity::PeerId$")

    def topic_map(x):
        """`self.backoffs.get(topic)` of this function's topic parameter"""
        return x[0] == "call" and re.search(r"HashMap::get$", strip_generics(x[1])) is not None and render(x[2][0]) == "self.backoffs" and gs.is_arg(x[2][1], qt_i)
    leaves = []
    for site, e in gs.ret_exprs(q):
        leaves += gs._bool_leaves_at(q, site, e, 0, set())
    ok = bool(leaves)
    pos = 0
    msgs = []
    for site, e in leaves:
        x = gs.expand(q, e)
        msgs.append(render(x)[:110])
        if x[0] == "const" and x[1] == 0:
            # `false` only when the topic has no map (match form)
            edges = q.derive_edges(q.guard_edges(lambda c, r, l: l == "None" and c[0] == "discr" and topic_map(gs.expand(q, c[1]))), None)
            ok = ok and bool(edges) and q.must_pass_edges(site.bb, edges)
        elif x[0] == "call" and re.search(r"Option::is_some_and$", strip_generics(x[1])) and topic_map(x[2][0]):
            cl = gs.closure_arg(prog, q, x)
            ce = [y for _, y in gs.ret_exprs(cl)] if cl is not None else []
            good = len(ce) == 1 and ce[0][0] == "call" and re.search(r"HashMap::contains_key$", strip_generics(ce[0][1])) is not None and ce[0][2][0][0] == "arg" \
                and ce[0][2][1][0] == "upvar" and gs.is_arg(gs.expand(q, gs.upvar_exprs(prog, q, cl).get(ce[0][2][1][1].lstrip("*"), ("?",))), qp_i)
            ok = ok and good
            pos += 1
            msgs[-1] += " / closure: %s" % [render(y) for y in ce]
        elif x[0] == "call" and re.search(r"HashMap::contains_key$", strip_generics(x[1])) and gs.is_arg(x[2][1], qp_i):
            m0 = x[2][0]
            if m0[0] == "field" and m0[2] == "0":
                m0 = m0[1]
            ok = ok and m0[0] == "downcast" and m0[2] == "Some" and topic_map(m0[1])
            pos += 1
        else:
            ok = False
    ctx.ob("query", "is_backoff_with_slack <=> key present", ok and pos >= 1, "%s:%d" % (q.file, q.line), " | ".join(msgs))
    gt_ = ctx.body(G, BS + r"get_backoff_time$")
    rg = [render(x) for _, x in gs.ret_exprs(gt_)]
    gtt, gtp = gs.argname(gt_, gs.arg_of_type(gt_, r"^&topic::TopicHash$")), gs.argname(gt_, gs.arg_of_type(gt_, r"^&libp2p_identity::PeerId$"))
    ctx.ob("query", "get_backoff_time reads this storage for (topic, peer)", rg == ["libp2p_gossipsub::backoff::BackoffStorage::get_backoff_time_from_backoffs(self.backoffs, %s, %s)" % (gtt, gtp)],
           "%s:%d" % (gt_.file, gt_.line), str(rg)[:200])
    gf = ctx.body(G, BS + r"get_backoff_time_from_backoffs$")
    rf = gs.ret_exprs(gf)
    ok = False
    msg = "?"
    if len(rf) == 1 and rf[0][1][0] == "call":
        e = rf[0][1]
        msg = render(e)[:160]
        c1 = gs.closure_arg(prog, gf, e)
        fm, ft, fp_ = (gs.argname(gf, gs.arg_of_type(gf, MAP_TY)), gs.argname(gf, gs.arg_of_type(gf, r"^&topic::TopicHash$")), gs.argname(gf, gs.arg_of_type(gf, r"^&libp2p_identity::PeerId$")))
        if c1 is not None and render(e[2][0]) == "std::collections::HashMap::get(%s, %s)" % (fm, ft) and re.search(r"Option::and_then$", strip_generics(e[1])):
            e1 = [x for _, x in gs.ret_exprs(c1)]
            if len(e1) == 1 and e1[0][0] == "call" and re.match(r"^std::collections::HashMap::get\(\w+, \^\*?" + re.escape(fp_) + r"\)$", render(e1[0][2][0])):
                c2 = gs.closure_arg(prog, c1, e1[0])
                e2 = [render(x) for _, x in gs.ret_exprs(c2)] if c2 is not None else []
                ok = len(e2) == 1 and e2[0].endswith(".0")
                msg += " / %s / %s" % (render(e1[0])[:100], e2)
    ctx.ob("query", "lookup returns the stored instant of (topic, peer)", ok, "%s:%d" % (gf.file, gf.line), msg)

    # ------------------------------------------------------------------ (5) handle_graft honours a running backoff
    hg = ctx.body(G, gs.BEH + r"handle_graft$")
    ins = [s for s in hg.call_sites(r"BTreeSet::insert$") if "HashMap::get_mut(self.mesh, " in render(hg.site_expr(s)[2][0])]
    ctx.floor("graft", "mesh insertion in handle_graft", ins, 1)
    cmp_bbs = []
    for bi in sorted(hg.live):
        info = hg.switch_info(bi)
        if not info:
            continue
        a = gs.ord_atom(info[0])
        if a and any(gs.has_call(x, r"BackoffStorage::get_backoff_time$") for x in a[1:]):
            cmp_bbs.append(bi)
    ctx.floor("graft", "backoff_time vs now comparison", cmp_bbs, 1)

    def running(cond, rendered, label):
        """edge proves now < backoff_time (backoff still running)"""
        rel = gs.ord_rel(cond, label)
        if rel is None:
            return False
        small, large, strict = rel
        return strict and render(small).endswith("Instant::now()") and gs.has_call(large, r"BackoffStorage::get_backoff_time$") and render(large).endswith("@Some.0")

    def not_running(cond, rendered, label):
        if label == "None" and re.match(r"^discr\(libp2p_gossipsub::backoff::BackoffStorage::get_backoff_time\(self\.backoffs, ", rendered):
            return True
        rel = gs.ord_rel(cond, label)
        if rel is None:
            return False
        small, large, strict = rel
        return (not strict) and render(large).endswith("Instant::now()") and gs.has_call(small, r"BackoffStorage::get_backoff_time$")
    for s in ins:
        e = hg.site_expr(s)
        head = gs.next_call_bb(e[2][0])
        ctx.ob("graft", "floor:topic loop head", head is not None, nontrivial=False, msg=str(head))
        if head is None:
            continue
        run_edges = gs.frontier(hg, gs.guard(hg, running, head), head)
        ctx.ob("graft", "floor:backoff-running edge", len(run_edges) >= 1, nontrivial=False, msg=str(sorted(run_edges)))
        starts = gs.edge_targets(run_edges)
        region = hg.reachable(starts, stop_nodes=[head])
        ctx.ob("graft", "backed-off GRAFT never reaches the mesh insertion", bool(starts) and s.bb not in region, s.loc(),
               "from the `backoff_time > now` edge the insertion is %s within the same topic iteration" % ("unreachable" if s.bb not in region else "reachable"))
        ok = hg.must_pass_edges(s.bb, gs.guard(hg, not_running, head), start=head)
        ctx.ob("graft", "mesh insertion only without a running backoff", ok, s.loc(),
               "every path from the loop head to peers.insert passes `get_backoff_time == None` or `backoff_time > now` false")
        # the lookup is for this topic and this peer
        lk = [c for bi in cmp_bbs for c in gs.calls(hg.switch_info(bi)[0], r"BackoffStorage::get_backoff_time$")]
        topic_r = render(e[2][0])
        ok = bool(lk) and all(render(c[2][0]) == "self.backoffs" and render(c[2][2]) == render(e[2][1]) and ("HashMap::get_mut(self.mesh, %s)" % render(c[2][1])) in topic_r for c in lk)
        ctx.ob("graft", "backoff looked up for the grafted (topic, peer)", ok, s.loc(), "lookup args %s" % [[render(a)[-60:] for a in c[2]] for c in lk][:1])
        # refused => PRUNE queued once, penalty when scoring is active
        prune_ins = gs.refusal_inserts(hg, head)
        got = lib.count_range(hg, starts, [head], lib.bbs(prune_ins)) if starts else None
        ctx.ob("graft", "backed-off GRAFT is answered with exactly one PRUNE entry", got == (1, 1), s.loc(), "to_prune_topics.insert on the refused path: %s" % (got,))
        pen = hg.call_sites(r"PeerScore::add_penalty$")
        inactive = lib.switch_edges_on(hg, r"^discr\(self\.peer_score\)$", {"Disabled"})
        got = lib.count_range(hg, starts, [head], lib.bbs(pen), blocked_edges=inactive) if starts else None
        ctx.ob("graft", "backed-off GRAFT is penalised when scoring is active", got is not None and got[0] >= 1, s.loc(), "add_penalty on the refused path (scoring active): %s" % (got,))
        for p in pen:
            gs.guarded(ctx, "graft", "penalty only for a running backoff", p, running, "add_penalty dominated by backoff_time > now")

    # ------------------------------------------------------------------ (6) cursor
    hw = hb.field_write_sites("heartbeat_index")
    ctx.floor("cursor", "heartbeat_index store", hw, 1)
    for s in hw:
        r = render(hb.site_expr(s))
        ok = re.search(r"Rem\(AddWithOverflow\(self\.heartbeat_index\.0, 1\)\.0, std::vec::Vec::len\(self\.backoffs_by_heartbeat\)\)", r) is not None \
            or re.search(r"Rem\(Add\(self\.heartbeat_index\.0, 1\), std::vec::Vec::len\(self\.backoffs_by_heartbeat\)\)", r) is not None
        ctx.ob("cursor", "advances one slot modulo ring length", ok, s.loc(), r[:200])
        lib.expect_count(ctx, "cursor", "advanced exactly once per storage heartbeat", hb, [0], hb.return_blocks(), [s.bb], (1, 1), "heartbeat_index store")
    bh = ctx.body(G, gs.BEH + r"heartbeat$")
    calls_hb = bh.call_sites(BS + r"heartbeat$")
    lib.expect_count(ctx, "cursor", "Behaviour::heartbeat ticks the storage exactly once", bh, [0], bh.return_blocks(), lib.bbs(calls_hb), (1, 1), "BackoffStorage::heartbeat call")
    who = sorted({s.body.npath for s in prog.callers(G, BS + r"heartbeat$")})
    ctx.ob("cursor", "only Behaviour::heartbeat ticks the storage", who == ["libp2p_gossipsub::behaviour::Behaviour::heartbeat"], msg=str(who))
